//go:build verif

package dnsforward

// C02 — upstream answers revealing a blocked CNAME target or address are not delivered.
//
//vx:overlay internal/dnsforward/zz_vx_c02.go
//vx:native
//vx:entry vxC02Response reach=replaced,delivered,allowlisted-name,protection-off,filtering-off,https-hint-blocked,aaaa-disabled
//vx:stub (*github.com/AdguardTeam/dnsproxy/proxy.Proxy).Resolve vxC02Resolve
//vx:note drives the real handleDNSRequest pipeline; upstream answer section of 0..2 records (thorough mode 2: exactly 3), each CNAME / A / AAAA / HTTPS (ipv4hint and ipv6hint lists of 0..2 addresses, either order) / TXT; for every name or address handed to the rule engines a fresh symbolic pair of verdicts (allow engine, block engine); protection, global/client filtering, allow-listing of the queried name: quick = the applicable case and each single reason for not applying; thorough = four slices of the full product: (0) all 32 combinations of the five switches with an A question and <=2 records, (1) the quick scenarios with AAAA and HTTPS questions and <=2 records, (2) and (3) the applicable case with an A question and exactly 3 resp. 4 records of kind CNAME / A / AAAA; AAAA-disabled symbolic; question type A in quick
//vx:note outside: rule syntax -> verdict (urlfilter); record payloads are distinct concrete constants (the verdicts are what is symbolic); blocking-mode response shapes (C01)

import (
	"context"
	"log/slog"
	"net"
	"net/netip"

	"github.com/AdguardTeam/AdGuardHome/internal/aghnet"
	"github.com/AdguardTeam/AdGuardHome/internal/filtering"
	"github.com/AdguardTeam/AdGuardHome/internal/vx"
	"github.com/AdguardTeam/dnsproxy/proxy"
	"github.com/AdguardTeam/golibs/cache"
	"github.com/AdguardTeam/urlfilter"
	"github.com/AdguardTeam/urlfilter/rules"
	"github.com/miekg/dns"
)

var (
	vxC02Resolves int
	vxC02Upstream *dns.Msg
	vxC02Answer   []dns.RR
)

func vxC02Resolve(p *proxy.Proxy, pctx *proxy.DNSContext) error {
	vxC02Resolves++
	resp := &dns.Msg{}
	resp.SetReply(pctx.Req)
	resp.Answer = vxC02Answer
	vxC02Upstream = resp
	pctx.Res = resp
	return nil
}

type vxC02Cache struct{}

func (vxC02Cache) Set(key, val []byte) bool { return false }
func (vxC02Cache) Get(key []byte) []byte    { return nil }
func (vxC02Cache) Del(key []byte)           {}
func (vxC02Cache) Clear()                   {}
func (vxC02Cache) Stats() (s cache.Stats)   { return s }

type vxC02AddrProc struct{}

func (vxC02AddrProc) Process(ctx context.Context, ip netip.Addr) {}
func (vxC02AddrProc) Close() error                               { return nil }

type vxC02DHCP struct{}

func (vxC02DHCP) HostByIP(ip netip.Addr) string   { return "" }
func (vxC02DHCP) IPByHost(host string) netip.Addr { return netip.Addr{} }
func (vxC02DHCP) Enabled() bool                   { return false }

// vxC02Item is one thing the response filter must look at, in order.
type vxC02Item struct {
	host  string // what the engines are asked about
	v6    bool   // an ipv6hint (dropped first when AAAA is disabled)
	https bool
}

type vxC02Verdict struct{ allow, block bool }

func vxC02Response() {
	const qname = "name.example.org"
	// ---- configuration ----
	protOn, globalFiltering, clientOwn, clientFiltering, nameAllowed := true, true, false, false, false
	// thorough = four slices of the full product (which is ~10^7 paths):
	// mode 0: every combination of the five switches, A question, <=2 records;
	// mode 1: the quick scenarios, AAAA and HTTPS questions, <=2 records;
	// mode 2, 3: filtering applicable, A question, exactly 3 resp. 4 CNAME/A/AAAA records.
	mode := -1
	if vx.Thorough() {
		mode = vx.Choice("mode", 4)
	}
	if mode == 0 {
		protOn = vx.Bool("protectionEnabled")
		globalFiltering = vx.Bool("globalFiltering")
		clientOwn = vx.Bool("clientUsesOwnSettings")
		clientFiltering = vx.Bool("clientFiltering")
		nameAllowed = vx.Bool("queriedNameAllowlisted")
	} else if mode >= 2 {
		// the applicable case only
	} else {
		// quick: the applicable case and each single reason for not applying
		switch vx.Choice("scenario", 6) {
		case 1:
			protOn = false
		case 2:
			globalFiltering = false
		case 3:
			clientOwn, clientFiltering = true, false
		case 4:
			globalFiltering, clientOwn, clientFiltering = false, true, true
		case 5:
			nameAllowed = true
		}
	}
	aaaaDisabled := vx.Bool("aaaaDisabled")

	conf := &filtering.Config{
		BlockingMode:       filtering.BlockingModeDefault,
		BlockedResponseTTL: 10,
		ProtectionEnabled:  protOn,
		FilteringEnabled:   globalFiltering,
		BlockedServices:    &filtering.BlockedServices{},
	}
	conf.ApplyClientFiltering = func(id string, addr netip.Addr, setts *filtering.Settings) {
		if clientOwn {
			setts.FilteringEnabled = clientFiltering
		}
	}
	filtering.VxC02Clock = 1_700_000_000
	filtering.VxC02Calls = nil
	d := filtering.VxC02NewFilter(conf, nil)
	d.SetEnabled(globalFiltering)

	// ---- upstream answer ----
	n := 3
	if mode == 3 {
		n = 4
	} else if mode != 2 {
		n = vx.Choice("nrecords", 3)
	}
	var answer []dns.RR
	var items []vxC02Item
	hdr := func(t uint16) dns.RR_Header {
		return dns.RR_Header{Name: qname + ".", Rrtype: t, Class: dns.ClassINET, Ttl: 60}
	}
	for i := 0; i < n; i++ {
		kinds := 5
		if mode >= 2 {
			// three or four records: CNAME / A / AAAA only (HTTPS hint lists and TXT are
			// covered with <=2 records; the full product exceeds 2*10^6 paths)
			kinds = 3
		}
		switch vx.Choice("kind", kinds) {
		case 0:
			t := "c" + string(rune('0'+i)) + ".cdn.example."
			answer = append(answer, &dns.CNAME{Hdr: hdr(dns.TypeCNAME), Target: t})
			items = append(items, vxC02Item{host: t[:len(t)-1]})
		case 1:
			ip := net.IP{10, 0, byte(i), 1}
			answer = append(answer, &dns.A{Hdr: hdr(dns.TypeA), A: ip})
			items = append(items, vxC02Item{host: ip.String()})
		case 2:
			ip := net.IP{0x20, 0x01, 0x0d, 0xb8, 0, 0, 0, byte(i), 0, 0, 0, 0, 0, 0, 0, 1}
			answer = append(answer, &dns.AAAA{Hdr: hdr(dns.TypeAAAA), AAAA: ip})
			items = append(items, vxC02Item{host: ip.String()})
		case 3:
			rr := &dns.HTTPS{SVCB: dns.SVCB{Hdr: hdr(dns.TypeHTTPS), Priority: 1, Target: "."}}
			n4, n6 := vx.Choice("hint4", 3), vx.Choice("hint6", 3)
			var h4, h6 []net.IP
			var it4, it6 []vxC02Item
			for j := 0; j < n4; j++ {
				ip := net.IP{10, 1, byte(i), byte(j + 1)}
				h4 = append(h4, ip)
				it4 = append(it4, vxC02Item{host: ip.String(), https: true})
			}
			for j := 0; j < n6; j++ {
				ip := net.IP{0x20, 0x01, 0x0d, 0xb8, 0, 1, 0, byte(i), 0, 0, 0, 0, 0, 0, 0, byte(j + 1)}
				h6 = append(h6, ip)
				it6 = append(it6, vxC02Item{host: ip.String(), https: true, v6: true})
			}
			v4kv, v6kv := &dns.SVCBIPv4Hint{Hint: h4}, &dns.SVCBIPv6Hint{Hint: h6}
			if vx.Bool("v6hintFirst") {
				rr.Value = []dns.SVCBKeyValue{&dns.SVCBAlpn{Alpn: []string{"h2"}}, v6kv, v4kv}
				items = append(append(items, it6...), it4...)
			} else {
				rr.Value = []dns.SVCBKeyValue{v4kv, &dns.SVCBAlpn{Alpn: []string{"h2"}}, v6kv}
				items = append(append(items, it4...), it6...)
			}
			answer = append(answer, rr)
		default:
			answer = append(answer, &dns.TXT{Hdr: hdr(dns.TypeTXT), Txt: []string{"v=spf1"}})
		}
	}
	vxC02Answer = answer

	// ---- engine verdicts: fresh per distinct name/address ----
	verdicts := map[string]*vxC02Verdict{}
	filtering.VxC02Verdict = func(allow bool, req *urlfilter.DNSRequest) (*urlfilter.DNSResult, bool) {
		res := &urlfilter.DNSResult{}
		if req.Hostname == qname {
			if allow && nameAllowed {
				res.NetworkRule = &rules.NetworkRule{RuleText: "@@||name.example.org^", Whitelist: true, FilterListID: 3}
				return res, true
			}
			return res, false
		}
		v := verdicts[req.Hostname]
		if v == nil {
			v = &vxC02Verdict{allow: vx.Bool("allow:" + req.Hostname), block: vx.Bool("block:" + req.Hostname)}
			verdicts[req.Hostname] = v
		}
		if allow {
			if v.allow {
				res.NetworkRule = &rules.NetworkRule{RuleText: "@@||x^", Whitelist: true, FilterListID: 3}
				return res, true
			}
			return res, false
		}
		if v.block {
			res.NetworkRule = &rules.NetworkRule{RuleText: "||x^", FilterListID: 5}
			return res, true
		}
		return res, false
	}

	// ---- the request ----
	qtype := uint16(dns.TypeA)
	if mode == 1 {
		qtype = []uint16{dns.TypeAAAA, dns.TypeHTTPS}[vx.Choice("qtype", 2)]
	}
	req := &dns.Msg{}
	req.Id = 1
	req.Question = []dns.Question{{Name: qname + ".", Qtype: qtype, Qclass: dns.ClassINET}}
	pctx := &proxy.DNSContext{Proto: proxy.ProtoUDP, Req: req, Addr: netip.AddrPortFrom(netip.AddrFrom4([4]byte{192, 168, 1, 7}), 5353), RequestID: 9}
	s := &Server{dnsFilter: d, dnsProxy: &proxy.Proxy{}, clientIDCache: vxC02Cache{}, addrProc: vxC02AddrProc{}, dhcpServer: vxC02DHCP{}, ipset: &ipsetHandler{logger: slog.Default()}, anonymizer: aghnet.NewIPMut(nil)}
	s.conf.TLSConf = &TLSConfig{}
	s.conf.AAAADisabled = aaaaDisabled
	vxC02Resolves, vxC02Upstream = 0, nil

	err := s.handleDNSRequest(nil, pctx)
	vx.Assert(err == nil, "request processing does not fail")
	if aaaaDisabled && qtype == dns.TypeAAAA {
		// answered locally before anything else; not this property's subject
		return
	}
	vx.Assert(vxC02Resolves == 1, "the (not blocked) question is resolved upstream once")
	res := pctx.Res
	vx.Note(res == vxC02Upstream)
	if res != nil {
		vx.Note(res.Rcode)
		vx.Note(len(res.Answer))
	}

	// ---- reference ----
	filteringOn := globalFiltering
	if clientOwn {
		filteringOn = clientFiltering
	}
	applicable := protOn && filteringOn && !nameAllowed
	if !protOn {
		vx.Reach("protection-off")
	}
	if !filteringOn {
		vx.Reach("filtering-off")
	}
	if protOn && filteringOn && nameAllowed {
		vx.Reach("allowlisted-name")
	}
	offending := ""
	offHTTPS := false
	if applicable {
		for _, it := range items {
			if it.v6 && aaaaDisabled {
				continue // stripped before matching
			}
			v := verdicts[it.host]
			if v == nil {
				// never asked about an element in front of the deciding one
				vx.Fail("every CNAME target, address and hint in front of the deciding record is matched against the rules")
				return
			}
			if !v.allow && v.block {
				offending = it.host
				offHTTPS = it.https
				break
			}
		}
	}
	if offending != "" {
		vx.Reach("replaced")
		if offHTTPS {
			vx.Reach("https-hint-blocked")
		}
		vx.Assert(res != vxC02Upstream, "an answer revealing a blocked target/address is not delivered")
		if res != nil && res != vxC02Upstream {
			// default blocking mode: null address or empty answer; in any case no upstream record
			for _, rr := range res.Answer {
				for _, up := range answer {
					vx.Assert(rr != up, "the replacement carries no upstream record")
				}
			}
		}
		return
	}
	vx.Reach("delivered")
	vx.Assert(res == vxC02Upstream, "no record matches / filtering not applicable: the upstream answer is delivered")
	if res == vxC02Upstream && res != nil {
		vx.Assert(len(res.Answer) == len(answer), "answer section unchanged")
		for i := range answer {
			if i < len(res.Answer) {
				vx.Assert(res.Answer[i] == answer[i], "records unchanged and in order")
			}
		}
		if aaaaDisabled && applicable {
			vx.Reach("aaaa-disabled")
		}
	}
}
