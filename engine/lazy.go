package main

// Lazy "any" values and lazy maps: an arbitrary untyped document (e.g. a
// parsed YAML tree) whose shape is decided only where the code looks at it.
//
//   - a lazy map decides the presence of a key at its first lookup (at most
//     maxPresent keys of one map are present; all others are absent);
//   - a lazy any decides "is it nil" at the first nil comparison or type
//     assertion and "is its dynamic type T" at the first assertion to T; a
//     value of type T is then generated (scalars symbolic, strings of 0..2
//     symbolic bytes, []any of 0..2 lazy elements, map[string]any lazy).
//
// Every decision is a fresh symbolic Bool branched on, so the solver model of
// a counterexample spells out the document.

import (
	"fmt"
	"go/types"
)

type LazyVal struct {
	id       int
	resolved bool
	val      Iface
	notNil   bool
	notTypes []types.Type
	depth    int
	maxKeys  int
}

type lazyMapInfo struct {
	id      int
	decided map[string]bool
	present int
	maxKeys int
	depth   int
}

var lazyType types.Type = types.NewNamed(types.NewTypeName(0, nil, "vx.lazyAny", nil), types.NewStruct(nil, nil), nil)
var lazyOtherType types.Type = types.NewNamed(types.NewTypeName(0, nil, "vx.someOtherType", nil), types.NewStruct(nil, nil), nil)

const lazyMaxDepth = 3

func isLazy(x Iface) (*LazyVal, bool) {
	if x.t == lazyType {
		return x.v.(*LazyVal), true
	}
	return nil, false
}

func (in *Interp) newLazyAny(depth, maxKeys int) Iface {
	in.lazyCount++
	return Iface{t: lazyType, v: &LazyVal{id: in.lazyCount, depth: depth, maxKeys: maxKeys}}
}

func (in *Interp) newLazyMap(depth, maxKeys int) *Map {
	m := newMap()
	in.lazyCount++
	m.lazy = &lazyMapInfo{id: in.lazyCount, decided: map[string]bool{}, maxKeys: maxKeys, depth: depth}
	return m
}

// lazyNil decides whether the lazy value is nil; it returns the resolved
// interface when it is.
func (in *Interp) lazyNil(lv *LazyVal) bool {
	if lv.resolved {
		return lv.val.t == nil
	}
	if lv.notNil {
		return false
	}
	b := in.p.NewVar(fmt.Sprintf("any%d.isNil", lv.id), 0)
	if in.p.Branch(b) {
		lv.resolved = true
		lv.val = Iface{}
		return true
	}
	lv.notNil = true
	return false
}

// lazyAs resolves the lazy value against the concrete type T: it returns the
// concrete interface value when the document holds a T there.
func (in *Interp) lazyAs(lv *LazyVal, T types.Type) Iface {
	if lv.resolved {
		if lv.val.t == nil {
			in.lazyMismatches++
		}
		return lv.val
	}
	if in.lazyNil(lv) {
		// a type assertion on a null document value fails
		in.lazyMismatches++
		return lv.val
	}
	for _, nt := range lv.notTypes {
		if types.Identical(nt, T) {
			return Iface{t: lazyOtherType, v: lv}
		}
	}
	if _, isIface := T.Underlying().(*types.Interface); isIface {
		// a document value implements no interface with methods; `any` itself
		// is handled by the caller
		return Iface{t: lazyOtherType, v: lv}
	}
	b := in.p.NewVar(fmt.Sprintf("any%d.is(%s)", lv.id, types.TypeString(T, func(p *types.Package) string { return p.Name() })), 0)
	if in.p.Branch(b) {
		lv.resolved = true
		lv.val = Iface{t: T, v: in.freshOf(T, fmt.Sprintf("any%d", lv.id), lv.depth, lv.maxKeys)}
		return lv.val
	}
	lv.notTypes = append(lv.notTypes, T)
	in.lazyMismatches++
	return Iface{t: lazyOtherType, v: lv}
}

// freshOf generates an arbitrary value of type T.
func (in *Interp) freshOf(T types.Type, name string, depth, maxKeys int) Value {
	switch u := T.Underlying().(type) {
	case *types.Basic:
		switch {
		case u.Kind() == types.Bool:
			return in.p.NewVar(name+".bool", 0)
		case u.Info()&types.IsInteger != 0:
			return in.p.NewVar(name+".int", intWidth(u))
		case u.Info()&types.IsFloat != 0:
			return float64(1.5)
		case u.Info()&types.IsString != 0:
			n := in.p.NewVar(name+".strlen", 64)
			in.p.Assume(in.f.Cmp(OpUlt, n, mkConst(3, 64)))
			k := int(in.p.Concretize(n))
			if k == 0 {
				return ""
			}
			b := make([]*Term, k)
			for i := range b {
				b[i] = in.p.NewVar(fmt.Sprintf("%s.str[%d]", name, i), 8)
			}
			return &SymStr{b}
		}
	case *types.Map:
		if depth >= lazyMaxDepth {
			return newMap()
		}
		if _, ok := u.Elem().Underlying().(*types.Interface); ok {
			if kb, ok := u.Key().Underlying().(*types.Basic); ok && kb.Info()&types.IsString != 0 {
				return in.newLazyMap(depth+1, maxKeys)
			}
		}
		return newMap()
	case *types.Slice:
		n := in.p.NewVar(name+".len", 64)
		in.p.Assume(in.f.Cmp(OpUlt, n, mkConst(3, 64)))
		k := int(in.p.Concretize(n))
		s := make(Slice, k)
		for i := range s {
			if _, ok := u.Elem().Underlying().(*types.Interface); ok {
				if depth >= lazyMaxDepth {
					s[i] = Iface{}
				} else {
					s[i] = in.newLazyAny(depth+1, maxKeys)
				}
			} else {
				s[i] = in.freshOf(u.Elem(), fmt.Sprintf("%s[%d]", name, i), depth+1, maxKeys)
			}
		}
		return s
	case *types.Struct, *types.Array, *types.Pointer:
		return zero(T)
	}
	panic(unsupported{"lazy any: cannot generate a value of type " + T.String()})
}

// lazyMapLookup decides the presence of key k in a lazy map.
func (in *Interp) lazyMapLookup(m *Map, k Value) {
	ks, ok := k.(string)
	if !ok {
		panic(unsupported{"lazy map lookup with a symbolic key"})
	}
	li := m.lazy
	if li.decided[ks] {
		return
	}
	li.decided[ks] = true
	if li.present >= li.maxKeys {
		return
	}
	b := in.p.NewVar(fmt.Sprintf("doc%d.has(%s)", li.id, ks), 0)
	if in.p.Branch(b) {
		li.present++
		in.mapInsertRaw(m, ks, in.newLazyAny(li.depth, li.maxKeys))
	}
}
