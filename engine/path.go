package main

// One explored path: concolic state (model), path condition, decisions, and
// the primitives Branch / Concretize / Assume / Assert.

import (
	"fmt"
	"os"
	"sort"
	"strings"
)

type Decision struct {
	Kind byte   // 'b' branch (Val 1 = true side), 'e' concretize == Val, 'n' concretize != Val
	Val  uint64 `json:"v"`
}

type WorkItem struct {
	prefix []Decision
	model  map[string]uint64
}

type pathEnd struct{ reason string }
type unsupported struct{ msg string }

type knownPred struct {
	id   string
	cond *Term
}

type Violation struct {
	Label     string            `json:"label"`
	Known     string            `json:"known,omitempty"`
	Model     map[string]uint64 `json:"model"`
	VarOrder  []string          `json:"var_order"`
	Decisions []Decision        `json:"decisions"`
	Stack     []string          `json:"stack,omitempty"`
	Notes     []string          `json:"notes,omitempty"`
}

type Path struct {
	ex         *Explorer
	s          *Solver
	f          termFactory
	model      *Model
	prefix     []Decision
	pos        int
	decisions  []Decision
	pc         []*Term
	vars       []*Term
	varCount   map[string]int
	known      []knownPred
	reached    map[string]bool
	notes      []string
	nBranches  int
	nForks     int
	concrete   bool // concrete replay mode: no solver, model fixed
	in         *Interp
	iv         *ivState
	ivDecided  int
	panicStack []string
	userNotes  []string
}

func newPath(ex *Explorer, s *Solver, item WorkItem) *Path {
	p := &Path{ex: ex, s: s, prefix: item.prefix, varCount: map[string]int{}, reached: map[string]bool{}, iv: newIvState()}
	m := item.model
	if m == nil {
		m = map[string]uint64{}
	}
	p.model = &Model{ver: 1, vals: m}
	return p
}

func sanitizeName(n string) string {
	return strings.Map(func(r rune) rune {
		if r == '|' || r == '\\' || r < 32 || r > 126 {
			return '_'
		}
		return r
	}, n)
}

func (p *Path) NewVar(name string, w uint16) *Term {
	name = sanitizeName(name)
	k := p.varCount[name]
	p.varCount[name] = k + 1
	if k > 0 {
		name = fmt.Sprintf("%s#%d", name, k)
	}
	v := p.f.mkVar(name, w)
	p.vars = append(p.vars, v)
	if p.concrete {
		// concrete replay: every input is the constant of the model
		return mkConst(p.model.vals[name]&maskB(w), w)
	}
	p.s.Declare(v)
	return v
}

func (p *Path) addPC(c *Term) {
	if c.IsConst() {
		if c.val == 0 {
			panic(pathEnd{"pc-false"})
		}
		return
	}
	p.pc = append(p.pc, c)
	p.iv.assume(c, true)
	if !p.concrete {
		p.s.Assert(c)
	}
}

var checkIV = os.Getenv("VX_CHECK_IV") != ""
var forkProf = os.Getenv("VX_FORKPROF") != ""

// ivDecide consults the interval pre-solver.
func (p *Path) ivDecide(c *Term) (bool, bool) {
	if p.concrete {
		return false, false
	}
	v, ok := p.iv.decide(c)
	if !ok {
		return false, false
	}
	p.ivDecided++
	if checkIV {
		neg := c
		if v {
			neg = p.f.Not(c)
		}
		res := p.s.Check(neg)
		p.s.PopCheck()
		if res != "unsat" {
			panic(fmt.Sprintf("engine: interval pre-solver decided %v but solver says the opposite is %s at %s", v, res, p.where()))
		}
	}
	return v, true
}

func (p *Path) setModel(vals map[string]uint64) {
	p.model = &Model{ver: p.model.ver + 1, vals: vals}
}

func (p *Path) cloneDecisions(extra Decision) []Decision {
	d := make([]Decision, len(p.decisions)+1)
	copy(d, p.decisions)
	d[len(p.decisions)] = extra
	return d
}

func (p *Path) where() string {
	if p.in != nil {
		return p.in.where()
	}
	return ""
}

// Branch returns the side of c this path follows, forking the other side when feasible.
func (p *Path) Branch(c *Term) bool {
	if c.IsConst() {
		return c.val != 0
	}
	if p.concrete {
		return c.Eval(p.model) != 0
	}
	if v, ok := p.ivDecide(c); ok {
		return v
	}
	p.nBranches++
	if p.pos < len(p.prefix) {
		d := p.prefix[p.pos]
		p.pos++
		if d.Kind != 'b' {
			panic(fmt.Sprintf("engine: replay mismatch at decision %d: want branch, have %c (%s)", p.pos-1, d.Kind, p.where()))
		}
		side := d.Val != 0
		p.decisions = append(p.decisions, d)
		if side {
			p.addPC(c)
		} else {
			p.addPC(p.f.Not(c))
		}
		return side
	}
	side := c.Eval(p.model) != 0
	var other *Term
	if side {
		other = p.f.Not(c)
	} else {
		other = c
	}
	res := p.s.Check(other)
	switch res {
	case "sat":
		m := p.s.GetModel(p.vars)
		p.s.PopCheck()
		ov := uint64(1)
		if side {
			ov = 0
		}
		p.nForks++
		if forkProf {
			p.ex.noteFork(p.where())
		}
		p.ex.push(WorkItem{prefix: p.cloneDecisions(Decision{'b', ov}), model: m})
	case "unsat":
		p.s.PopCheck()
	default:
		p.s.PopCheck()
		p.ex.noteUnknown("branch feasibility unknown at " + p.where())
	}
	sv := uint64(0)
	if side {
		sv = 1
	}
	p.decisions = append(p.decisions, Decision{'b', sv})
	if side {
		p.addPC(c)
	} else {
		p.addPC(p.f.Not(c))
	}
	return side
}

// Concretize fixes t to a concrete value on this path, forking the alternatives.
func (p *Path) Concretize(t *Term) uint64 {
	if t.IsConst() {
		return t.val
	}
	if p.concrete {
		return t.Eval(p.model)
	}
	for {
		if p.pos < len(p.prefix) {
			d := p.prefix[p.pos]
			p.pos++
			p.decisions = append(p.decisions, d)
			switch d.Kind {
			case 'e':
				p.addPC(p.f.Eq(t, mkConst(d.Val, t.w)))
				return d.Val
			case 'n':
				p.addPC(p.f.Neq(t, mkConst(d.Val, t.w)))
				continue
			}
			panic(fmt.Sprintf("engine: replay mismatch at decision %d: want concretize, have %c (%s)", p.pos-1, d.Kind, p.where()))
		}
		k := t.Eval(p.model)
		kc := mkConst(k, t.w)
		neq := p.f.Neq(t, kc)
		res := p.s.Check(neq)
		switch res {
		case "sat":
			m := p.s.GetModel(p.vars)
			p.s.PopCheck()
			p.nForks++
			if forkProf {
				p.ex.noteFork("concretize " + p.where())
			}
			p.ex.push(WorkItem{prefix: p.cloneDecisions(Decision{'n', k}), model: m})
		case "unsat":
			p.s.PopCheck()
		default:
			p.s.PopCheck()
			p.ex.noteUnknown("concretize feasibility unknown at " + p.where())
		}
		p.decisions = append(p.decisions, Decision{'e', k})
		p.addPC(p.f.Eq(t, kc))
		return k
	}
}

func (p *Path) Assume(c *Term) {
	if c.IsConst() {
		if c.val == 0 {
			panic(pathEnd{"assume-false"})
		}
		return
	}
	if v, ok := p.ivDecide(c); ok && v {
		return
	}
	if c.Eval(p.model) != 0 {
		p.addPC(c)
		return
	}
	if p.concrete {
		panic(pathEnd{"assume-false"})
	}
	res := p.s.Check(c)
	switch res {
	case "sat":
		m := p.s.GetModel(p.vars)
		p.s.PopCheck()
		p.setModel(m)
		p.addPC(c)
	case "unsat":
		p.s.PopCheck()
		panic(pathEnd{"assume-infeasible"})
	default:
		p.s.PopCheck()
		p.ex.noteUnknown("assume unknown at " + p.where())
		panic(pathEnd{"assume-unknown"})
	}
}

func (p *Path) notKnown() *Term {
	nk := trueT
	for _, k := range p.known {
		nk = p.f.And(nk, p.f.Not(k.cond))
	}
	return nk
}

func (p *Path) whichKnown() string {
	for _, k := range p.known {
		if k.cond.Eval(p.model) != 0 {
			return k.id
		}
	}
	return ""
}

// Assert discharges the obligation "c holds on every input reaching here".
func (p *Path) Assert(c *Term, label string) {
	p.ex.countObligation(c.IsConst())
	if c.IsConst() && c.val != 0 {
		return
	}
	if p.concrete {
		if c.Eval(p.model) == 0 {
			p.violate(label)
		}
		return
	}
	if v, ok := p.ivDecide(c); ok && v {
		p.ex.countIvDischarged()
		return
	}
	nc := p.f.Not(c)
	nk := p.notKnown()
	// 1. a violation outside every known-finding predicate?
	q := p.f.And(nc, nk)
	if q.IsConst() {
		if q.val != 0 {
			p.violate(label)
		}
	} else if q.Eval(p.model) != 0 {
		p.violate(label)
	} else {
		res := p.s.Check(q)
		switch res {
		case "sat":
			m := p.s.GetModel(p.vars)
			p.s.PopCheck()
			p.setModel(m)
			p.violate(label)
		case "unsat":
			p.s.PopCheck()
		default:
			p.s.PopCheck()
			p.ex.noteUnknown("assertion '" + label + "' undecided at " + p.where())
		}
	}
	// 2. a violation inside a known-finding predicate?
	if len(p.known) > 0 {
		for _, k := range p.known {
			q := p.f.And(nc, k.cond)
			if q.IsConst() {
				if q.val != 0 {
					p.setKnownModel(k.id, label)
				}
				continue
			}
			res := p.s.Check(q)
			if res == "sat" {
				m := p.s.GetModel(p.vars)
				p.s.PopCheck()
				p.ex.reportKnown(k.id, label, p.mkViolation(label, m))
			} else {
				p.s.PopCheck()
				if res != "unsat" {
					p.ex.noteUnknown("known-finding query undecided at " + p.where())
				}
			}
		}
	}
	p.addPC(c)
}

func (p *Path) setKnownModel(id, label string) {
	p.ex.reportKnown(id, label, p.mkViolation(label, p.model.vals))
	panic(pathEnd{"known-finding"})
}

func (p *Path) mkViolation(label string, m map[string]uint64) *Violation {
	v := &Violation{Label: label, Model: map[string]uint64{}, Decisions: append([]Decision(nil), p.decisions...)}
	for _, t := range p.vars {
		v.VarOrder = append(v.VarOrder, t.name)
		v.Model[t.name] = m[t.name] & maskB(t.w)
	}
	if p.panicStack != nil {
		v.Stack = p.panicStack
	} else if p.in != nil {
		v.Stack = p.in.stack()
	}
	v.Notes = append(v.Notes, p.notes...)
	return v
}

// violate records a violation witnessed by the current model and ends the path.
func (p *Path) violate(label string) {
	v := p.mkViolation(label, p.model.vals)
	if id := p.whichKnown(); id != "" {
		v.Known = id
		p.ex.reportKnown(id, label, v)
		panic(pathEnd{"known-finding"})
	}
	p.ex.reportViolation(v)
	panic(pathEnd{"violation"})
}

// PathViolation is used for violations that are a property of the whole path
// (uncaught panic, step budget): is the path feasible outside known findings?
func (p *Path) PathViolation(label string) {
	p.ex.countObligation(false)
	if p.concrete {
		p.violate(label)
	}
	nk := p.notKnown()
	if nk.IsConst() {
		if nk.val != 0 {
			p.violate(label)
		}
		p.violate(label) // known; violate() classifies it
	}
	if nk.Eval(p.model) != 0 {
		p.violate(label)
	}
	res := p.s.Check(nk)
	if res == "sat" {
		m := p.s.GetModel(p.vars)
		p.s.PopCheck()
		p.setModel(m)
		p.violate(label)
	}
	p.s.PopCheck()
	if res != "unsat" {
		p.ex.noteUnknown("path violation undecided at " + p.where())
	}
	p.violate(label) // known finding under the current model
}

func (p *Path) Reach(label string) {
	if !p.reached[label] {
		p.reached[label] = true
		p.ex.noteReach(label)
	}
}

func (p *Path) modelSummary(max int) map[string]uint64 {
	out := map[string]uint64{}
	names := []string{}
	for _, v := range p.vars {
		names = append(names, v.name)
	}
	sort.Strings(names)
	for i, n := range names {
		if i >= max {
			break
		}
		out[n] = p.model.vals[n]
	}
	return out
}
