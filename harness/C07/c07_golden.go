//go:build verif

package querylog

// C07 — the hand-written token decoder (decode.go) on real stored lines.
//
// The lines in c07_golden_lines.go were written natively by the real
// encoding/json encoder from the entries in c07_golden_entries.go.  Under the
// engine the real decodeLogEntry / decodeResult* code reads them back; only the
// tokenizer of encoding/json (reflection-driven, not executable) is replaced
// by the small JSON tokenizer below.
//
//vx:overlay internal/querylog/zz_vx_c07g.go
//vx:stub encoding/json.NewDecoder vxC07NewDecoder
//vx:stub (*encoding/json.Decoder).Token vxC07Token
//vx:stub (*encoding/json.Decoder).Decode vxC07DecDecode
//vx:note RoundTrip: 16 entries covering every filtering reason, 0..2 rules (with/without address and list ID, negative IDs), service name, CNAME, legacy IP list, DNS rewrite results (RCode, A/AAAA/PTR/TXT values), all five client protocols, v4/v6/4-in-6 clients, ECS, answer and original answer, cached/AD flags, zero elapsed, IDN host, escaped characters; their lines were produced natively by the real json.Encoder (gen_golden_test.go.txt) and are decoded under the engine by the REAL decode.go on top of a harness JSON tokenizer (encoding/json's Decoder.Token/Decode are reflection-driven: stubs NewDecoder, Token, Decode); variant with the first two bytes of host, ClientID and first rule text symbolic; 3 legacy line shapes (Rule/FilterID, ReverseHosts, IPList+hosts reason) with the expectations of the package's own decoder tests
//vx:note RoundTrip also checks on each real line: readQLogTimestamp = entry time, the entry is selected by its own host/address/ClientID/client name (full match) and not dropped by the quick pre-match
//vx:note outside: the JSON encoder itself (trusted, run natively to produce the lines); numbers/objects as DNS rewrite values; malformed lines
//vx:entry vxC07RoundTrip reach=decoded,rules,rewrite-values,legacy-hosts,legacy-rule,escaped,symbolic-text

import (
	"context"
	"encoding/json"
	"fmt"
	"io"
	"log/slog"
	"net"
	"net/netip"
	"strconv"

	"github.com/AdguardTeam/AdGuardHome/internal/filtering"
	"github.com/AdguardTeam/AdGuardHome/internal/vx"
	"github.com/AdguardTeam/golibs/errors"
	"github.com/AdguardTeam/urlfilter/rules"
	"github.com/miekg/dns"
)

// ---- JSON tokenizer (replaces encoding/json's) -------------------------------

type vxC07Dec struct {
	d   *json.Decoder
	s   string
	pos int
}

var vxC07Decs []*vxC07Dec

const vxC07ErrSyntax errors.Error = "invalid character in JSON input"

func vxC07NewDecoder(r io.Reader) *json.Decoder {
	b, err := io.ReadAll(r)
	if err != nil {
		vx.Fail("harness: reading the decoder input")
	}
	d := new(json.Decoder)
	vxC07Decs = append(vxC07Decs, &vxC07Dec{d: d, s: string(b)})
	return d
}

func vxC07FindDec(d *json.Decoder) *vxC07Dec {
	for _, st := range vxC07Decs {
		if st.d == d {
			return st
		}
	}
	vx.Fail("harness: unknown JSON decoder")
	return nil
}

func (st *vxC07Dec) skip() {
	for st.pos < len(st.s) {
		switch st.s[st.pos] {
		case ' ', '\t', '\r', '\n', ',', ':':
			st.pos++
		default:
			return
		}
	}
}

func vxC07Hex(c byte) (int, bool) {
	switch {
	case '0' <= c && c <= '9':
		return int(c - '0'), true
	case 'a' <= c && c <= 'f':
		return int(c-'a') + 10, true
	case 'A' <= c && c <= 'F':
		return int(c-'A') + 10, true
	}
	return 0, false
}

// str reads the string literal that starts at pos.
func (st *vxC07Dec) str() (string, error) {
	st.pos++ // opening quote
	var out []byte
	for st.pos < len(st.s) {
		c := st.s[st.pos]
		switch {
		case c == '"':
			st.pos++
			return string(out), nil
		case c == '\\':
			if st.pos+1 >= len(st.s) {
				return "", vxC07ErrSyntax
			}
			e := st.s[st.pos+1]
			st.pos += 2
			switch e {
			case '"', '\\', '/':
				out = append(out, e)
			case 'b':
				out = append(out, '\b')
			case 'f':
				out = append(out, '\f')
			case 'n':
				out = append(out, '\n')
			case 'r':
				out = append(out, '\r')
			case 't':
				out = append(out, '\t')
			case 'u':
				if st.pos+4 > len(st.s) {
					return "", vxC07ErrSyntax
				}
				r := 0
				for i := 0; i < 4; i++ {
					h, ok := vxC07Hex(st.s[st.pos+i])
					if !ok {
						return "", vxC07ErrSyntax
					}
					r = r<<4 | h
				}
				st.pos += 4
				out = append(out, string(rune(r))...)
			default:
				return "", vxC07ErrSyntax
			}
		case c < 0x20:
			return "", vxC07ErrSyntax
		default:
			out = append(out, c)
			st.pos++
		}
	}
	return "", io.ErrUnexpectedEOF
}

func (st *vxC07Dec) literal(word string) bool {
	if len(st.s)-st.pos >= len(word) && st.s[st.pos:st.pos+len(word)] == word {
		st.pos += len(word)
		return true
	}
	return false
}

func (st *vxC07Dec) number() json.Number {
	start := st.pos
	for st.pos < len(st.s) {
		c := st.s[st.pos]
		if ('0' <= c && c <= '9') || c == '-' || c == '+' || c == '.' || c == 'e' || c == 'E' {
			st.pos++
		} else {
			break
		}
	}
	return json.Number(st.s[start:st.pos])
}

// vxC07Token mirrors (*json.Decoder).Token with UseNumber: delimiters,
// strings, numbers, booleans, null; commas and colons are skipped; io.EOF at
// the end of the input.
func vxC07Token(d *json.Decoder) (json.Token, error) {
	st := vxC07FindDec(d)
	st.skip()
	if st.pos >= len(st.s) {
		return nil, io.EOF
	}
	c := st.s[st.pos]
	switch {
	case c == '{' || c == '}' || c == '[' || c == ']':
		st.pos++
		return json.Delim(c), nil
	case c == '"':
		s, err := st.str()
		if err != nil {
			return nil, err
		}
		return s, nil
	case c == 't':
		if st.literal("true") {
			return true, nil
		}
	case c == 'f':
		if st.literal("false") {
			return false, nil
		}
	case c == 'n':
		if st.literal("null") {
			return nil, nil
		}
	case c == '-' || ('0' <= c && c <= '9'):
		return st.number(), nil
	}
	return nil, vxC07ErrSyntax
}

// vxC07DecDecode mirrors (*json.Decoder).Decode for the one use in decode.go:
// the "Response" object of a DNS rewrite result, a map from record type
// numbers to lists of values (strings in the golden lines).
func vxC07DecDecode(d *json.Decoder, v any) error {
	resp, ok := v.(*filtering.DNSRewriteResultResponse)
	if !ok {
		vx.Fail("harness: json Decode into a type that the harness tokenizer does not model")
		return nil
	}
	st := vxC07FindDec(d)
	st.skip()
	if st.pos >= len(st.s) || st.s[st.pos] != '{' {
		return vxC07ErrSyntax
	}
	st.pos++
	if *resp == nil {
		*resp = filtering.DNSRewriteResultResponse{}
	}
	for {
		st.skip()
		if st.pos >= len(st.s) {
			return io.ErrUnexpectedEOF
		}
		if st.s[st.pos] == '}' {
			st.pos++
			return nil
		}
		if st.s[st.pos] != '"' {
			return vxC07ErrSyntax
		}
		key, err := st.str()
		if err != nil {
			return err
		}
		n, err := strconv.ParseUint(key, 10, 16)
		if err != nil {
			return err
		}
		st.skip()
		if st.pos >= len(st.s) || st.s[st.pos] != '[' {
			return vxC07ErrSyntax
		}
		st.pos++
		var vals []rules.RRValue
		for {
			st.skip()
			if st.pos >= len(st.s) {
				return io.ErrUnexpectedEOF
			}
			if st.s[st.pos] == ']' {
				st.pos++
				break
			}
			if st.s[st.pos] != '"' {
				vx.Fail("harness: rewrite value that is not a string")
				return vxC07ErrSyntax
			}
			s, sErr := st.str()
			if sErr != nil {
				return sErr
			}
			vals = append(vals, s)
		}
		(*resp)[rules.RRType(n)] = vals
	}
}

// ---- comparison --------------------------------------------------------------

func vxC07BytesEq(a, b []byte) bool {
	if len(a) != len(b) {
		return false
	}
	for i := range a {
		if a[i] != b[i] {
			return false
		}
	}
	return true
}

func vxC07ValueEq(got, want rules.RRValue) bool {
	switch w := want.(type) {
	case net.IP:
		g, ok := got.(net.IP)
		return ok && g.Equal(w)
	case netip.Addr:
		g, ok := got.(netip.Addr)
		return ok && g == w
	case string:
		g, ok := got.(string)
		return ok && g == w
	}
	return false
}

func vxC07RewriteEq(got, want *filtering.DNSRewriteResult) bool {
	if got == nil || want == nil {
		return got == nil && want == nil
	}
	if got.RCode != want.RCode || len(got.Response) != len(want.Response) {
		return false
	}
	for t, wv := range want.Response {
		gv, ok := got.Response[t]
		if !ok || len(gv) != len(wv) {
			return false
		}
		for i := range wv {
			if !vxC07ValueEq(gv[i], wv[i]) {
				return false
			}
		}
	}
	return true
}

// vxC07ResultEq compares filtering results field by field.
func vxC07ResultEq(got, want *filtering.Result) string {
	switch {
	case got.Reason != want.Reason:
		return "Reason"
	case got.IsFiltered != want.IsFiltered:
		return "IsFiltered"
	case got.CanonName != want.CanonName:
		return "CanonName"
	case got.ServiceName != want.ServiceName:
		return "ServiceName"
	case len(got.IPList) != len(want.IPList):
		return "IPList"
	case len(got.Rules) != len(want.Rules):
		return "Rules"
	case !vxC07RewriteEq(got.DNSRewriteResult, want.DNSRewriteResult):
		return "DNSRewriteResult"
	}
	for i := range want.IPList {
		if got.IPList[i] != want.IPList[i] {
			return "IPList"
		}
	}
	for i := range want.Rules {
		if got.Rules[i] == nil || *got.Rules[i] != *want.Rules[i] {
			return "Rules"
		}
	}
	return ""
}

// vxC07EntryEq names the first field in which the decoded entry differs from
// the recorded one ("" if none).  Addresses compare as addresses (the decoder
// yields the 16-byte form), times as instants.
func vxC07EntryEq(got, want *logEntry) string {
	switch {
	case !got.Time.Equal(want.Time):
		return "Time"
	case got.QHost != want.QHost:
		return "QHost"
	case got.QType != want.QType:
		return "QType"
	case got.QClass != want.QClass:
		return "QClass"
	case got.ReqECS != want.ReqECS:
		return "ReqECS"
	case got.ClientID != want.ClientID:
		return "ClientID"
	case got.ClientProto != want.ClientProto:
		return "ClientProto"
	case got.Upstream != want.Upstream:
		return "Upstream"
	case !vxC07BytesEq(got.Answer, want.Answer):
		return "Answer"
	case !vxC07BytesEq(got.OrigAnswer, want.OrigAnswer):
		return "OrigAnswer"
	case !got.IP.Equal(want.IP):
		return "IP"
	case got.Elapsed != want.Elapsed:
		return "Elapsed"
	case got.Cached != want.Cached:
		return "Cached"
	case got.AuthenticatedData != want.AuthenticatedData:
		return "AuthenticatedData"
	}
	return vxC07ResultEq(&got.Result, &want.Result)
}

// ---- legacy lines (formats written by older versions, from the package's own
// decoder tests and AGHTechDoc) --------------------------------------------------

type vxC07Legacy struct {
	line string
	want func() *logEntry
}

var vxC07LegacyLines = []vxC07Legacy{{
	// single rule as "Rule" + "FilterID"
	line: `{"IP":"127.0.0.1","T":"2020-11-25T18:55:56.519796+03:00","QH":"an.yandex.ru","QT":"A","QC":"IN","CP":"","Result":{"IsFiltered":true,"Reason":3,"Rule":"||an.yandex.","FilterID":1},"Elapsed":837429}`,
	want: func() *logEntry {
		e := vxC07LegacyBase()
		e.Result = filtering.Result{IsFiltered: true, Reason: filtering.FilteredBlockList,
			Rules: []*filtering.ResultRule{{Text: "||an.yandex.", FilterListID: 1}}}
		return e
	},
}, {
	// hosts-file PTR answer as "ReverseHosts"
	line: `{"IP":"127.0.0.1","T":"2020-11-25T18:55:56.519796+03:00","QH":"an.yandex.ru","QT":"A","QC":"IN","CP":"","Result":{"Reason":10,"ReverseHosts":["example.net","example.org"]},"Elapsed":837429}`,
	want: func() *logEntry {
		e := vxC07LegacyBase()
		e.Result = filtering.Result{Reason: filtering.RewrittenAutoHosts,
			DNSRewriteResult: &filtering.DNSRewriteResult{RCode: dns.RcodeSuccess,
				Response: filtering.DNSRewriteResultResponse{dns.TypePTR: []rules.RRValue{"example.net.", "example.org."}}}}
		return e
	},
}, {
	// hosts-file addresses as "IPList"
	line: `{"IP":"127.0.0.1","T":"2020-11-25T18:55:56.519796+03:00","QH":"an.yandex.ru","QT":"A","QC":"IN","CP":"","Result":{"IPList":["127.0.0.1","::2"],"Reason":10},"Elapsed":837429}`,
	want: func() *logEntry {
		e := vxC07LegacyBase()
		e.Result = filtering.Result{Reason: filtering.RewrittenAutoHosts,
			DNSRewriteResult: &filtering.DNSRewriteResult{RCode: dns.RcodeSuccess,
				Response: filtering.DNSRewriteResultResponse{
					dns.TypeA:    []rules.RRValue{netip.MustParseAddr("127.0.0.1")},
					dns.TypeAAAA: []rules.RRValue{netip.MustParseAddr("::2")},
				}}}
		return e
	},
}}

func vxC07LegacyBase() *logEntry { return &logEntry{} }

// vxC07Subst replaces the first two bytes of the value that follows key in
// the line (and of val) by symbolic bytes that json.Marshal writes unescaped.
func vxC07Subst(line, key, val, name string) (newLine, newVal string) {
	at := -1
	for i := 0; i+len(key) <= len(line); i++ {
		if line[i:i+len(key)] == key {
			at = i + len(key)
			break
		}
	}
	if val[0] == '\\' || val[1] == '\\' || val[2] == '\\' {
		// the bytes are part of an escape sequence in the line: leave them
		return line, val
	}
	if at < 0 || line[at:at+2] != val[:2] {
		vx.Fail("harness: value not found in the golden line")
		return line, val
	}
	sym := vx.String(name, 2)
	for i := 0; i < 2; i++ {
		c := sym[i]
		vx.Assume(vx.And(c >= 0x20, c < 0x7f))
		vx.Assume(vx.And(vx.And(c != '"', c != '\\'), vx.And(vx.And(c != '<', c != '>'), c != '&')))
	}
	return line[:at] + sym + line[at+2:], sym + val[2:]
}

// ---- entry -------------------------------------------------------------------

// vxC07RoundTrip: every golden line, read by the real decoder, is the entry it
// was written from; its raw timestamp and quick-match fields agree with it.
func vxC07RoundTrip() {
	_ = io.MultiReader()
	l := &queryLog{logger: slog.Default()}
	ctx := context.Background()
	n := len(vxC07GoldenLines)
	vx.Assert(n == vxC07GoldenCount, "harness: one golden line per golden entry")
	i := vx.Choice("entry", n+len(vxC07LegacyLines))
	var line string
	var want *logEntry
	if i < n {
		line, want = vxC07GoldenLines[i], vxC07GoldenEntry(i)
	} else {
		line, want = vxC07LegacyLines[i-n].line, vxC07LegacyLines[i-n].want()
		if i-n == 0 {
			vx.Reach("legacy-rule")
		} else {
			vx.Reach("legacy-hosts")
		}
	}
	symbolic := i < n && vx.Choice("symbolicText", 2) == 1
	if symbolic {
		// the first two bytes of the host, of the ClientID and of the first
		// rule text are any bytes that the encoder writes unescaped
		vx.Reach("symbolic-text")
		line, want.QHost = vxC07Subst(line, `"QH":"`, want.QHost, "host")
		if len(want.ClientID) >= 2 {
			line, want.ClientID = vxC07Subst(line, `"CID":"`, want.ClientID, "clientID")
		}
		if r := want.Result.Rules; len(r) > 0 && len(r[0].Text) >= 2 && r[0].Text[0] != '/' {
			line, r[0].Text = vxC07Subst(line, `"Rules":[{"Text":"`, r[0].Text, "ruleText")
		}
	}
	got := &logEntry{}
	l.decodeLogEntry(ctx, got, line)
	vx.Reach("decoded")
	if i >= n {
		// legacy lines: the result part is the subject
		diff := vxC07ResultEq(&got.Result, &want.Result)
		if diff != "" {
			vx.Note("differs in Result." + diff)
		}
		vx.Assert(diff == "", "a line written by an older version decodes to the equivalent current result")
		vx.Assert(got.QHost == "an.yandex.ru" && got.Elapsed == 837429 && got.IP.Equal(net.IP{127, 0, 0, 1}), "legacy line: question and client decoded")
		return
	}
	diff := vxC07EntryEq(got, want)
	if diff != "" {
		vx.Note(fmt.Sprintf("entry %d differs in %s", i, diff))
	}
	vx.Assert(diff == "", "a stored line decodes to the entry it was written from (client, question, answer, upstream, filtering result)")
	if len(want.Result.Rules) > 0 {
		vx.Reach("rules")
	}
	if want.Result.DNSRewriteResult != nil && len(want.Result.DNSRewriteResult.Response) > 0 {
		vx.Reach("rewrite-values")
	}

	// the raw-line readers used for seeking and for the quick pre-match
	vx.Assert(readQLogTimestamp(ctx, l.logger, line) == want.Time.UnixNano(), "the timestamp read from the raw line is the entry's time")
	escaped := false
	for k := 0; k < len(want.QHost); k++ {
		if want.QHost[k] == '\\' || want.QHost[k] == '"' {
			escaped = true
		}
	}
	if escaped {
		vx.Reach("escaped")
	}
	if symbolic {
		if !escaped {
			vx.Assert(readJSONValue(line, `"QH":"`) == want.QHost, "the host read from the raw line is the entry's host")
		}
		return
	}
	cli := &Client{Name: "Kids Tablet"}
	finder := func(_ context.Context, _ *slog.Logger, clientID, addr string) *Client {
		if clientID == want.ClientID && addr == want.IP.String() {
			return cli
		}
		return nil
	}
	got.client = cli
	terms := []string{want.QHost, want.IP.String(), "tablet"}
	if want.ClientID != "" {
		terms = append(terms, want.ClientID)
	}
	for _, term := range terms {
		for _, strict := range []bool{false, true} {
			if strict && term == "tablet" {
				continue
			}
			p := &searchParams{searchCriteria: []searchCriterion{{criterionType: ctTerm, value: term, strict: strict}}}
			vx.Assert(p.match(got), "an entry is selected by its own host, address, ClientID and client name")
			if escaped && term == want.QHost {
				vx.Known("C07-quickmatch-escaped-host", true)
			}
			q := p.quickMatch(ctx, l.logger, line, finder)
			if !q {
				vx.Note(fmt.Sprintf("entry %d term %q quoted=%v dropped by the quick pre-match", i, term, strict))
			}
			vx.Assert(q, "the quick pre-match on the stored line never drops an entry the full match selects")
		}
	}
}
