package main

// Closed-world side conditions: `//vx:callsites <callee-or-type> <pkg-prefix> <fn,fn,...>`
// lists the only functions (by go/ssa name, closures count for their parent)
// under the package prefix that may contain a call of the named function
// (static callee) or a call of a function VALUE of the named type.  The scan is
// regenerated from /repo's current SSA on every run; an unlisted site is a
// violation ("unverified call site") for `callsites` rules (the site bypasses
// the mechanism the property relies on) and a coverage gap (INCONCLUSIVE) for
// `callsites-gap` rules (the site may be fine, but the symbolic check did not
// execute it).

import (
	"fmt"
	"go/token"
	"go/types"
	"path/filepath"
	"sort"
	"strings"

	"golang.org/x/tools/go/ssa"
)

type callsiteRule struct {
	target  string
	prefix  string
	allowed map[string]bool
}

type scanResult struct {
	Rule    string   `json:"rule"`
	Sites   []string `json:"sites"`
	Foreign []string `json:"unlisted_sites,omitempty"`
}

func rootFunc(f *ssa.Function) *ssa.Function {
	for f.Parent() != nil {
		f = f.Parent()
	}
	return f
}

func runScans(h *Harness, cfg *Config) (results []scanResult, violations, gaps []string) {
	for _, raw := range h.CallSites {
		gap := false
		if len(raw) > 0 && raw[0] == "?gap" {
			gap = true
			raw = raw[1:]
		}
		if len(raw) < 3 {
			continue
		}
		rule := callsiteRule{target: raw[0], prefix: raw[1], allowed: map[string]bool{}}
		for _, a := range strings.Split(strings.Join(raw[2:], ","), ",") {
			if a != "" {
				rule.allowed[a] = true
			}
		}
		res := scanResult{Rule: raw[0] + " within " + raw[1]}
		for _, pkg := range cfg.prog.AllPackages() {
			path := pkg.Pkg.Path()
			if !strings.HasPrefix(path, rule.prefix) || strings.Contains(path, "/internal/next") {
				continue
			}
			pkg.Build()
			var fns []*ssa.Function
			for _, m := range pkg.Members {
				switch m := m.(type) {
				case *ssa.Function:
					fns = append(fns, m)
				case *ssa.Type:
					mset := cfg.prog.MethodSets.MethodSet(m.Type())
					for i := 0; i < mset.Len(); i++ {
						if f := cfg.prog.MethodValue(mset.At(i)); f != nil && f.Synthetic == "" {
							fns = append(fns, f)
						}
					}
					pset := cfg.prog.MethodSets.MethodSet(ptrTo(m.Type()))
					for i := 0; i < pset.Len(); i++ {
						if f := cfg.prog.MethodValue(pset.At(i)); f != nil && f.Synthetic == "" {
							fns = append(fns, f)
						}
					}
				}
			}
			seen := map[*ssa.Function]bool{}
			var walk func(f *ssa.Function)
			walk = func(f *ssa.Function) {
				if f == nil || seen[f] || f.Blocks == nil {
					return
				}
				seen[f] = true
				if fp := f.Package(); fp != nil && strings.HasSuffix(cfg.prog.Fset.Position(f.Pos()).Filename, "_test.go") {
					return
				}
				if strings.Contains(cfg.prog.Fset.Position(f.Pos()).Filename, "zz_vx_") {
					return // harness code
				}
				for _, b := range f.Blocks {
					for _, ins := range b.Instrs {
						if mc, ok := ins.(*ssa.MakeClosure); ok {
							walk(mc.Fn.(*ssa.Function))
						}
						ci, ok := ins.(ssa.CallInstruction)
						if !ok {
							continue
						}
						cc := ci.Common()
						hit := false
						if sc := cc.StaticCallee(); sc != nil {
							n := sc.String()
							if sc.Origin() != nil {
								n = sc.Origin().String()
							}
							hit = n == rule.target
						} else if !cc.IsInvoke() {
							hit = cc.Value.Type().String() == rule.target
						}
						if hit {
							root := rootFunc(f).String()
							site := fmt.Sprintf("%s (%s)", root, cfg.prog.Fset.Position(ins.Pos()))
							res.Sites = append(res.Sites, site)
							if !rule.allowed[root] {
								res.Foreign = append(res.Foreign, site)
							}
						}
					}
				}
				for _, af := range f.AnonFuncs {
					walk(af)
				}
			}
			for _, f := range fns {
				walk(f)
			}
		}
		sort.Strings(res.Sites)
		sort.Strings(res.Foreign)
		for _, s := range res.Foreign {
			if gap {
				gaps = append(gaps, fmt.Sprintf("call site of %s not exercised by the harness: %s", rule.target, s))
			} else {
				violations = append(violations, fmt.Sprintf("unverified call site of %s: %s", rule.target, s))
			}
		}
		results = append(results, res)
	}
	return results, violations, gaps
}

func ptrTo(t types.Type) types.Type { return types.NewPointer(t) }

// ---- fields written through sync/atomic ----

// atomicFieldKey names a struct field: "<named struct type>#<index>".
func atomicFieldKey(ptrToStruct types.Type, field int) string {
	pt, ok := ptrToStruct.Underlying().(*types.Pointer)
	if !ok {
		return ""
	}
	return fmt.Sprintf("%s#%d", pt.Elem().String(), field)
}

var atomicWriters = map[string]bool{}

func init() {
	for _, op := range []string{"Store", "Add", "Swap", "CompareAndSwap", "And", "Or"} {
		for _, t := range []string{"Int32", "Int64", "Uint32", "Uint64", "Uintptr", "Pointer"} {
			atomicWriters["sync/atomic."+op+t] = true
		}
	}
}

// atomicFieldScan returns the struct fields of the repository under test whose
// address is handed to a writing sync/atomic function somewhere in it (the
// value says where).  A plain load, store or whole-struct copy of such a field
// in code that runs concurrently with that writer is a data race.
func atomicFieldScan(cfg *Config) map[string]string {
	res := map[string]string{}
	for _, pkg := range cfg.prog.AllPackages() {
		path := pkg.Pkg.Path()
		if !strings.HasPrefix(path, repoMod+"/internal") || strings.Contains(path, "/internal/next") {
			continue
		}
		pkg.Build()
		var walk func(f *ssa.Function)
		walk = func(f *ssa.Function) {
			for _, b := range f.Blocks {
				for _, ins := range b.Instrs {
					call, ok := ins.(ssa.CallInstruction)
					if !ok {
						continue
					}
					cc := call.Common()
					sc := cc.StaticCallee()
					if sc == nil || !atomicWriters[sc.String()] || len(cc.Args) == 0 {
						continue
					}
					if fa, ok := cc.Args[0].(*ssa.FieldAddr); ok {
						if k := atomicFieldKey(fa.X.Type(), fa.Field); k != "" {
							if _, seen := res[k]; !seen {
								res[k] = fmt.Sprintf("%s at %s", sc.Name(), cfg.prog.Fset.Position(ins.Pos()))
							}
						}
					}
				}
			}
			for _, af := range f.AnonFuncs {
				walk(af)
			}
		}
		for _, m := range pkg.Members {
			switch m := m.(type) {
			case *ssa.Function:
				walk(m)
			case *ssa.Type:
				for _, T := range []types.Type{m.Type(), ptrTo(m.Type())} {
					ms := cfg.prog.MethodSets.MethodSet(T)
					for i := 0; i < ms.Len(); i++ {
						if fn := cfg.prog.MethodValue(ms.At(i)); fn != nil && fn.Pkg == pkg {
							walk(fn)
						}
					}
				}
			}
		}
	}
	return res
}

// cmdAtomics is a diagnostic (not a registered check): it lists every plain
// access, anywhere in the repository's internal packages, to a struct field
// that is also written through sync/atomic.  Sites in constructors are
// harmless; the others are candidates for operations a C05 entry should run.
func cmdAtomics(args []string) int {
	if len(args) < 1 {
		usage()
	}
	id := args[0]
	h, err := parseHarness(id, filepath.Join(verifDir(), "harness", id))
	if err != nil {
		fmt.Println(err)
		return 2
	}
	cfg := &Config{MaxSteps: 1, Unwind: 1, knownIDs: map[string]bool{}, skipInitPkgs: map[string]bool{}}
	if err := loadProgram(h, cfg); err != nil {
		fmt.Println("cannot load:", err)
		return 2
	}
	set := atomicFieldScan(cfg)
	keys := []string{}
	for k := range set {
		keys = append(keys, k)
	}
	sort.Strings(keys)
	for _, k := range keys {
		fmt.Printf("atomic field %s  (%s)\n", k, set[k])
	}
	check := func(f *ssa.Function, ins ssa.Instruction, addr ssa.Value, kind string) {
		if fa, ok := addr.(*ssa.FieldAddr); ok {
			if _, hit := set[atomicFieldKey(fa.X.Type(), fa.Field)]; hit {
				fmt.Printf("  plain %s of %s in %s (%s)\n", kind, atomicFieldKey(fa.X.Type(), fa.Field), f, cfg.prog.Fset.Position(ins.Pos()))
			}
		}
		if pt, ok := addr.Type().Underlying().(*types.Pointer); ok {
			if st, ok := pt.Elem().Underlying().(*types.Struct); ok {
				for i := 0; i < st.NumFields(); i++ {
					if _, hit := set[fmt.Sprintf("%s#%d", pt.Elem().String(), i)]; hit {
						fmt.Printf("  plain whole-struct %s of %s (field %s) in %s (%s)\n", kind, pt.Elem().String(), st.Field(i).Name(), f, cfg.prog.Fset.Position(ins.Pos()))
					}
				}
			}
		}
	}
	for _, pkg := range cfg.prog.AllPackages() {
		path := pkg.Pkg.Path()
		if !strings.HasPrefix(path, repoMod+"/internal") || strings.Contains(path, "/internal/next") {
			continue
		}
		var walk func(f *ssa.Function)
		walk = func(f *ssa.Function) {
			if strings.Contains(f.Name(), "vx") {
				return
			}
			for _, b := range f.Blocks {
				for _, ins := range b.Instrs {
					switch ins := ins.(type) {
					case *ssa.UnOp:
						if ins.Op == token.MUL {
							check(f, ins, ins.X, "read")
						}
					case *ssa.Store:
						check(f, ins, ins.Addr, "write")
					}
				}
			}
			for _, af := range f.AnonFuncs {
				walk(af)
			}
		}
		for _, m := range pkg.Members {
			switch m := m.(type) {
			case *ssa.Function:
				walk(m)
			case *ssa.Type:
				for _, T := range []types.Type{m.Type(), ptrTo(m.Type())} {
					ms := cfg.prog.MethodSets.MethodSet(T)
					for i := 0; i < ms.Len(); i++ {
						if fn := cfg.prog.MethodValue(ms.At(i)); fn != nil && fn.Pkg == pkg {
							walk(fn)
						}
					}
				}
			}
		}
	}
	return 0
}
