//go:build verif

package home

// C11 — every admin endpoint requires a valid session or credentials once a
// user exists.
//
// The real registration code (newWebAPI, registerControlHandlers,
// RegisterAuthHandlers, registerInstallHandlers, clients/TLS registerWebHandlers
// and, through the aghhttp.RegisterFunc callback = the real httpRegister, the
// registration functions of dnsforward, filtering, stats, querylog, dhcpd) runs
// against a recording mux.  Then one recorded handler is served one request
// whose attributes are symbolic, through the real wrapper chain; only the
// innermost user handler is cut (event "handler ran").
//
//vx:overlay internal/home/zz_vx_c11.go
//vx:callsites (*net/http.ServeMux).Handle github.com/AdguardTeam/AdGuardHome/internal github.com/AdguardTeam/AdGuardHome/internal/home.RegisterAuthHandlers,github.com/AdguardTeam/AdGuardHome/internal/home.httpRegister,github.com/AdguardTeam/AdGuardHome/internal/home.newWebAPI,(*github.com/AdguardTeam/AdGuardHome/internal/home.webAPI).registerInstallHandlers,github.com/AdguardTeam/AdGuardHome/internal/home.registerControlHandlers
//vx:callsites (*net/http.ServeMux).HandleFunc github.com/AdguardTeam/AdGuardHome/internal github.com/AdguardTeam/AdGuardHome/internal/home.RegisterAuthHandlers,github.com/AdguardTeam/AdGuardHome/internal/home.httpRegister,github.com/AdguardTeam/AdGuardHome/internal/home.newWebAPI,(*github.com/AdguardTeam/AdGuardHome/internal/home.webAPI).registerInstallHandlers,github.com/AdguardTeam/AdGuardHome/internal/home.registerControlHandlers
//vx:callsites net/http.Handle github.com/AdguardTeam/AdGuardHome/internal none
//vx:callsites net/http.HandleFunc github.com/AdguardTeam/AdGuardHome/internal none
//vx:callsites-gap github.com/AdguardTeam/AdGuardHome/internal/aghhttp.RegisterFunc github.com/AdguardTeam/AdGuardHome/internal (*github.com/AdguardTeam/AdGuardHome/internal/dhcpd.server).registerHandlers,(*github.com/AdguardTeam/AdGuardHome/internal/dnsforward.Server).registerHandlers,(*github.com/AdguardTeam/AdGuardHome/internal/filtering.DNSFilter).RegisterFilteringHandlers,(*github.com/AdguardTeam/AdGuardHome/internal/querylog.queryLog).initWeb,(*github.com/AdguardTeam/AdGuardHome/internal/stats.StatsCtx).initWeb
//vx:callsites-gap github.com/AdguardTeam/AdGuardHome/internal/home.httpRegister github.com/AdguardTeam/AdGuardHome/internal (*github.com/AdguardTeam/AdGuardHome/internal/home.clientsContainer).registerWebHandlers,(*github.com/AdguardTeam/AdGuardHome/internal/home.tlsManager).registerWebHandlers,github.com/AdguardTeam/AdGuardHome/internal/home.RegisterAuthHandlers,github.com/AdguardTeam/AdGuardHome/internal/home.registerControlHandlers
//vx:note closed-world scan (regenerated from the SSA of the current tree on every run): every call site of ServeMux.Handle/HandleFunc, http.Handle/HandleFunc, home.httpRegister and of a value of type aghhttp.RegisterFunc under internal/ (internal/next excluded) lies in one of the registration functions this harness executes; a direct registration on a mux added anywhere else (it would bypass the central wrapper of home.httpRegister) is reported as a violation, a new caller of home.httpRegister / aghhttp.RegisterFunc (wrapped centrally, but not executed by this harness) makes the run INCONCLUSIVE (coverage gap)
//vx:entry vxC11Routes reach=served-session,served-basic,refused-403,redirect-login,refused-expired,refused-unknown-cookie,refused-wrong-password,refused-wrong-user,refused-no-credentials,public-login-call,public-login-page,public-asset,public-mobileconfig,public-doh,method-refused,ctype-refused,mutating-served-json,mutating-served-empty,no-admin-open,first-run-redirect,file-server,session-refreshed,pkg-home,pkg-clients,pkg-tls,pkg-dnsforward,pkg-filtering,pkg-stats,pkg-querylog,pkg-dhcpd
//vx:entry vxC11Install reach=install-forbidden,install-open-first-run,install-method-refused,install-ctype-refused,refused-403,served-session
//vx:entry vxC11Subtrees reach=public-login-page,public-asset,public-doh,refused-403,redirect-login,served-session,file-server
//vx:note Registration: the real newWebAPI (conf.firstRun false; in the Install entry true followed by registerControlHandlers as handleInstallConfigure does), registerControlHandlers, RegisterAuthHandlers, registerInstallHandlers, (*clientsContainer).registerWebHandlers, (*tlsManager).registerWebHandlers and, with the real home.httpRegister as callback, dnsforward.(*Server).registerHandlers, filtering.(*DNSFilter).RegisterFilteringHandlers, stats.(*StatsCtx).initWeb, querylog.(*queryLog).initWeb, dhcpd.(*server).registerHandlers (unix) run on zero receivers against a recording mux ((*http.ServeMux).Handle/HandleFunc stubbed): 79 routes (83 with the install wizard). Every call of httpRegister must leave exactly its url on the web server's mux; no pattern is registered twice.
//vx:note Request matrix per recorded route (Routes entry: every route): first-run flag, administrator present or not, path = the pattern (subtree patterns: 15 spellings for "/", 2 for "/dns-query/"; Subtrees entry: pattern + every suffix of 0..15 bytes for "/", 0..4 bytes for "/dns-query/"), method = symbolic string of 3, 4 or 6 bytes (thorough 3..7), Content-Type absent or 16 symbolic bytes (thorough also 10 and 33 bytes), ContentLength any int64 >= -1, session cookie absent / naming a stored session with symbolic expiry (any uint32) against a symbolic clock (10-day window) / naming no stored session, basic credentials absent / administrator name with symbolic password verdict / other name. Quick tier: refused requests get one method/content-type length (contents symbolic), basic credentials next to a cookie only with an expired session, session TTL 30 days (thorough: any TTL up to 400 days, all combinations).
//vx:note Served through the real chain postInstall(Handler) / preInstall(Handler) / optionalAuth(Handler) / optionalAuthThird / isPublicResource (real path.Match) / ensure(Handler) / ensureContentType / modifiesData / handleHTTPSRedirect / withMiddlewares, real (*Auth).checkSession, findUser, authRequired, real (*http.Request).BasicAuth and cookie parsing, real Header.Get. Only the innermost user handler is cut (vx:stubdyn in ensure$1, postInstall$1, optionalAuth$1, preInstall$1, (*httpHandler).ServeHTTP, (http.HandlerFunc).ServeHTTP with the wrapper closures excepted; (*http.fileHandler).ServeHTTP) = event handler-ran.
//vx:note Oracle (written from the statement): with an administrator and not first-run, for every route outside {/control/login, /apple/*.mobileconfig, /dns-query, /dns-query/, and on the "/" subtree paths starting /login. or /assets/}: handler-ran => (cookie names a stored session with now < expiry) or (administrator name and right password); otherwise no handler and status 403 or 302 to login.html. Install wizard routes: no handler and 403 without credentials once configured. Routes declared POST/PUT/DELETE (argument of httpRegister; openapi.yaml for /control/login and the install calls): handler-ran => method == declared and (Content-Type == application/json or (ContentLength == 0 and no Content-Type)); declared GET: handler-ran => method == GET. Only /dns-query[/] may be registered with an empty method.
//vx:note outside: net/http's mux (pattern selection, path cleaning and its redirects, CONNECT), so path spellings that normalise to a protected path are covered only as "whatever reaches the / subtree handler"; the closed-world side condition (no registration site outside the functions executed here; pprof mux on localhost, internal/next) is not checked by the engine; the wiring HTTPRegister: httpRegister in home/dns.go and home.go (initDNS etc. need real I/O); handler bodies (incl. getCurrentUser in profile); gzip middleware (identity); HTTPS redirect stage with no HTTPS server configured; gl-inet mode (GLMode false); bcrypt (verdict bit); session file (storeSession/removeSessionFromFile are no-ops, see C12); first-run with an administrator present; Windows dhcpd stubs; request without a Cookie header answered by a harness copy of http.ErrNoCookie
//vx:stub (*net/http.ServeMux).Handle vxC11MuxHandle
//vx:stub (*net/http.ServeMux).HandleFunc vxC11MuxHandleFunc
//vx:stub net/http.Handle vxC11DefaultHandle
//vx:stub net/http.HandleFunc vxC11DefaultHandleFunc
//vx:stub github.com/AdguardTeam/AdGuardHome/internal/home.httpRegister vxC11HTTPRegister
//vx:stub github.com/NYTimes/gziphandler.GzipHandler vxC11Gzip
//vx:stub net/http.Redirect vxC11Redirect
//vx:stub net/http.Error vxC11HTTPError
//vx:stub (*net/http.fileHandler).ServeHTTP vxC11FileServer
//vx:stub golang.org/x/crypto/bcrypt.CompareHashAndPassword vxC11Compare
//vx:stub time.Now vxC11Now
//vx:stub (*net/http.Request).Cookie vxC11Cookie
//vx:stub (*github.com/AdguardTeam/AdGuardHome/internal/home.Auth).storeSession vxC11StoreSession
//vx:stub (*github.com/AdguardTeam/AdGuardHome/internal/home.Auth).removeSessionFromFile vxC11RemoveSessionFromFile
//vx:stubdyn github.com/AdguardTeam/AdGuardHome/internal/home.ensure$1 vxC11Innermost
//vx:stubdyn github.com/AdguardTeam/AdGuardHome/internal/home.postInstall$1 vxC11Innermost github.com/AdguardTeam/AdGuardHome/internal/home.optionalAuth$ github.com/AdguardTeam/AdGuardHome/internal/home.ensure$ github.com/AdguardTeam/AdGuardHome/internal/home.preInstall$ (net/http.Handler).ServeHTTP$bound
//vx:stubdyn github.com/AdguardTeam/AdGuardHome/internal/home.optionalAuth$1 vxC11Innermost github.com/AdguardTeam/AdGuardHome/internal/home.postInstall$ github.com/AdguardTeam/AdGuardHome/internal/home.ensure$ github.com/AdguardTeam/AdGuardHome/internal/home.preInstall$ (net/http.Handler).ServeHTTP$bound
//vx:stubdyn github.com/AdguardTeam/AdGuardHome/internal/home.preInstall$1 vxC11Innermost github.com/AdguardTeam/AdGuardHome/internal/home.postInstall$ github.com/AdguardTeam/AdGuardHome/internal/home.optionalAuth$ github.com/AdguardTeam/AdGuardHome/internal/home.ensure$ (net/http.Handler).ServeHTTP$bound
//vx:stubdyn (net/http.HandlerFunc).ServeHTTP vxC11Innermost github.com/AdguardTeam/AdGuardHome/internal/home.postInstall$ github.com/AdguardTeam/AdGuardHome/internal/home.optionalAuth$ github.com/AdguardTeam/AdGuardHome/internal/home.ensure$ github.com/AdguardTeam/AdGuardHome/internal/home.preInstall$
//vx:stubdyn (*github.com/AdguardTeam/AdGuardHome/internal/home.httpHandler).ServeHTTP vxC11Innermost github.com/AdguardTeam/AdGuardHome/internal/home.postInstall$ github.com/AdguardTeam/AdGuardHome/internal/home.optionalAuth$ github.com/AdguardTeam/AdGuardHome/internal/home.ensure$ github.com/AdguardTeam/AdGuardHome/internal/home.preInstall$

import (
	"context"
	"io/fs"
	"log/slog"
	"net/http"
	"net/url"
	"time"

	"github.com/AdguardTeam/AdGuardHome/internal/dhcpd"
	"github.com/AdguardTeam/AdGuardHome/internal/dnsforward"
	"github.com/AdguardTeam/AdGuardHome/internal/filtering"
	"github.com/AdguardTeam/AdGuardHome/internal/querylog"
	"github.com/AdguardTeam/AdGuardHome/internal/stats"
	"github.com/AdguardTeam/AdGuardHome/internal/vx"
	"github.com/AdguardTeam/golibs/errors"
)

// ---- recording mux ----

// vxC11Route is one registration on the mux.
type vxC11Route struct {
	pattern string
	h       http.Handler
	// declared is the method given to the registration helper ("" when the
	// helper was called with no method, "-" for a direct registration on the
	// mux).
	declared string
	// pkg is the registrar that was running.
	pkg string
}

var (
	vxC11Routes_  []vxC11Route
	vxC11Pkg      string
	vxC11Declared string
)

func vxC11Record(pattern string, h http.Handler) {
	for _, rt := range vxC11Routes_ {
		if rt.pattern == pattern {
			vx.Fail("pattern registered twice (net/http would panic)")
		}
	}
	vxC11Routes_ = append(vxC11Routes_, vxC11Route{pattern: pattern, h: h, declared: vxC11Declared, pkg: vxC11Pkg})
}

// vxC11MuxHandle replaces (*http.ServeMux).Handle.
func vxC11MuxHandle(mux *http.ServeMux, pattern string, h http.Handler) {
	if mux != globalContext.mux {
		vx.Fail("registration on a mux other than the web server's")
	}
	vxC11Record(pattern, h)
}

// vxC11MuxHandleFunc replaces (*http.ServeMux).HandleFunc.
func vxC11MuxHandleFunc(mux *http.ServeMux, pattern string, h func(http.ResponseWriter, *http.Request)) {
	if mux != globalContext.mux {
		vx.Fail("registration on a mux other than the web server's")
	}
	vxC11Record(pattern, http.HandlerFunc(h))
}

// vxC11DefaultHandle and vxC11DefaultHandleFunc replace http.Handle and
// http.HandleFunc (registration on the process-wide default mux).
func vxC11DefaultHandle(pattern string, h http.Handler) {
	vx.Fail("registration on a mux other than the web server's")
}

func vxC11DefaultHandleFunc(pattern string, h func(http.ResponseWriter, *http.Request)) {
	vx.Fail("registration on a mux other than the web server's")
}

// vxC11HTTPRegister observes the calls of the real registration helper (the
// declared method) and runs it.
func vxC11HTTPRegister(method, url string, handler http.HandlerFunc) {
	n := len(vxC11Routes_)
	vxC11Declared = method
	httpRegister(method, url, handler)
	vxC11Declared = "-"
	if len(vxC11Routes_) != n+1 || vxC11Routes_[n].pattern != url {
		vx.Fail("registration helper did not put the route on the mux")
	}
}

// vxC11Gzip replaces the compression middleware by the identity.
func vxC11Gzip(h http.Handler) http.Handler { return h }

// ---- response recorder and net/http response helpers ----

type vxC11Rec struct {
	hdr      http.Header
	code     int
	location string
}

func (r *vxC11Rec) Header() http.Header { return r.hdr }

func (r *vxC11Rec) Write(b []byte) (int, error) {
	if r.code == 0 {
		r.code = http.StatusOK
	}
	return len(b), nil
}

func (r *vxC11Rec) WriteHeader(c int) {
	if r.code == 0 {
		r.code = c
	}
}

func vxC11Redirect(w http.ResponseWriter, r *http.Request, url string, code int) {
	rec := w.(*vxC11Rec)
	if rec.code == 0 {
		rec.code = code
		rec.location = url
	}
}

func vxC11HTTPError(w http.ResponseWriter, text string, code int) { w.WriteHeader(code) }

// vxC11Cookie replaces (*http.Request).Cookie for requests without a Cookie
// header only (the engine cannot run net/http's package initialiser, which the
// load of http.ErrNoCookie triggers); a present header is parsed by the real
// code.
func vxC11Cookie(r *http.Request, name string) (*http.Cookie, error) {
	if _, ok := r.Header["Cookie"]; !ok {
		return nil, vxC11ErrNoCookie
	}
	return r.Cookie(name)
}

const vxC11ErrNoCookie errors.Error = "http: named cookie not present"

// ---- events ----

var (
	vxC11Ran      int
	vxC11FileRuns int
)

// vxC11Innermost stands for every user handler at the inner end of a wrapper
// chain.
func vxC11Innermost(w http.ResponseWriter, r *http.Request) { vxC11Ran++ }

// vxC11FileServer stands for the static file server (http.FileServer).
func vxC11FileServer(f any, w http.ResponseWriter, r *http.Request) {
	vxC11Ran++
	vxC11FileRuns++
}

// ---- environment: password hash, clock, session file ----

var (
	vxC11PwOK   bool
	vxC11NowSec int64
	vxC11Stored int
)

func vxC11Compare(hash, password []byte) error {
	if vxC11PwOK {
		return nil
	}
	return errors.Error("vx: hash mismatch")
}

func vxC11Now() time.Time { return time.Unix(vxC11NowSec, 0) }

func vxC11StoreSession(a *Auth, data []byte, s *session) bool {
	vxC11Stored++
	return true
}

func vxC11RemoveSessionFromFile(a *Auth, sess []byte) {}

type vxC11FS struct{}

func (vxC11FS) Open(name string) (fs.File, error) { return nil, fs.ErrNotExist }

// ---- registration ----

// vxC11Register runs the registration code.  first = the process started
// unconfigured, served the install wizard and has completed it (so the control
// handlers were registered by handleInstallConfigure on the same mux).
func vxC11Register(first bool) {
	vxC11Routes_, vxC11Declared, vxC11Pkg = nil, "-", "home"
	globalContext.mux = http.NewServeMux()
	conf := &webConfig{
		logger:     slog.Default(),
		baseLogger: slog.Default(),
		clientFS:   vxC11FS{},
		firstRun:   first,
	}
	web := newWebAPI(context.Background(), conf)
	globalContext.web = web
	if first {
		registerControlHandlers(web)
	}

	vxC11Pkg = "clients"
	(&clientsContainer{}).registerWebHandlers()
	vxC11Pkg = "tls"
	(&tlsManager{}).registerWebHandlers()

	vxC11Pkg = "dnsforward"
	dnsforward.VxC11Register(httpRegister)
	vxC11Pkg = "filtering"
	filtering.VxC11Register(httpRegister)
	vxC11Pkg = "stats"
	stats.VxC11Register(httpRegister)
	vxC11Pkg = "querylog"
	querylog.VxC11Register(httpRegister)
	vxC11Pkg = "dhcpd"
	dhcpd.VxC11Register(httpRegister)
	vxC11Pkg = ""
}

// ---- reference classification (from the statement) ----

func vxC11HasPrefix(s, p string) bool { return len(s) >= len(p) && s[:len(p)] == p }

func vxC11HasSuffix(s, p string) bool { return len(s) >= len(p) && s[len(s)-len(p):] == p }

// vxC11IsInstall: the install wizard's routes (served only before an
// administrator exists).
func vxC11IsInstall(pattern string) bool {
	return pattern == "/install.html" || vxC11HasPrefix(pattern, "/control/install/")
}

// vxC11Public: "the login call, the login page and static assets, the
// mobileconfig generators and the DNS-over-HTTPS resolver".
func vxC11Public(pattern, path string) bool {
	switch {
	case pattern == "/control/login":
		return true
	case pattern == "/dns-query" || pattern == "/dns-query/":
		return true
	case vxC11HasPrefix(pattern, "/apple/") && vxC11HasSuffix(pattern, ".mobileconfig"):
		return true
	case pattern == "/":
		return vx.Or(vxC11HasPrefix(path, "/login."), vxC11HasPrefix(path, "/assets/"))
	}
	return false
}

// vxC11DirectDeclared: declared methods (openapi.yaml) of the routes that are
// put on the mux without the registration helper.
func vxC11DirectDeclared(pattern string) string {
	switch pattern {
	case "/control/login", "/control/install/check_config", "/control/install/configure":
		return http.MethodPost
	case "/control/install/get_addresses":
		return http.MethodGet
	}
	return ""
}

const (
	vxC11Tok  = "00112233445566778899aabbccddeeff"
	vxC11JSON = "application/json"
)

var vxC11RootPaths = []string{
	"/", "/index.html", "/login.html", "/login.js", "/login", "/loginx.html",
	"/assets/x", "/assets/a/b", "/assets/", "/assets", "/install.html",
	"/control/status", "/control/nonexistent", "//", "/favicon.png",
}

// vxC11Serve serves one symbolic request on route rt and checks the outcome.
// rootPaths are the request paths tried on the "/" subtree.
//
// rootPaths == nil selects the "subtree" mode: a configured server with an
// administrator, a symbolic request path, no credentials or a session cookie,
// one request shape.
func vxC11Serve(rt vxC11Route, full bool, rootPaths []string) {
	vx.Note(rt.pattern)
	wide := full && vx.Thorough()
	subtree := rootPaths == nil
	install := vxC11IsInstall(rt.pattern)
	decl := rt.declared
	if decl == "-" {
		decl = vxC11DirectDeclared(rt.pattern)
	}

	// --- state of the server ---
	firstRun, admin := false, true
	if !subtree {
		firstRun = vx.Choice("firstRun", 2) == 1
		admin = vx.Choice("adminExists", 2) == 1
	}
	globalContext.firstRun = firstRun
	GLMode = false
	var users []webUser
	if admin {
		users = []webUser{{Name: "u", PasswordHash: "h"}}
	}
	ttl := uint32(30 * 86400)
	if vx.Thorough() {
		ttl = vx.Uint32("ttl")
		vx.Assume(ttl <= 400*86400)
	}
	a := &Auth{sessions: map[string]*session{}, users: users, sessionTTL: ttl}
	globalContext.auth = a

	const t0 = 1_700_000_000 + 30_000
	now := vx.Int64("now")
	vx.Assume(t0 <= now)
	vx.Assume(now <= t0+10*86400)
	vxC11NowSec = now

	// --- the request: path ---
	path := rt.pattern
	switch {
	case subtree:
		// pattern + any suffix ("/" + up to 15 bytes; other subtrees + up to 4)
		n := 16
		if rt.pattern != "/" {
			n = 5
		}
		path = rt.pattern + vx.String("path", vx.Choice("pathLen", n))
	case rt.pattern == "/":
		path = rootPaths[vx.Choice("path", len(rootPaths))]
	case vxC11HasSuffix(rt.pattern, "/"):
		// a subtree pattern
		path = rt.pattern + []string{"", "client-1"}[vx.Choice("path", 2)]
	}

	// --- the request: credentials ---
	// cookie: 0 absent, 1 names a stored session (any expiry), 2 names no
	// stored session; basic credentials: 0 absent, 1 the administrator's name
	// with a password (right or wrong), 2 another name
	hdr := http.Header{}
	cookie, basic := 0, 0
	expire := uint32(0)
	switch {
	case subtree && !vx.Thorough():
		cookie = vx.Choice("cookie", 2)
	case subtree:
		cookie = vx.Choice("cookie", 3)
		basic = vx.Choice("basic", 3)
	case admin && (!firstRun || wide):
		cookie = vx.Choice("cookie", 3)
		basic = vx.Choice("basic", 3)
	}
	if cookie != 0 {
		hdr["Cookie"] = []string{sessionCookieName + "=" + vxC11Tok}
	}
	if cookie == 1 {
		expire = vx.Uint32("expire")
		a.sessions[vxC11Tok] = &session{userName: "u", expire: expire}
	}
	vxC11PwOK = false
	switch basic {
	case 1:
		vxC11PwOK = vx.Bool("passwordRight")
		hdr["Authorization"] = []string{"Basic dTpwdw=="} // u:pw
	case 2:
		vxC11PwOK = vx.Bool("passwordRight")
		hdr["Authorization"] = []string{"Basic eDpwdw=="} // x:pw
	}

	// reference: credentials carried by the request
	validSession := cookie == 1 && uint32(now) < expire
	rightBasic := basic == 1 && vxC11PwOK
	authed := vx.Or(validSession, rightBasic)
	if !vx.Thorough() && cookie == 1 && basic != 0 {
		// quick tier: basic credentials next to a session cookie only with an
		// expired session
		vx.Assume(!validSession)
	}

	// --- the request: method, content type, length ---
	// The full set of shapes is tried where the statement lets the request
	// through to the method guard; refused requests get one shape (symbolic
	// contents all the same).
	shapes := false
	switch {
	case subtree:
	case install:
		shapes = firstRun
	case firstRun || !admin:
		shapes = wide && !firstRun
	default:
		shapes = vx.Or(vxC11Public(rt.pattern, path), authed)
	}
	mlen, ctlen := 3, 16
	if len(decl) > 1 {
		mlen = len(decl)
	}
	if shapes {
		mlens := []int{3, 4, 6}
		ctLens := []int{0, 16}
		if wide {
			mlens = []int{3, 4, 5, 6, 7}
			ctLens = []int{0, 16, 10, 33}
		}
		mlen = mlens[vx.Choice("methodLen", len(mlens))]
		ctlen = ctLens[vx.Choice("contentTypeLen", len(ctLens))]
	}
	method := vx.String("method", mlen)
	ctype := vx.String("contentType", ctlen)
	if ctype != "" {
		hdr["Content-Type"] = []string{ctype}
	}
	// -1 = unknown length (chunked)
	clen := vx.Int64("contentLength")
	vx.Assume(clen >= -1)

	r := &http.Request{
		Method:        method,
		Host:          "agh.example",
		URL:           &url.URL{Path: path},
		Header:        hdr,
		ContentLength: clen,
		RemoteAddr:    "192.0.2.7:4000",
	}
	w := &vxC11Rec{hdr: http.Header{}}
	vxC11Ran, vxC11FileRuns, vxC11Stored = 0, 0, 0

	rt.h.ServeHTTP(w, r)

	ran := vxC11Ran > 0

	// --- method and content type of state-changing endpoints ---
	if rt.declared == "" {
		vx.Assert(rt.pattern == "/dns-query" || rt.pattern == "/dns-query/", "only the DNS-over-HTTPS resolver is registered without a method")
	}
	jsonOrEmpty := vx.Or(ctype == vxC11JSON, vx.And(clen == 0, ctype == ""))
	switch decl {
	case http.MethodPost, http.MethodPut, http.MethodDelete:
		vx.Assert(vx.Implies(ran, method == decl), "a state-changing endpoint runs only for its declared method")
		vx.Assert(vx.Implies(ran, jsonOrEmpty), "a state-changing endpoint runs only with a JSON content type (or no body and no content type)")
	case http.MethodGet:
		vx.Assert(vx.Implies(ran, method == decl), "an endpoint runs only for its declared method")
	}

	// --- markers that do not depend on the property's precondition ---
	if !ran && w.code == http.StatusMethodNotAllowed {
		if install {
			vx.Reach("install-method-refused")
		} else {
			vx.Reach("method-refused")
		}
	}
	if !ran && w.code == http.StatusUnsupportedMediaType {
		if install {
			vx.Reach("install-ctype-refused")
		} else {
			vx.Reach("ctype-refused")
		}
	}
	if ran && rt.pkg != "" {
		vx.Reach("pkg-" + rt.pkg)
	}

	if !admin {
		// no administrator yet: outside the property
		if ran && !firstRun && !install {
			vx.Reach("no-admin-open")
		}
		if ran && firstRun && install {
			vx.Reach("install-open-first-run")
		}
		if !ran && firstRun && w.code == http.StatusFound && w.location == "install.html" {
			vx.Reach("first-run-redirect")
		}
		return
	}
	if firstRun {
		// "first run" with an administrator present is not a state of the
		// application
		return
	}

	// --- the property ---
	if install {
		vx.Assert(vx.Implies(!authed, vx.And(!ran, w.code == http.StatusForbidden)), "install wizard endpoint is forbidden once configured")
		if !ran && w.code == http.StatusForbidden {
			vx.Reach("install-forbidden")
		}
		return
	}

	public := vxC11Public(rt.pattern, path)
	if vx.Or(public, authed) {
		if ran {
			switch {
			case !public && validSession:
				vx.Reach("served-session")
				if vxC11Stored > 0 {
					vx.Reach("session-refreshed")
				}
				if decl == http.MethodPost || decl == http.MethodPut {
					if ctype == vxC11JSON {
						vx.Reach("mutating-served-json")
					} else {
						vx.Reach("mutating-served-empty")
					}
				}
			case !public:
				vx.Reach("served-basic")
			case rt.pattern == "/control/login":
				vx.Reach("public-login-call")
			case rt.pattern == "/" && vxC11HasPrefix(path, "/login."):
				vx.Reach("public-login-page")
			case rt.pattern == "/":
				vx.Reach("public-asset")
			case vxC11HasPrefix(rt.pattern, "/apple/"):
				vx.Reach("public-mobileconfig")
			default:
				vx.Reach("public-doh")
			}
			if vxC11FileRuns > 0 {
				vx.Reach("file-server")
			}
		}
		return
	}

	// protected resource, no valid credentials
	vx.Assert(!ran, "a protected endpoint does not run without a valid session or right basic credentials")
	toLogin := vx.And(w.code == http.StatusFound, vx.Or(w.location == "login.html", w.location == "/login.html"))
	vx.Assert(vx.Or(w.code == http.StatusForbidden, toLogin), "an unauthenticated request for a protected endpoint is answered 403 or redirected to the login page")
	if w.code == http.StatusForbidden {
		vx.Reach("refused-403")
	} else {
		vx.Reach("redirect-login")
	}
	switch {
	case cookie == 1:
		vx.Reach("refused-expired")
	case cookie == 2:
		vx.Reach("refused-unknown-cookie")
	case basic == 1:
		vx.Reach("refused-wrong-password")
	case basic == 2:
		vx.Reach("refused-wrong-user")
	default:
		vx.Reach("refused-no-credentials")
	}
}

// vxC11Routes: a configured server (started with an existing configuration).
func vxC11Routes() {
	vxC11Register(false)
	n := len(vxC11Routes_)
	vx.Assert(n > 0, "routes are registered")
	rt := vxC11Routes_[vx.Choice("route", n)]
	vxC11Serve(rt, true, vxC11RootPaths)
}

// vxC11Install: a server that started unconfigured and has completed the
// install wizard: the wizard's routes are still on the mux.
func vxC11Install() {
	vxC11Register(true)
	var sel []vxC11Route
	for _, rt := range vxC11Routes_ {
		if vxC11IsInstall(rt.pattern) || rt.pattern == "/" || rt.pattern == "/control/status" || rt.pattern == "/control/dhcp/set_config" {
			sel = append(sel, rt)
		}
	}
	vx.Assert(len(sel) == 7, "install wizard routes are registered on first run")
	rt := sel[vx.Choice("route", len(sel))]
	vxC11Serve(rt, true, []string{"/", "/install.html", "/assets/x"})
}

// vxC11Subtrees: the subtree patterns ("/" = everything no other pattern
// matches, "/dns-query/") with a symbolic request path.
func vxC11Subtrees() {
	vxC11Register(false)
	var sel []vxC11Route
	for _, rt := range vxC11Routes_ {
		if vxC11HasSuffix(rt.pattern, "/") {
			sel = append(sel, rt)
		}
	}
	vx.Assert(len(sel) > 0, "subtree routes are registered")
	rt := sel[vx.Choice("route", len(sel))]
	vxC11Serve(rt, false, nil)
}
