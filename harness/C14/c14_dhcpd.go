//go:build verif

package dhcpd

// C14 — the DHCP lease database is replaced atomically.
//
//vx:overlay internal/dhcpd/zz_vx_c14.go
//vx:entry vxC14Leases reach=crashed,saved,save-failed
//vx:stub encoding/json.Marshal vxC14Marshal
//vx:note every save runs over a model of the file system at the os boundary (os.OpenFile/CreateTemp/Lstat/Remove/Rename, (*os.File).Write/Sync/Close ...): each mutating call is a step; crash step and up to two failing steps symbolic; contents of 0..3 symbolic bytes (old version present or absent); unsynced file data may be lost from any point on after a crash; directory operations atomic and ordered (POSIX rename is the trusted base)
//vx:note outside: directory fsync / durability of the rename itself, Windows branch, the JSON/YAML encoders producing the buffer, content sizes beyond the bound (a save is one Write call; size does not enter control flow)

import (
	"github.com/AdguardTeam/AdGuardHome/internal/aghrenameio"
	"github.com/AdguardTeam/AdGuardHome/internal/vx"
)

var vxC14NewContent []byte

func vxC14Marshal(v any) ([]byte, error) { return vxC14NewContent, nil }

func vxC14Leases() {
	const dest = "/data/leases.json"
	hasOld := vx.Bool("hasOldVersion")
	old := vx.Bytes("old", vx.Choice("oldLen", 4))
	vxC14NewContent = vx.Bytes("new", vx.Choice("newLen", 4))
	aghrenameio.VxC14Init(dest, old, hasOld, func() [][]byte { return [][]byte{vxC14NewContent} })
	var err error
	func() {
		defer func() {
			if r := recover(); r != nil {
				if _, ok := r.(aghrenameio.VxC14Crash); !ok {
					panic(r)
				}
				vx.Assume(false) // the process is gone: nothing more to check on this path
			}
		}()
		err = writeDB(dest, nil)
	}()
	aghrenameio.VxC14Finish(err, "lease database", true)
}
