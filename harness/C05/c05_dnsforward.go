//go:build verif

package dnsforward

// C05 (restricted) — lock discipline of dnsforward.Server: state protected by
// serverLock is only touched with the lock held, and no entry point locks a
// mutex it already holds.
//
//vx:overlay internal/dnsforward/zz_vx_c05.go
//vx:entry vxC05Server reach=guarded-access
//vx:entry vxC05ServerAdmin reach=guarded-access
//vx:entry vxC05ProtectionResume reach=resumed
//vx:stub (*github.com/AdguardTeam/urlfilter.DNSEngine).MatchRequest vxC05MatchRequest
//vx:stub time.Now vxC05Now
//vx:stub (*encoding/json.Decoder).Decode vxC05DJSONDecode
//vx:stub github.com/AdguardTeam/AdGuardHome/internal/aghhttp.WriteJSONResponse vxC05DWriteJSON
//vx:stub github.com/AdguardTeam/AdGuardHome/internal/dnsforward.newAccessCtx vxC05DNewAccess
//vx:opaque (net/netip.Addr).String
//vx:opaque (net/netip.Prefix).String
//vx:opaque (net.IP).String

import (
	"context"
	"encoding/json"
	"net/http"
	"net/netip"
	"time"

	"github.com/AdguardTeam/AdGuardHome/internal/aghnet"
	"github.com/AdguardTeam/AdGuardHome/internal/filtering"
	"github.com/AdguardTeam/AdGuardHome/internal/querylog"
	"github.com/AdguardTeam/AdGuardHome/internal/stats"
	"github.com/AdguardTeam/AdGuardHome/internal/vx"
	"github.com/AdguardTeam/dnsproxy/proxy"
	"github.com/AdguardTeam/golibs/cache"
	"github.com/AdguardTeam/golibs/container"
	"github.com/AdguardTeam/urlfilter"
	"github.com/miekg/dns"
)

func vxC05MatchRequest(e *urlfilter.DNSEngine, r *urlfilter.DNSRequest) (*urlfilter.DNSResult, bool) {
	return &urlfilter.DNSResult{}, false
}

func vxC05Now() time.Time { return time.Unix(1_700_000_000, 0) }

type vxC05Cache struct{}

func (vxC05Cache) Set(key, val []byte) bool { return false }
func (vxC05Cache) Get(key []byte) []byte    { return nil }
func (vxC05Cache) Del(key []byte)           {}
func (vxC05Cache) Clear()                   {}
func (vxC05Cache) Stats() (s cache.Stats)   { return s }

type vxC05QLog struct{}

func (vxC05QLog) Start(ctx context.Context) error                        { return nil }
func (vxC05QLog) Shutdown(ctx context.Context) error                     { return nil }
func (vxC05QLog) Add(params *querylog.AddParams)                         {}
func (vxC05QLog) WriteDiskConfig(c *querylog.Config)                     {}
func (vxC05QLog) ShouldLog(host string, qt, cl uint16, ids []string) bool { return true }

type vxC05Stats struct{}

func (vxC05Stats) Start()                                                   {}
func (vxC05Stats) Close() error                                             { return nil }
func (vxC05Stats) Update(e *stats.Entry)                                    {}
func (vxC05Stats) TopClientsIP(limit uint) []netip.Addr                     { return nil }
func (vxC05Stats) WriteDiskConfig(dc *stats.Config)                         {}
func (vxC05Stats) ShouldCount(host string, qt, cl uint16, ids []string) bool { return true }

func vxC05NewServer() *Server {
	a := &accessManager{
		allowedIPs:       container.NewMapSet[netip.Addr](),
		blockedIPs:       container.NewMapSet[netip.Addr](netip.AddrFrom4([4]byte{10, 0, 0, 1})),
		allowedClientIDs: container.NewMapSet[string](),
		blockedClientIDs: container.NewMapSet[string](),
		blockedHostsEng:  &urlfilter.DNSEngine{},
	}
	s := &Server{access: a, dnsProxy: &proxy.Proxy{}, clientIDCache: vxC05Cache{}, anonymizer: aghnet.NewIPMut(nil), queryLog: vxC05QLog{}, stats: vxC05Stats{}}
	s.conf.TLSConf = &TLSConfig{}
	return s
}

func vxC05Server() {
	s := vxC05NewServer()
	vx.Guard(&s.access, &s.serverLock, "dnsforward.Server.access")
	vx.Guard(&s.dnsProxy, &s.serverLock, "dnsforward.Server.dnsProxy")
	vx.Guard(&s.queryLog, &s.serverLock, "dnsforward.Server.queryLog")
	vx.Guard(&s.stats, &s.serverLock, "dnsforward.Server.stats")

	req := &dns.Msg{}
	req.Question = []dns.Question{{Name: "example.org.", Qtype: dns.TypeA, Qclass: dns.ClassINET}}
	pctx := &proxy.DNSContext{Proto: proxy.ProtoUDP, Req: req, Res: (&dns.Msg{}).SetReply(req), Addr: netip.AddrPortFrom(netip.AddrFrom4([4]byte{192, 168, 1, 7}), 5353)}
	switch vx.Choice("op", 4) {
	case 0: // request path: access check
		s.IsBlockedClient(pctx.Addr.Addr(), "")
	case 1: // request path: pre-request hook
		_ = s.HandleBefore(nil, pctx)
	case 2: // request path: query log and statistics stage
		dctx := &dnsContext{proxyCtx: pctx, result: &filtering.Result{}, startTime: time.Unix(1_700_000_000, 0)}
		s.processQueryLogsAndStats(dctx)
	default: // request path: proxy accessor
		s.proxy()
	}
	if vx.GuardHits() > 0 {
		vx.Reach("guarded-access")
	}
	vx.Assert(vx.Held(&s.serverLock) == 0, "serverLock is released on return")
}

// vxC05ProtectionResume: the worker that re-enables protection after a pause
// runs with a configuration-modified callback that, like the production one
// (home.onConfigModified), reads the server back.
func vxC05ProtectionResume() {
	s := vxC05NewServer()
	conf := &filtering.Config{ProtectionEnabled: false}
	s.dnsFilter = filtering.VxC05NewFilter(conf)
	s.conf.ConfigModified = func() {
		c := Config{}
		s.WriteDiskConfig(&c)
		s.LocalPTRResolvers()
	}
	s.enableProtectionAfterPause()
	on, _ := s.dnsFilter.ProtectionStatus()
	vx.Assert(on, "protection is switched on again")
	vx.Reach("resumed")
	vx.Assert(vx.Held(&s.serverLock) == 0, "serverLock is released on return")
}

// ---- admin handlers of the DNS server: access lists and the protection switch ----

func vxC05DJSONDecode(dec *json.Decoder, v any) error {
	switch r := v.(type) {
	case **accessListJSON:
		(*r).AllowedClients = []string{"10.0.0.0/8"}
		(*r).DisallowedClients = []string{}
		(*r).BlockedHosts = []string{"blocked.example"}
	case *protectionJSON:
		r.Enabled = false
		r.Duration = 60_000
	}
	return nil
}

func vxC05DWriteJSON(w http.ResponseWriter, r *http.Request, code int, resp any) {}

// vxC05DNewAccess: building the rule engine of the blocked-hosts list is not
// part of the lock discipline.
func vxC05DNewAccess(allowed, blocked, blockedHosts []string) (*accessManager, error) {
	return &accessManager{
		allowedIPs:       container.NewMapSet[netip.Addr](),
		blockedIPs:       container.NewMapSet[netip.Addr](),
		allowedClientIDs: container.NewMapSet[string](),
		blockedClientIDs: container.NewMapSet[string](),
		blockedHostsEng:  &urlfilter.DNSEngine{},
	}, nil
}

type vxC05DWriter struct{ h http.Header }

func (w *vxC05DWriter) Header() http.Header         { return w.h }
func (w *vxC05DWriter) Write(b []byte) (int, error) { return len(b), nil }
func (w *vxC05DWriter) WriteHeader(code int)        {}

// vxC05ServerAdmin: one admin request to the DNS server's own handlers; the
// configuration-modified callback reads the server back like the production
// one (home.onConfigModified -> config.write).
func vxC05ServerAdmin() {
	s := vxC05NewServer()
	s.dnsFilter = filtering.VxC05NewFilter(&filtering.Config{ProtectionEnabled: true})
	s.conf.ConfigModified = func() {
		c := Config{}
		s.WriteDiskConfig(&c)
		s.LocalPTRResolvers()
	}
	vx.Guard(&s.access, &s.serverLock, "dnsforward.Server.access")
	vx.Guard(&s.conf.AllowedClients, &s.serverLock, "dnsforward.Server.conf.AllowedClients")
	vx.Guard(&s.conf.DisallowedClients, &s.serverLock, "dnsforward.Server.conf.DisallowedClients")
	vx.Guard(&s.conf.BlockedHosts, &s.serverLock, "dnsforward.Server.conf.BlockedHosts")

	w := &vxC05DWriter{h: http.Header{}}
	r := (&http.Request{Method: http.MethodPost, Header: http.Header{"Content-Type": {"application/json"}}, Body: http.NoBody}).WithContext(context.Background())
	switch vx.Choice("op", 4) {
	case 0:
		s.handleAccessSet(w, r)
	case 1:
		s.handleAccessList(w, r)
	case 2:
		s.handleSetProtection(w, r)
	default: // configuration save on its own
		c := Config{}
		s.WriteDiskConfig(&c)
	}
	if vx.GuardHits() > 0 {
		vx.Reach("guarded-access")
	}
	vx.Assert(vx.Held(&s.serverLock) == 0, "serverLock is released on return")
}
