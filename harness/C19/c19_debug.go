//go:build verif

package hashprefix

//vx:overlay internal/filtering/hashprefix/zz_vx_c19dbg.go
//vx:entry vxC19Dbg reach=blocked

import (
	"github.com/AdguardTeam/AdGuardHome/internal/vx"
)

func vxC19Dbg() {
	vxC19Reset()
	vx.Reach("dbg")
	n := 5
	labels := make([]string, n)
	for i := range labels {
		ln := 1 + (i+n)%2
		labels[i] = vxC19Label("host", ln)
	}
	vxC19Suffix.labels = 1
	vxC19Suffix.icann = true
	svc := &vxC19Service{suffix: "sb.dns.adguard.com.", layout: n % 2}
	svc.db = vxC19DB("db", 1)
	vxC19One(labels, svc)
}
