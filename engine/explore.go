package main

// Exhaustive (bounded) exploration of all feasible paths of one entry
// function: a shared LIFO work list of (decision prefix, model) items served
// by parallel workers, each with its own solver process.

import (
	"fmt"
	"os"
	"runtime/debug"
	"sort"
	"strings"
	"sync"
	"time"

	"golang.org/x/tools/go/ssa"
)

type Sample struct {
	End       string            `json:"end"`
	Decisions int               `json:"decisions"`
	Model     map[string]uint64 `json:"model,omitempty"`
	Notes     []string          `json:"notes,omitempty"`
	Reached   []string          `json:"reached,omitempty"`
}

type Explorer struct {
	mu                    sync.Mutex
	cond                  *sync.Cond
	work                  []WorkItem
	active                int
	stop                  bool
	cfg                   *Config
	entry                 *ssa.Function
	solverK               string
	timeout               int
	fbTimeout             int
	fbCalls, fbCvc5, fbZ3 int
	recycled, revived     int
	fbBad                 int
	workers               int
	maxPaths              int
	deadline              time.Time

	paths       int
	forks       int
	branches    int
	endReasons  map[string]int
	violations  []*Violation
	known       map[string][]*Violation
	unknowns    map[string]int
	unsupported map[string]int
	engineErrs  []string
	reach       map[string]int
	obligations int
	concreteObl int
	ivObl       int
	ivDecided   int
	samples     []Sample
	funcs       map[string]struct{}
	stubHits    map[string]int
	sstats      SolverStats
	steps       int64
	maxViol     int
	verbose     bool
	forkSites   map[string]int
	slowest     time.Duration
	slowestDesc string
	collect     int // selftest: number of complete models to keep
	stride      int
	models      []map[string]uint64
	lastNotes   []string
}

func newExplorer(cfg *Config, entry *ssa.Function) *Explorer {
	ex := &Explorer{cfg: cfg, entry: entry, endReasons: map[string]int{}, known: map[string][]*Violation{},
		unknowns: map[string]int{}, unsupported: map[string]int{}, reach: map[string]int{}, funcs: map[string]struct{}{},
		stubHits: map[string]int{}, maxViol: 3}
	ex.cond = sync.NewCond(&ex.mu)
	return ex
}

func (ex *Explorer) push(it WorkItem) {
	ex.mu.Lock()
	ex.work = append(ex.work, it)
	ex.forks++
	ex.mu.Unlock()
	ex.cond.Signal()
}

func (ex *Explorer) noteFork(site string) {
	ex.mu.Lock()
	if ex.forkSites == nil {
		ex.forkSites = map[string]int{}
	}
	ex.forkSites[site]++
	ex.mu.Unlock()
}

func (ex *Explorer) noteUnknown(msg string) {
	ex.mu.Lock()
	ex.unknowns[msg]++
	ex.mu.Unlock()
}

func (ex *Explorer) noteReach(label string) {
	ex.mu.Lock()
	ex.reach[label]++
	ex.mu.Unlock()
}

func (ex *Explorer) countObligation(concrete bool) {
	ex.mu.Lock()
	ex.obligations++
	if concrete {
		ex.concreteObl++
	}
	ex.mu.Unlock()
}

func (ex *Explorer) countIvDischarged() {
	ex.mu.Lock()
	ex.ivObl++
	ex.mu.Unlock()
}

func (ex *Explorer) reportViolation(v *Violation) {
	ex.mu.Lock()
	ex.violations = append(ex.violations, v)
	if len(ex.violations) >= ex.maxViol {
		ex.stop = true
	}
	ex.mu.Unlock()
	ex.cond.Broadcast()
}

func (ex *Explorer) reportKnown(id, label string, v *Violation) {
	v.Known = id
	ex.mu.Lock()
	if len(ex.known[id]) < 3 {
		ex.known[id] = append(ex.known[id], v)
	} else {
		ex.known[id][0].Notes = nil
	}
	ex.mu.Unlock()
}

func (ex *Explorer) next() (WorkItem, bool) {
	ex.mu.Lock()
	defer ex.mu.Unlock()
	for {
		if ex.stop {
			return WorkItem{}, false
		}
		if n := len(ex.work); n > 0 {
			it := ex.work[n-1]
			ex.work = ex.work[:n-1]
			ex.active++
			return it, true
		}
		if ex.active == 0 {
			ex.cond.Broadcast()
			return WorkItem{}, false
		}
		ex.cond.Wait()
	}
}

func (ex *Explorer) done() {
	ex.mu.Lock()
	ex.active--
	if ex.active == 0 && len(ex.work) == 0 {
		ex.cond.Broadcast()
	}
	ex.mu.Unlock()
}

// recycleKB is the solver RSS above which a worker replaces its solver process.
var recycleKB = func() int {
	if v := os.Getenv("VX_RECYCLE_KB"); v != "" {
		n := 0
		fmt.Sscanf(v, "%d", &n)
		if n > 0 {
			return n
		}
	}
	return 768 << 10
}()

func (ex *Explorer) Run() {
	ex.work = []WorkItem{{}}
	var wg sync.WaitGroup
	for i := 0; i < ex.workers; i++ {
		wg.Add(1)
		go func(i int) {
			defer wg.Done()
			logp := ""
			if d := os.Getenv("VX_SMTLOG"); d != "" {
				logp = fmt.Sprintf("%s.%d.smt2", d, i)
			}
			s, err := NewSolver(ex.solverK, ex.timeout, logp)
			if err == nil {
				s.fbTimeout = ex.fbTimeout
			}
			if err != nil {
				ex.mu.Lock()
				ex.engineErrs = append(ex.engineErrs, "solver start: "+err.Error())
				ex.stop = true
				ex.mu.Unlock()
				return
			}
			defer func() {
				ex.mu.Lock()
				ex.sstats.Queries += s.stats.Queries
				ex.sstats.Sat += s.stats.Sat
				ex.sstats.Unsat += s.stats.Unsat
				ex.sstats.Unknown += s.stats.Unknown
				ex.sstats.Errors += s.stats.Errors
				if ex.sstats.FirstError == "" {
					ex.sstats.FirstError = s.stats.FirstError
				}
				ex.sstats.Time += s.stats.Time
				ex.fbCalls += s.fbStats.Calls
				ex.recycled += s.recycled
				ex.fbBad += s.fbStats.BadModels
				ex.revived += s.revived
				ex.fbCvc5 += s.fbStats.ByCvc5Int
				ex.fbZ3 += s.fbStats.ByZ3
				ex.mu.Unlock()
				s.Close()
			}()
			npaths := 0
			for {
				it, ok := ex.next()
				if !ok {
					return
				}
				ex.runPath(s, it)
				ex.done()
				if npaths++; npaths%32 == 0 {
					s.Recycle(recycleKB)
				}
				if s.dead && !s.reviveIdle() {
					ex.mu.Lock()
					ex.engineErrs = append(ex.engineErrs, "solver process died")
					ex.stop = true
					ex.mu.Unlock()
					ex.cond.Broadcast()
					return
				}
			}
		}(i)
	}
	wg.Wait()
}

func (ex *Explorer) runPath(s *Solver, it WorkItem) {
	p := newPath(ex, s, it)
	t0 := time.Now()
	if s != nil {
		s.vars = &p.vars
	}
	var in *Interp
	end := "completed"
	if s != nil {
		p.f.next = 0
		s.BeginPath()
	} else {
		p.concrete = true
	}
	func() {
		defer func() {
			r := recover()
			if r == nil {
				return
			}
			switch r := r.(type) {
			case pathEnd:
				end = r.reason
			case unsupported:
				end = "unsupported"
				ex.mu.Lock()
				ex.unsupported[r.msg]++
				ex.mu.Unlock()
			case *goPanic:
				end = "panic"
				func() {
					defer func() {
						if r2 := recover(); r2 != nil {
							if pe, ok := r2.(pathEnd); ok {
								end = pe.reason
								return
							}
							panic(r2)
						}
					}()
					msg := panicMessage(in, r)
					p.panicStack = r.stack
					p.PathViolation("uncaught panic: " + msg)
				}()
			default:
				end = "engine-error"
				ex.mu.Lock()
				msg := fmt.Sprintf("%v at %s\n%s", r, p.where(), trimStack(debug.Stack()))
				if len(ex.engineErrs) < 5 {
					ex.engineErrs = append(ex.engineErrs, msg)
				}
				ex.mu.Unlock()
			}
		}()
		in = newInterp(ex.cfg, p)
		in.callSSA(nil, ex.entry, nil, nil)
		if p.pos < len(p.prefix) {
			panic(fmt.Sprintf("engine: path ended with %d unreplayed decisions", len(p.prefix)-p.pos))
		}
	}()
	if s != nil {
		s.EndPath()
	}
	ex.mu.Lock()
	if d := time.Since(t0); d > ex.slowest {
		ex.slowest = d
		steps := int64(0)
		if in != nil {
			steps = in.steps
		}
		ex.slowestDesc = fmt.Sprintf("%.2fs, %d steps, %d decisions, end=%s, model=%v", d.Seconds(), steps, len(p.decisions), end, p.modelSummary(12))
	}
	ex.paths++
	ex.branches += p.nBranches
	ex.ivDecided += p.ivDecided
	ex.endReasons[end]++
	if in != nil {
		ex.steps += in.steps
		for f := range in.funcsSeen {
			ex.funcs[f.String()] = struct{}{}
		}
		for k, v := range in.stubHits {
			ex.stubHits[k] += v
		}
	}
	ex.lastNotes = p.userNotes
	if ex.collect > 0 && len(ex.models) < 400 && end == "completed" {
		m := map[string]uint64{}
		for _, v := range p.vars {
			m[v.name] = p.model.vals[v.name] & maskB(v.w)
		}
		ex.models = append(ex.models, m)
	}
	if len(ex.samples) < 6 && (end == "completed" || end == "violation" || end == "known-finding") {
		var reached []string
		for k := range p.reached {
			reached = append(reached, k)
		}
		sort.Strings(reached)
		ex.samples = append(ex.samples, Sample{End: end, Decisions: len(p.decisions), Model: p.modelSummary(24), Notes: firstN(p.notes, 6), Reached: reached})
	}
	if ex.maxPaths > 0 && ex.paths >= ex.maxPaths && !ex.stop {
		ex.stop = true
		ex.engineErrs = append(ex.engineErrs, fmt.Sprintf("path cap %d reached", ex.maxPaths))
	}
	if !ex.deadline.IsZero() && time.Now().After(ex.deadline) && !ex.stop {
		ex.stop = true
		ex.engineErrs = append(ex.engineErrs, "time budget exhausted")
	}
	if ex.verbose && ex.paths%200 == 0 {
		fmt.Fprintf(os.Stderr, "  ... %d paths, %d queued, %d queries\n", ex.paths, len(ex.work), ex.sstats.Queries)
	}
	ex.mu.Unlock()
	if ex.stop {
		ex.cond.Broadcast()
	}
}

func firstN(s []string, n int) []string {
	if len(s) > n {
		return s[:n]
	}
	return s
}

func trimStack(b []byte) string {
	lines := strings.Split(string(b), "\n")
	if len(lines) > 40 {
		lines = lines[:40]
	}
	return strings.Join(lines, "\n")
}

func panicMessage(in *Interp, gp *goPanic) string {
	msg := showValue(gp.v, 0)
	if ifc, ok := gp.v.(Iface); ok && ifc.t != nil {
		if s, ok := ifc.v.(string); ok {
			msg = s
		} else if p, ok := ifc.v.(*Value); ok && p != nil {
			if st, ok := (*p).(Struct); ok && len(st) > 0 {
				if s, ok := st[0].(string); ok {
					msg = s
				}
			}
		}
	}
	return msg + " [" + gp.where + "]"
}
