#!/bin/bash
# usage: tools/seed_matrix.sh [ID ...]  — runs the quick check of each property against every seeded change under
# /verif/seeded/<ID>/<V>/patch.diff (ONLY=<V> restricts to one change, TIER=thorough runs the thorough check) in a scratch worktree and records the outcome in seeded/<ID>/<V>/detect.json
cd /verif
IDS="$@"
[ -z "$IDS" ] && IDS=$(ls seeded)
for ID in $IDS; do
  [ -d harness/$ID ] || continue
  for D in seeded/$ID/*/; do
    V=$(basename $D)
    [ -f $D/patch.diff ] || continue
    [ -n "$ONLY" ] && [ "$V" != "$ONLY" ] && continue
    WT=/tmp/sm-$ID-$V-$$
    git -C /repo worktree add --detach $WT HEAD >/dev/null 2>&1 || continue
    if ! ( cd $WT && git apply /verif/$D/patch.diff ) 2>/dev/null; then
      echo "$ID $V: patch does not apply to HEAD"; git -C /repo worktree remove --force $WT; continue
    fi
    T0=$(date +%s)
    VX_REPO=$WT timeout 3600 bin/vchk run $ID --tier ${TIER:-quick} --no-evidence --workers ${WORKERS:-8} > /tmp/sm.$$.log 2>&1
    RC=$?
    T1=$(date +%s)
    git -C /repo worktree remove --force $WT
    python3 - "$D" "$ID" "$V" "$RC" "$((T1-T0))" /tmp/sm.$$.log <<'PY'
import sys, json, re
d, pid, v, rc, secs, log = sys.argv[1:]
txt = open(log).read()
labels = []
for m in re.finditer(r'entry=(\S+) label="([^"]*)"', txt):
    e = (m.group(1), m.group(2)[:160])
    if e not in labels: labels.append(e)
entries = re.findall(r'^entry (\S+)\s+(\S+)', txt, re.M)
import os
out = {"property": pid, "change": v, "tier": os.environ.get("TIER", "quick"), "quick_exit": int(rc), "detected": int(rc) == 1, "seconds": int(secs),
       "violating_entries": sorted({e for e, s in entries if s == "violation"}),
       "first_labels": [{"entry": e, "label": l} for e, l in labels[:4]],
       "native_replay": [l.strip() for l in txt.splitlines() if "native replay:" in l][:2]}
json.dump(out, open(d + "/detect.json", "w"), indent=1)
print(pid, v, "exit", rc, "detected" if int(rc) == 1 else "NOT DETECTED", out["violating_entries"], secs + "s")
PY
  done
done
rm -f /tmp/sm.$$.log
