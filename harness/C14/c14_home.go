//go:build verif

package home

// C14 — the configuration file is replaced atomically.
//
//vx:overlay internal/home/zz_vx_c14.go
//vx:entry vxC14Config reach=crashed,saved,save-failed
//vx:stub path/filepath.EvalSymlinks vxC14EvalSymlinks
//vx:stub gopkg.in/yaml.v3.NewEncoder vxC14NewEncoder
//vx:stub (*gopkg.in/yaml.v3.Encoder).SetIndent vxC14SetIndent
//vx:stub (*gopkg.in/yaml.v3.Encoder).Encode vxC14Encode
//vx:stub (*github.com/AdguardTeam/AdGuardHome/internal/home.clientsContainer).forConfig vxC14ForConfig

import (
	"io"

	"github.com/AdguardTeam/AdGuardHome/internal/aghrenameio"
	"github.com/AdguardTeam/AdGuardHome/internal/vx"
	"gopkg.in/yaml.v3"
)

var (
	vxC14Writer     io.Writer
	vxC14NewContent []byte
)

func vxC14EvalSymlinks(p string) (string, error) { return p, nil }

func vxC14NewEncoder(w io.Writer) *yaml.Encoder {
	vxC14Writer = w
	return &yaml.Encoder{}
}

func vxC14SetIndent(e *yaml.Encoder, n int) {}

// vxC14Encode: the encoder produces arbitrary bytes (the new version).
func vxC14Encode(e *yaml.Encoder, v any) error {
	_, err := vxC14Writer.Write(vxC14NewContent)
	return err
}

func vxC14ForConfig(c *clientsContainer) []*clientObject { return nil }

func vxC14Config() {
	const dest = "/w/AdGuardHome.yaml"
	globalContext.confFilePath = dest
	hasOld := vx.Bool("hasOldVersion")
	old := vx.Bytes("old", vx.Choice("oldLen", 4))
	vxC14NewContent = vx.Bytes("new", vx.Choice("newLen", 4))
	aghrenameio.VxC14Init(dest, old, hasOld, func() [][]byte { return [][]byte{vxC14NewContent} })
	var err error
	func() {
		defer func() {
			if r := recover(); r != nil {
				if _, ok := r.(aghrenameio.VxC14Crash); !ok {
					panic(r)
				}
				vx.Assume(false)
			}
		}()
		err = config.write(nil)
	}()
	aghrenameio.VxC14Finish(err, "configuration file", true)
}
