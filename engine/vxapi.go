package main

// Engine side of the harness API (package internal/vx, injected by overlay).

import (
	"fmt"
	"os"
	"strconv"
	"strings"

	"golang.org/x/tools/go/ssa"
)

const vxPkg = "github.com/AdguardTeam/AdGuardHome/internal/vx"

func argStr(in *Interp, v Value, what string) string {
	s, ok := v.(string)
	if !ok {
		panic(unsupported{"vx: " + what + " must be a concrete string"})
	}
	return s
}

var fixedChoices = func() map[string]uint64 {
	m := map[string]uint64{}
	for _, kv := range strings.Split(os.Getenv("VX_FIX"), ",") {
		k, v, ok := strings.Cut(kv, "=")
		if ok {
			n, _ := strconv.ParseUint(v, 10, 64)
			m[k] = n
		}
	}
	return m
}()

func registerVX() {
	reg := func(name string, f intrinsicFn) { intrinsics[vxPkg+"."+name] = f }
	mkInt := func(w uint16) intrinsicFn {
		return func(in *Interp, c *frame, fn *ssa.Function, a []Value) Value {
			return in.p.NewVar(argStr(in, a[0], "name"), w)
		}
	}
	reg("Bool", mkInt(0))
	reg("Byte", mkInt(8))
	reg("Uint16", mkInt(16))
	reg("Uint32", mkInt(32))
	reg("Int32", mkInt(32))
	reg("Int", mkInt(64))
	reg("Int64", mkInt(64))
	reg("Uint64", mkInt(64))
	reg("Bytes", func(in *Interp, c *frame, fn *ssa.Function, a []Value) Value {
		name := argStr(in, a[0], "name")
		n := int(in.concInt(a[1]))
		s := make(Slice, n)
		for i := range s {
			s[i] = in.p.NewVar(fmt.Sprintf("%s[%d]", name, i), 8)
		}
		return s
	})
	reg("String", func(in *Interp, c *frame, fn *ssa.Function, a []Value) Value {
		name := argStr(in, a[0], "name")
		n := int(in.concInt(a[1]))
		if n == 0 {
			return ""
		}
		b := make([]*Term, n)
		for i := range b {
			b[i] = in.p.NewVar(fmt.Sprintf("%s[%d]", name, i), 8)
		}
		return &SymStr{b}
	})
	reg("Choice", func(in *Interp, c *frame, fn *ssa.Function, a []Value) Value {
		name := argStr(in, a[0], "name")
		n := in.concInt(a[1])
		if n <= 0 {
			panic(unsupported{"vx.Choice with n <= 0"})
		}
		v := in.p.NewVar(name, 64)
		in.p.Assume(in.f.Cmp(OpUlt, v, mkConst(uint64(n), 64)))
		if fx, ok := fixedChoices[name]; ok {
			// debugging aid: VX_FIX=name=value,... pins a choice
			in.p.Assume(in.f.Eq(v, mkConst(fx, 64)))
		}
		k := in.p.Concretize(v)
		return mkConst(k, 64)
	})
	reg("Concrete", func(in *Interp, c *frame, fn *ssa.Function, a []Value) Value {
		t := a[0].(*Term)
		return mkConst(in.p.Concretize(t), t.w)
	})
	reg("Assume", func(in *Interp, c *frame, fn *ssa.Function, a []Value) Value {
		in.p.Assume(a[0].(*Term))
		return nil
	})
	reg("Assert", func(in *Interp, c *frame, fn *ssa.Function, a []Value) Value {
		in.p.Assert(a[0].(*Term), argStr(in, a[1], "label"))
		return nil
	})
	reg("Fail", func(in *Interp, c *frame, fn *ssa.Function, a []Value) Value {
		in.p.Assert(falseT, argStr(in, a[0], "label"))
		return nil
	})
	reg("Reach", func(in *Interp, c *frame, fn *ssa.Function, a []Value) Value {
		in.p.Reach(argStr(in, a[0], "label"))
		return nil
	})
	reg("Known", func(in *Interp, c *frame, fn *ssa.Function, a []Value) Value {
		id := argStr(in, a[0], "id")
		if in.cfg.knownIDs[id] {
			in.p.known = append(in.p.known, knownPred{id, a[1].(*Term)})
		}
		return nil
	})
	reg("Note", func(in *Interp, c *frame, fn *ssa.Function, a []Value) Value {
		in.p.notes = append(in.p.notes, showValue(a[0], 0))
		in.p.userNotes = append(in.p.userNotes, noteString(a[0]))
		return nil
	})
	reg("MaxSteps", func(in *Interp, c *frame, fn *ssa.Function, a []Value) Value {
		in.maxSteps = in.steps + in.concInt(a[0])
		in.stepLabel = argStr(in, a[1], "label")
		return nil
	})
	reg("Unwind", func(in *Interp, c *frame, fn *ssa.Function, a []Value) Value {
		in.unwind = int(in.concInt(a[0]))
		return nil
	})
	reg("Thorough", func(in *Interp, c *frame, fn *ssa.Function, a []Value) Value {
		return mkBool(in.cfg.Thorough)
	})
	reg("And", func(in *Interp, c *frame, fn *ssa.Function, a []Value) Value {
		return in.f.And(a[0].(*Term), a[1].(*Term))
	})
	reg("Or", func(in *Interp, c *frame, fn *ssa.Function, a []Value) Value {
		return in.f.Or(a[0].(*Term), a[1].(*Term))
	})
	reg("Implies", func(in *Interp, c *frame, fn *ssa.Function, a []Value) Value {
		return in.f.Or(in.f.Not(a[0].(*Term)), a[1].(*Term))
	})
	// LazyObject(maxKeys): an arbitrary map[string]any (see lazy.go)
	reg("LazyObject", func(in *Interp, c *frame, fn *ssa.Function, a []Value) Value {
		return in.newLazyMap(0, int(in.concInt(a[0])))
	})
	reg("LazyTypeMismatches", func(in *Interp, c *frame, fn *ssa.Function, a []Value) Value {
		return mkConst(uint64(in.lazyMismatches), 64)
	})
	reg("LazyAny", func(in *Interp, c *frame, fn *ssa.Function, a []Value) Value {
		return in.newLazyAny(0, int(in.concInt(a[0])))
	})
	reg("Symbolic", func(in *Interp, c *frame, fn *ssa.Function, a []Value) Value {
		return trueT
	})
	reg("SameByte", func(in *Interp, c *frame, fn *ssa.Function, a []Value) Value {
		x, ok1 := a[0].(*Term)
		y, ok2 := a[1].(*Term)
		if !ok1 || !ok2 {
			return mkBool(false)
		}
		return mkBool(x == y || x.IsConst() && y.IsConst() && x.val == y.val)
	})
	reg("IsConcrete", func(in *Interp, c *frame, fn *ssa.Function, a []Value) Value {
		return mkBool(isConcrete(a[0]))
	})
	// Held(&mu) -> 0 not held, 1 read-held, 2 write-held (by the single executing thread)
	reg("Held", func(in *Interp, c *frame, fn *ssa.Function, a []Value) Value {
		ifc := a[0].(Iface)
		p, ok := ifc.v.(*Value)
		if !ok || p == nil {
			return mkConst(0, 64)
		}
		st := in.mutexes[p]
		switch {
		case st == nil:
			return mkConst(0, 64)
		case st.writer:
			return mkConst(2, 64)
		case st.readers > 0:
			return mkConst(1, 64)
		}
		return mkConst(0, 64)
	})
	// Guard(state, &mu, label): from now on every read of state (a pointer to a
	// struct/field, a map, a slice; contained fields and maps included) needs
	// mu read- or write-locked and every write needs it write-locked.
	reg("Guard", func(in *Interp, c *frame, fn *ssa.Function, a []Value) Value {
		mu, ok := a[1].(Iface).v.(*Value)
		if !ok || mu == nil {
			panic(unsupported{"vx.Guard: mutex must be a non-nil pointer"})
		}
		in.mu(mu)
		g := &guardInfo{mu: mu, label: argStr(in, a[2], "label")}
		st := a[0].(Iface)
		if st.t == nil {
			panic(unsupported{"vx.Guard: nil state"})
		}
		in.addGuard(st.v, g, 0)
		if in.atomicFields == nil {
			in.atomicFields = in.cfg.atomicFieldsOnce()
		}
		return nil
	})
	reg("GuardHits", func(in *Interp, c *frame, fn *ssa.Function, a []Value) Value {
		return mkConst(uint64(in.guardHits), 64)
	})
	reg("Goroutines", func(in *Interp, c *frame, fn *ssa.Function, a []Value) Value {
		return mkConst(uint64(len(in.gos)), 64)
	})
	// RunGoroutine(i) runs the i-th recorded `go` statement synchronously.
	reg("RunGoroutine", func(in *Interp, c *frame, fn *ssa.Function, a []Value) Value {
		i := int(in.concInt(a[0]))
		if i < 0 || i >= len(in.gos) {
			panic(unsupported{"vx.RunGoroutine: no such goroutine"})
		}
		g := in.gos[i]
		in.call(c, g.fn, g.args)
		in.cur = c
		return nil
	})
}

// noteString renders a value the same way the native vx.Note does.
func noteString(v Value) string {
	if ifc, ok := v.(Iface); ok {
		if ifc.t == nil {
			return "nil"
		}
		v = ifc.v
	}
	switch x := v.(type) {
	case *Term:
		if !x.IsConst() {
			return "sym"
		}
		if x.w == 0 {
			if x.val != 0 {
				return "true"
			}
			return "false"
		}
		return fmt.Sprintf("%d", x.val)
	case string:
		return fmt.Sprintf("%q", x)
	case *SymStr:
		b := make([]byte, 0, len(x.b))
		for _, t := range x.b {
			if !t.IsConst() {
				return "symstr"
			}
			b = append(b, byte(t.val))
		}
		return fmt.Sprintf("%q", string(b))
	case Slice:
		b := make([]byte, 0, len(x))
		for _, e := range x {
			t, ok := e.(*Term)
			if !ok || !t.IsConst() || t.w != 8 {
				return "?"
			}
			b = append(b, byte(t.val))
		}
		return fmt.Sprintf("%q", string(b))
	}
	return "?"
}
