//go:build verif

package filtering

// C17 — local files are read as filter lists only when matching configured
// safe patterns.
//
//vx:native
//vx:overlay internal/filtering/zz_vx_c17.go
//vx:callsites-gap os.Open github.com/AdguardTeam/AdGuardHome/internal/filtering (*github.com/AdguardTeam/AdGuardHome/internal/filtering.DNSFilter).reader,(*github.com/AdguardTeam/AdGuardHome/internal/filtering.DNSFilter).load,github.com/AdguardTeam/AdGuardHome/internal/filtering/rulelist.parseIntoCache
//vx:callsites-gap os.OpenFile github.com/AdguardTeam/AdGuardHome/internal/filtering none
//vx:callsites-gap os.ReadFile github.com/AdguardTeam/AdGuardHome/internal/filtering github.com/AdguardTeam/AdGuardHome/internal/filtering.newRuleStorage
//vx:note closed-world scan (regenerated from the SSA of the current tree on every run): the only file-opening call sites in internal/filtering/... are reader (guarded by the pattern check and executed by the entries), load and rulelist.parseIntoCache (cache files named DataDir/filters/<numeric id>.txt) and newRuleStorage (Windows only, same cache files); a new os.Open/OpenFile/ReadFile site anywhere else in these packages is not executed by the entries and makes the run INCONCLUSIVE (coverage gap), not a violation
//vx:entry vxC17Validate reach=v-file-accepted,v-unclean-accepted,v-unsafe-rejected,v-escape-rejected,v-nopatterns-rejected,v-stat-failed,v-http-accepted,v-scheme-rejected,v-relative-rejected
//vx:entry vxC17Refresh reach=r-opened,r-unclean-opened,r-unsafe-blocked,r-escape-blocked,r-nopatterns-blocked,r-http,r-allowlist
//vx:entry vxC17Add reach=a-file-added,a-http-added,a-unsafe-rejected,a-escape-rejected,a-scheme-rejected,a-nopatterns-rejected
//vx:entry vxC17SetURL reach=s-file-stored,s-http-stored,s-stored-disabled,s-unsafe-rejected,s-escape-rejected,s-scheme-rejected,s-nopatterns-rejected,s-rolled-back
//vx:entry vxC17Patterns tier=thorough reach=p-opened,p-blocked,p-class,p-star,p-escape-char,p-bad-pattern
//vx:stub os.Open vxC17Open
//vx:stub os.OpenFile vxC17OpenFile
//vx:stub os.ReadFile vxC17ReadFile
//vx:stub os.Stat vxC17Stat
//vx:stub os.Lstat vxC17Stat
//vx:stub os.Getwd vxC17Getwd
//vx:stub os.MkdirAll vxC17MkdirAll
//vx:stub os.Chtimes vxC17Chtimes
//vx:stub os.Remove vxC17Remove
//vx:stub os.Rename vxC17Rename
//vx:stub time.Now vxC17Now
//vx:stub (*os.File).Read vxC17FileRead
//vx:stub (*os.File).Close vxC17FileClose
//vx:stub (*net/http.Client).Get vxC17Get
//vx:stub (*encoding/json.Decoder).Decode vxC17Decode
//vx:stub github.com/AdguardTeam/AdGuardHome/internal/aghrenameio.NewPendingFile vxC17NewPending
//vx:stub (*github.com/AdguardTeam/AdGuardHome/internal/filtering.DNSFilter).setFilters vxC17SetFilters
//vx:stub (*net/url.URL).String vxC17URLString
//vx:note locations (quick, bytes ASCII): absolute = '/' + 0..5 symbolic bytes under every pattern list and 6 under the list {/a/*/*} (Validate, Refresh; Add/SetURL: 0..4 plus the template /a/XX/X with 3 symbolic bytes), so all dot-dot / dot / doubled / trailing separator spellings of that length arise; non-absolute free-form = 0..3 symbolic bytes not starting with '/' (Refresh 0..8, Add/SetURL 0..2); URL-looking = one of http: https: HtTp: file: ftp: followed by 0..3 symbolic bytes (Validate), 0..4 (Refresh), or by one of 7 fixed tails such as //h.example/l.txt ///a/b /a/b (Add/SetURL)
//vx:note locations (thorough, full byte range): Validate absolute 0..5 / 7, free 0..4, URL tail 0..4; Refresh absolute 0..6 / 7, free 0..10, tail 0..6, two consecutive refreshes; Add/SetURL absolute 0..5 / 6 plus template, free 0..3, fixed tails
//vx:note pattern lists: empty, each of /a/* /a/*/* /a/b? /[ab]/c /a/b alone, {/a/b, /a/*/*}, {/[ab]/c, /a/b?}; non-absolute locations run with the empty list and {/a/*}; thorough entry vxC17Patterns: one pattern '/' + 0..3 symbolic bytes over the alphabet / * ? [ ] - \ a b . ^ that filtering.New accepts and filepath.Match finds well-formed, against '/' + 0..3 full-range bytes, through reader
//vx:note environment: os.Open/OpenFile/ReadFile/Stat record events and answer with a symbolic success/failure; http.Client.Get records an event; list bodies are a fixed two-line text; JSON decoding of the request bodies is replaced by handing over the decoded struct (the handlers run from there on); engine rebuild (setFilters) is a no-op
//vx:note reference: glob matching for the concrete patterns is a token-wise dynamic-programming matcher written in the harness; filepath.Clean and (for symbolic patterns only) filepath.Match of the standard library are trusted and applied to the recorded argument of os.Open
//vx:note outside: symlinks, Windows paths, what http.Client does with a non-http URL that is only present in the configuration file (refresh hands every non-absolute location to the HTTP client), os.Stat of a not-yet-validated absolute path at add/set-url time (happens before the pattern check; it does not read the file), the static closed-world scan of os.Open call sites (only the dynamic form: every os.Open/OpenFile/ReadFile reached is recorded and must be the guarded one or the cache file DataDir/filters/<id>.txt)

import (
	"encoding/json"
	"io"
	"io/fs"
	"net/http"
	"net/url"
	"os"
	"path/filepath"
	"time"

	"github.com/AdguardTeam/AdGuardHome/internal/aghrenameio"
	"github.com/AdguardTeam/AdGuardHome/internal/vx"
	"github.com/AdguardTeam/golibs/errors"
)

const (
	vxC17ErrIO   errors.Error = "vx: i/o failure"
	vxC17DataDir              = "/vxdata"
	vxC17Cache                = "/vxdata/filters/"
	vxC17Body                 = "! Title: t\n||x.example^\n"
	vxC17OldURL               = "https://old.example/l.txt"
)

const (
	vxC17EvOpen = iota
	vxC17EvStat
	vxC17EvHTTP
)

type vxC17Event struct {
	kind int
	arg  string
}

var vxC17Env struct {
	log      []vxC17Event
	pos      int
	modified int
	tick     int64
	addReq   filterAddJSON
	setReq   filterURLReq
}

func vxC17Reset() {
	vxC17Env.log = nil
	vxC17Env.pos = 0
	vxC17Env.modified = 0
	vxC17Env.tick = 0
}

// ---- environment ----

func vxC17IsCache(name string) bool {
	return len(name) > len(vxC17Cache) && name[:len(vxC17Cache)] == vxC17Cache
}

func vxC17OpenEvent(name string) (*os.File, error) {
	if vxC17IsCache(name) {
		// the stored copy of a list: DataDir/filters/<id>.txt
		return nil, &fs.PathError{Op: "open", Path: name, Err: fs.ErrNotExist}
	}
	vxC17Env.log = append(vxC17Env.log, vxC17Event{vxC17EvOpen, name})
	if vx.Bool("openFails") {
		return nil, &fs.PathError{Op: "open", Path: name, Err: vxC17ErrIO}
	}
	vxC17Env.pos = 0
	return &os.File{}, nil
}

func vxC17Open(name string) (*os.File, error) { return vxC17OpenEvent(name) }

func vxC17OpenFile(name string, flag int, perm fs.FileMode) (*os.File, error) {
	return vxC17OpenEvent(name)
}

func vxC17ReadFile(name string) ([]byte, error) {
	_, err := vxC17OpenEvent(name)
	if err != nil {
		return nil, err
	}
	return []byte(vxC17Body), nil
}

func vxC17Stat(name string) (fs.FileInfo, error) {
	vxC17Env.log = append(vxC17Env.log, vxC17Event{vxC17EvStat, name})
	if vx.Bool("statFails") {
		return nil, &fs.PathError{Op: "stat", Path: name, Err: fs.ErrNotExist}
	}
	return nil, nil
}

// vxC17URLString: URLs are rendered in error messages only.
func vxC17URLString(u *url.URL) string { return "vx-url" }

func vxC17Getwd() (string, error) { return "/w", nil }

func vxC17MkdirAll(path string, perm fs.FileMode) error { return nil }

func vxC17Chtimes(name string, atime, mtime time.Time) error { return nil }

func vxC17Remove(name string) error { return nil }

func vxC17Rename(from, to string) error { return nil }

func vxC17Now() time.Time {
	vxC17Env.tick++
	return time.Unix(1_700_000_000+vxC17Env.tick, 0)
}

type vxC17Src struct{}

func (vxC17Src) Read(p []byte) (int, error) {
	if vxC17Env.pos >= len(vxC17Body) {
		return 0, io.EOF
	}
	n := copy(p, vxC17Body[vxC17Env.pos:])
	vxC17Env.pos += n
	return n, nil
}

func (vxC17Src) Close() error { return nil }

func vxC17FileRead(f *os.File, p []byte) (int, error) { return vxC17Src{}.Read(p) }

func vxC17FileClose(f *os.File) error { return nil }

func vxC17Get(c *http.Client, url string) (*http.Response, error) {
	vxC17Env.log = append(vxC17Env.log, vxC17Event{vxC17EvHTTP, url})
	if vx.Bool("getFails") {
		return nil, vxC17ErrIO
	}
	vxC17Env.pos = 0
	return &http.Response{StatusCode: http.StatusOK, Body: vxC17Src{}}, nil
}

type vxC17Pending struct{}

func (vxC17Pending) Write(b []byte) (int, error) { return len(b), nil }
func (vxC17Pending) Cleanup() error              { return nil }
func (vxC17Pending) CloseReplace() error         { return nil }

func vxC17NewPending(filePath string, mode fs.FileMode) (aghrenameio.PendingFile, error) {
	return vxC17Pending{}, nil
}

func vxC17SetFilters(d *DNSFilter, block, allow []Filter, async bool) error { return nil }

// vxC17Decode stands for the JSON codec: the request body decodes to the
// struct prepared by the entry.
func vxC17Decode(dec *json.Decoder, v any) error {
	switch p := v.(type) {
	case *filterAddJSON:
		*p = vxC17Env.addReq
	case *filterURLReq:
		data := *vxC17Env.setReq.Data
		*p = vxC17Env.setReq
		p.Data = &data
	}
	return nil
}

type vxC17Writer struct {
	h    http.Header
	code int
	n    int
}

func (w *vxC17Writer) Header() http.Header { return w.h }
func (w *vxC17Writer) WriteHeader(c int)   { w.code = c }
func (w *vxC17Writer) Write(b []byte) (int, error) {
	w.n += len(b)
	return len(b), nil
}

// ---- inputs ----

var vxC17Family = []string{"/a/*", "/a/*/*", "/a/b?", "/[ab]/c", "/a/b"}

// vxC17PatternList: empty, every family member alone, two pairs.
func vxC17PatternList() []string {
	k := vx.Choice("patterns", len(vxC17Family)+3)
	switch {
	case k == 0:
		return nil
	case k <= len(vxC17Family):
		return []string{vxC17Family[k-1]}
	case k == len(vxC17Family)+1:
		return []string{"/a/b", "/a/*/*"}
	default:
		return []string{"/[ab]/c", "/a/b?"}
	}
}

type vxC17Loc struct {
	s   string
	abs bool
}

var vxC17Schemes = []string{"http:", "https:", "HtTp:", "file:", "ftp:"}

var vxC17Tails = []string{"//h.example/l.txt", "//h", "///a/b", "/a/b", "a/b", "//../a/b", ""}

// vxC17Bounds are the input bounds of one entry.
type vxC17Bounds struct {
	absAll  int  // absolute: symbolic bytes after the leading '/', under every pattern list
	absDeep int  // absolute: longer locations, under the list {/a/*/*} only
	rel     int  // non-absolute free-form: symbolic bytes
	tail    int  // URL-looking: symbolic bytes after the scheme prefix
	fixed   bool // URL-looking: the scheme prefix is followed by one of vxC17Tails instead
	tmpl    bool // absolute template /a/XX/X (3 symbolic bytes) under every pattern list
}

// vxC17Sym returns n symbolic bytes: the full byte range in the thorough tier,
// ASCII in the quick tier.
func vxC17Sym(n int) string {
	s := vx.String("loc", n)
	if !vx.Thorough() {
		hi := byte(0)
		for i := 0; i < n; i++ {
			hi |= s[i]
		}
		vx.Assume(hi < 0x80)
	}
	return s
}

// vxC17Input draws a location and a pattern list.
func vxC17Input(b vxC17Bounds) (loc vxC17Loc, pats []string) {
	switch vx.Choice("shape", 4) {
	case 0:
		n := vx.Choice("abslen", max(b.absAll, b.absDeep)+1)
		loc = vxC17Loc{s: "/" + vxC17Sym(n), abs: true}
		if n > b.absAll {
			return loc, []string{"/a/*/*"}
		}
		return loc, vxC17PatternList()
	case 1:
		n := vx.Choice("rellen", b.rel+1)
		s := vxC17Sym(n)
		if n > 0 {
			vx.Assume(s[0] != '/')
		}
		loc = vxC17Loc{s: s}
	case 2:
		p := vxC17Schemes[vx.Choice("scheme", len(vxC17Schemes))]
		if b.fixed {
			loc = vxC17Loc{s: p + vxC17Tails[vx.Choice("tail", len(vxC17Tails))]}
		} else {
			loc = vxC17Loc{s: p + vxC17Sym(vx.Choice("taillen", b.tail+1))}
		}
	default:
		if !b.tmpl {
			vx.Assume(false)
		}
		t := vxC17Sym(3)
		return vxC17Loc{s: "/a/" + t[:2] + "/" + t[2:], abs: true}, vxC17PatternList()
	}
	// non-absolute locations never get as far as the patterns
	if vx.Bool("nopatterns") {
		return loc, nil
	}
	return loc, []string{"/a/*"}
}

// ---- reference ----

// vxC17Glob is the reference glob matcher for the concrete patterns of the
// family: literal bytes, '?', '*' (both never match '/'), and positive classes
// '[xy]' / '[x-y]'.  It is a DP over (token, offset) built from non-forking
// connectives, so s may be symbolic (its length is concrete).
func vxC17Glob(pat, s string) bool {
	type tok struct {
		kind   byte // 'l' literal, '?', '*', '['
		c      byte
		lo, hi []byte
	}
	var toks []tok
	for i := 0; i < len(pat); i++ {
		switch pat[i] {
		case '*', '?':
			toks = append(toks, tok{kind: pat[i]})
		case '[':
			t := tok{kind: '['}
			i++
			for pat[i] != ']' {
				lo, hi := pat[i], pat[i]
				if pat[i+1] == '-' {
					hi = pat[i+2]
					i += 2
				}
				t.lo, t.hi = append(t.lo, lo), append(t.hi, hi)
				i++
			}
			toks = append(toks, t)
		default:
			toks = append(toks, tok{kind: 'l', c: pat[i]})
		}
	}
	m := len(s)
	cont := func(j int) bool { return vx.And(s[j] >= 0x80, s[j] < 0xc0) }
	next := make([]bool, m+1)
	next[m] = true
	for i := len(toks) - 1; i >= 0; i-- {
		t := toks[i]
		cur := make([]bool, m+1)
		for j := m; j >= 0; j-- {
			v := false
			switch t.kind {
			case '*':
				v = next[j]
				if j < m {
					v = vx.Or(v, vx.And(s[j] != '/', cur[j+1]))
				}
			case 'l':
				if j < m {
					v = vx.And(s[j] == t.c, next[j+1])
				}
			case '?':
				// one character: one byte, or one multi-byte UTF-8 sequence
				// (over-approximated by lead byte + continuation bytes)
				if j < m {
					v = vx.And(s[j] != '/', next[j+1])
				}
				if j+1 < m {
					v = vx.Or(v, vx.And(vx.And(s[j] >= 0xc0, cont(j+1)), next[j+2]))
				}
				if j+2 < m {
					v = vx.Or(v, vx.And(vx.And(s[j] >= 0xe0, vx.And(cont(j+1), cont(j+2))), next[j+3]))
				}
				if j+3 < m {
					v = vx.Or(v, vx.And(vx.And(s[j] >= 0xf0, vx.And(cont(j+1), vx.And(cont(j+2), cont(j+3)))), next[j+4]))
				}
			case '[':
				if j < m {
					in := false
					for k := range t.lo {
						in = vx.Or(in, vx.And(s[j] >= t.lo[k], s[j] <= t.hi[k]))
					}
					v = vx.And(in, next[j+1])
				}
			}
			cur[j] = v
		}
		next = cur
	}
	return next[0]
}

func vxC17Any(pats []string, s string) bool {
	ok := false
	for _, g := range pats {
		ok = vx.Or(ok, vxC17Glob(g, s))
	}
	return ok
}

// vxC17IsClean: absolute, no empty / "." / ".." segment, no trailing
// separator (except the root).  No forks.
func vxC17IsClean(p string) bool {
	n := len(p)
	if n == 0 {
		return false
	}
	ok := p[0] == '/'
	if n > 1 {
		ok = vx.And(ok, p[n-1] != '/')
	}
	for i := 0; i+1 < n; i++ {
		// a segment starting at i+1 that is empty, "." or ".."
		end := func(k int) bool { return k == n || p[k] == '/' }
		bad := p[i+1] == '/'
		if i+2 <= n {
			bad = vx.Or(bad, vx.And(p[i+1] == '.', end(i+2)))
		}
		if i+3 <= n {
			bad = vx.Or(bad, vx.And(vx.And(p[i+1] == '.', p[i+2] == '.'), end(i+3)))
		}
		ok = vx.And(ok, !vx.And(p[i] == '/', bad))
	}
	return ok
}

// vxC17HTTPScheme: the location starts with "http:" or "https:" in any
// letter case.
func vxC17HTTPScheme(s string) bool {
	low := func(i int, c byte) bool { return s[i]|0x20 == c }
	http4 := len(s) >= 5
	if !http4 {
		return false
	}
	h := vx.And(vx.And(low(0, 'h'), low(1, 't')), vx.And(low(2, 't'), low(3, 'p')))
	r := vx.And(h, s[4] == ':')
	if len(s) >= 6 {
		r = vx.Or(r, vx.And(h, vx.And(low(4, 's'), s[5] == ':')))
	}
	return r
}

// vxC17Ref is the reference verdict on one location under one pattern list.
type vxC17Ref struct {
	loc     vxC17Loc
	pats    []string
	clean   string // cleaned location (absolute locations only)
	allowed bool   // absolute and the cleaned form matches a pattern
	rawHit  bool   // the location as spelled matches a pattern
	http    bool   // non-absolute with an http(s) scheme
	match   func(pats []string, s string) bool
}

func vxC17NewRef(loc vxC17Loc, pats []string, match func([]string, string) bool) *vxC17Ref {
	r := &vxC17Ref{loc: loc, pats: pats, match: match}
	if match == nil {
		// symbolic patterns: the standard library's matcher on the recorded argument
		r.match = vxC17StdAny
		r.clean = filepath.Clean(loc.s)
		return r
	}
	if loc.abs {
		r.clean = filepath.Clean(loc.s)
		r.allowed = match(pats, r.clean)
		r.rawHit = match(pats, loc.s)
	} else {
		r.http = vxC17HTTPScheme(loc.s)
	}
	return r
}

// vxC17CheckEvents asserts the property on the recorded file-system and
// network events; api is true for the add / set-url entry points.  It returns
// whether a local file was opened and whether the HTTP client was used.
func (r *vxC17Ref) checkEvents(api bool) (opened, fetched bool) {
	for _, e := range vxC17Env.log {
		switch e.kind {
		case vxC17EvOpen:
			opened = true
			vx.Assert(r.loc.abs, "a non-absolute location never makes the server open a local file")
			if !r.loc.abs {
				continue
			}
			vx.Assert(len(r.pats) > 0, "with no safe patterns configured no local file is opened")
			vx.Assert(e.arg == r.clean, "the file opened is the cleaned form of the configured location")
			vx.Assert(vxC17IsClean(e.arg), "the path opened is absolute and free of dot-dot, dot, empty segments")
			vx.Assert(r.match(r.pats, e.arg), "the file opened matches a configured safe pattern")
		case vxC17EvHTTP:
			fetched = true
			vx.Assert(!r.loc.abs, "an absolute path is never handed to the HTTP client")
			vx.Assert(e.arg == r.loc.s, "the URL fetched is the configured location")
			if api && !r.loc.abs {
				vx.Assert(r.http, "add / set-url fetch http(s) URLs only")
			}
		}
	}
	return opened, fetched
}

// permitted: what add / set-url may store.
func (r *vxC17Ref) permitted() bool {
	if r.loc.abs {
		return r.allowed
	}
	return r.http
}

// reachRejected marks the rejection classes (forks on symbolic verdicts; the
// path ends right after).
func (r *vxC17Ref) reachRejected(prefix string) {
	if r.loc.abs {
		if len(r.pats) == 0 {
			vx.Reach(prefix + "-nopatterns-rejected")
			return
		}
		if !r.allowed {
			vx.Reach(prefix + "-unsafe-rejected")
			if r.rawHit {
				// e.g. /a/../b against /a/*/*
				vx.Reach(prefix + "-escape-rejected")
			}
		}
		return
	}
	if !r.http {
		vx.Reach(prefix + "-scheme-rejected")
	}
}

func vxC17Filter(pats []string) *DNSFilter {
	c := &Config{
		SafeFSPatterns:             pats,
		DataDir:                    vxC17DataDir,
		HTTPClient:                 &http.Client{},
		FiltersUpdateIntervalHours: 24,
		FilteringEnabled:           true,
		ConfigModified:             func() { vxC17Env.modified++ },
	}
	d, err := New(c, nil)
	if err != nil {
		vx.Fail("filtering.New rejects a valid pattern list")
		vx.Assume(false)
	}
	return d
}

func vxC17Tier(quick, thorough vxC17Bounds) vxC17Bounds {
	if vx.Thorough() {
		return thorough
	}
	return quick
}

// ---- entries ----

// vxC17Validate: the validation used by add and set-url accepts a location
// only if it is an absolute path whose cleaned form matches a safe pattern, or
// an http(s) URL.
func vxC17Validate() {
	vxC17Reset()
	loc, pats := vxC17Input(vxC17Tier(vxC17Bounds{absAll: 5, absDeep: 6, rel: 3, tail: 3}, vxC17Bounds{absAll: 5, absDeep: 7, rel: 4, tail: 4}))
	d := vxC17Filter(pats)
	ref := vxC17NewRef(loc, pats, vxC17Any)

	err := d.validateFilterURL(loc.s)

	opened, fetched := ref.checkEvents(true)
	vx.Assert(!opened && !fetched, "validation itself neither opens a file nor fetches")
	if err == nil {
		vx.Assert(ref.permitted(), "a location is accepted only if it is an absolute path whose cleaned form matches a safe pattern, or an http(s) URL")
		if loc.abs {
			vx.Reach("v-file-accepted")
			if loc.s != ref.clean {
				vx.Reach("v-unclean-accepted")
			}
		} else {
			vx.Reach("v-http-accepted")
		}
		return
	}
	if loc.abs && len(vxC17Env.log) > 0 && len(pats) > 0 && ref.allowed {
		vx.Reach("v-stat-failed")
	}
	ref.reachRejected("v")
	if !loc.abs && len(loc.s) > 0 && loc.s[0] == '.' {
		vx.Reach("v-relative-rejected")
	}
}

// vxC17Refresh: a location that is in the configuration (however it got
// there) is re-checked at every refresh, immediately before the file is opened.
func vxC17Refresh() {
	vxC17Reset()
	loc, pats := vxC17Input(vxC17Tier(vxC17Bounds{absAll: 5, absDeep: 6, rel: 8, tail: 4}, vxC17Bounds{absAll: 6, absDeep: 7, rel: 10, tail: 6}))
	ref := vxC17NewRef(loc, pats, vxC17Any)
	white := vx.Bool("allowlist")

	c := &Config{
		SafeFSPatterns:             pats,
		DataDir:                    vxC17DataDir,
		HTTPClient:                 &http.Client{},
		FiltersUpdateIntervalHours: 24,
		FilteringEnabled:           true,
		ConfigModified:             func() { vxC17Env.modified++ },
	}
	list := []FilterYAML{{Enabled: true, URL: loc.s, Name: "l", Filter: Filter{ID: 3}}}
	if white {
		vx.Reach("r-allowlist")
		c.WhitelistFilters = list
	} else {
		c.Filters = list
	}
	d, err := New(c, nil)
	vx.Assert(err == nil, "filtering.New accepts a valid pattern list")
	if err != nil {
		return
	}
	vx.Assert(len(vxC17Env.log) == 0, "start-up reads stored copies only")

	rounds := 1
	if vx.Thorough() {
		rounds = 2
	}
	for i := 0; i < rounds; i++ {
		vxC17Env.log = nil
		_, _, ok := d.tryRefreshFilters(true, true, true)
		vx.Assert(ok, "refresh runs")
		opened, fetched := ref.checkEvents(false)
		switch {
		case opened:
			vx.Reach("r-opened")
			if loc.s != ref.clean {
				vx.Reach("r-unclean-opened")
			}
		case fetched:
			vx.Reach("r-http")
		default:
			if len(pats) == 0 {
				vx.Reach("r-nopatterns-blocked")
			} else if !ref.allowed {
				vx.Reach("r-unsafe-blocked")
				if ref.rawHit {
					vx.Reach("r-escape-blocked")
				}
			}
		}
	}
}

// vxC17Add: POST /control/filtering/add_url from the decoded body on.
func vxC17Add() {
	vxC17Reset()
	loc, pats := vxC17Input(vxC17Tier(vxC17Bounds{absAll: 4, tmpl: true, rel: 2, fixed: true}, vxC17Bounds{absAll: 5, absDeep: 6, tmpl: true, rel: 3, fixed: true}))
	d := vxC17Filter(pats)
	ref := vxC17NewRef(loc, pats, vxC17Any)
	white := vx.Bool("allowlist")
	vxC17Env.addReq = filterAddJSON{Name: "n", URL: loc.s, Whitelist: white}

	w := &vxC17Writer{h: http.Header{}}
	d.handleFilteringAddURL(w, &http.Request{Method: http.MethodPost})

	ref.checkEvents(true)
	stored := len(d.conf.Filters) + len(d.conf.WhitelistFilters)
	vx.Assert(stored <= 1, "one request adds at most one list")
	if stored == 1 {
		vx.Assert(ref.permitted(), "a list is added only if its location is an absolute path whose cleaned form matches a safe pattern, or an http(s) URL")
		if loc.abs {
			vx.Reach("a-file-added")
		} else {
			vx.Reach("a-http-added")
		}
		return
	}
	vx.Assert(w.code == http.StatusBadRequest, "a refused list is answered with 400")
	ref.reachRejected("a")
}

// vxC17SetURL: POST /control/filtering/set_url from the decoded body on; the
// existing list points to a remote URL and is edited to the location.
func vxC17SetURL() {
	vxC17Reset()
	loc, pats := vxC17Input(vxC17Tier(vxC17Bounds{absAll: 4, tmpl: true, rel: 2, fixed: true}, vxC17Bounds{absAll: 5, absDeep: 6, tmpl: true, rel: 3, fixed: true}))
	d := vxC17Filter(pats)
	ref := vxC17NewRef(loc, pats, vxC17Any)
	wasEnabled, enabled := vx.Bool("wasEnabled"), vx.Bool("enabled")
	d.conf.Filters = []FilterYAML{{Enabled: wasEnabled, URL: vxC17OldURL, Name: "old", Filter: Filter{ID: 5}}}
	vxC17Env.setReq = filterURLReq{
		URL:  vxC17OldURL,
		Data: &filterURLReqData{Name: "n", URL: loc.s, Enabled: enabled},
	}

	w := &vxC17Writer{h: http.Header{}}
	d.handleFilteringSetURL(w, &http.Request{Method: http.MethodPost})

	opened, fetched := ref.checkEvents(true)
	vx.Assert(len(d.conf.Filters) == 1 && len(d.conf.WhitelistFilters) == 0, "set-url keeps the number of lists")
	now := d.conf.Filters[0].URL
	if now == vxC17OldURL {
		if w.code == http.StatusBadRequest {
			if opened || fetched {
				vx.Reach("s-rolled-back")
			}
			ref.reachRejected("s")
		}
		return
	}
	vx.Assert(now == loc.s, "the stored location is the old or the requested one")
	vx.Assert(ref.permitted(), "a location is stored only if it is an absolute path whose cleaned form matches a safe pattern, or an http(s) URL")
	if !enabled {
		vx.Reach("s-stored-disabled")
		vx.Assert(!opened && !fetched, "a disabled list is not fetched")
	}
	if loc.abs {
		vx.Reach("s-file-stored")
	} else {
		vx.Reach("s-http-stored")
	}
}

// ---- symbolic patterns (thorough) ----

// vxC17StdAny applies the standard library's glob matcher (trusted) to s.
func vxC17StdAny(pats []string, s string) bool {
	for _, g := range pats {
		if ok, err := filepath.Match(g, s); err == nil && ok {
			return true
		}
	}
	return false
}

func vxC17Has(s string, c byte) bool {
	r := false
	for i := 0; i < len(s); i++ {
		r = vx.Or(r, s[i] == c)
	}
	return r
}

// vxC17Patterns: one symbolic pattern over the glob alphabet against a
// symbolic absolute location, through the refresh-time reader.
func vxC17Patterns() {
	vxC17Reset()
	const alphabet = "/*?[]-\\ab.^"
	n := vx.Choice("patlen", 4)
	pb := vx.String("pat", n)
	for i := 0; i < n; i++ {
		in := false
		for j := 0; j < len(alphabet); j++ {
			in = vx.Or(in, pb[i] == alphabet[j])
		}
		vx.Assume(in)
	}
	pats := []string{"/" + pb}
	c := &Config{
		SafeFSPatterns: pats,
		DataDir:        vxC17DataDir,
		HTTPClient:     &http.Client{},
	}
	d, err := New(c, nil)
	if err != nil {
		vx.Reach("p-bad-pattern")
		return
	}
	loc := vxC17Loc{s: "/" + vx.String("loc", vx.Choice("abslen", 4)), abs: true}
	ref := vxC17NewRef(loc, pats, nil)
	if _, bad := filepath.Match(pats[0], ref.clean); bad != nil {
		// pathMatchesAny's contract: "globs must be valid".  filtering.New
		// checks with filepath.Match(p, "test"), which does not look at the
		// chunks behind a '*' once an earlier chunk mismatches (e.g. "/*["):
		// such a pattern makes pathMatchesAny panic later; no file is read.
		return
	}

	r, err := d.reader(loc.s)

	opened, _ := ref.checkEvents(false)
	if opened {
		vx.Reach("p-opened")
		if vxC17Has(pb, '*') {
			vx.Reach("p-star")
		}
		if vxC17Has(pb, '[') {
			vx.Reach("p-class")
		}
		if vxC17Has(pb, '\\') {
			vx.Reach("p-escape-char")
		}
	} else {
		vx.Assert(r == nil && err != nil, "no reader without an opened file")
		vx.Reach("p-blocked")
	}
}
