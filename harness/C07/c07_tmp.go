//go:build verif

package querylog

//vx:overlay internal/querylog/zz_vx_c07t.go
//vx:entry vxC07Tmp

import (
	"context"
	"log/slog"

	"github.com/AdguardTeam/AdGuardHome/internal/vx"
)

func vxC07Tmp() {
	l := &queryLog{logger: slog.Default()}
	e := &logEntry{}
	l.decodeLogEntry(context.Background(), e, `{"T":"2024-05-06T07:08:09.123456789Z","QH":"ab.cd","QT":"A","QC":"IN","CP":"","IP":"1.2.3.4","Result":{"IsFiltered":true,"Reason":3},"Elapsed":7}`)
	vx.Assert(e.QHost == "ab.cd", "host")
	vx.Assert(e.Result.Reason == 3, "reason")
}
