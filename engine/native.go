package main

// Native replay: turn a counterexample into an ordinary `go test` against the
// natively compiled repository.  The harness runs unchanged (package vx reads
// the model from $VX_REPLAY); every `//vx:stub F H` is realised by an overlay
// copy of F's source file in which F is renamed to F__vxorig and replaced by a
// wrapper that calls the hook variable VxStub_<n> (set to H by a generated
// init function in the harness package) when it is non-nil.
//
// Not every harness can be replayed natively: engine-only facilities
// (vx.LazyObject, vx.Guard/Held, //vx:stubdyn, stubs whose harness signature
// uses different types than the callee, generic callees) have no native
// counterpart; then the engine's concrete re-execution is the only replay.

import (
	"bytes"
	"encoding/json"
	"fmt"
	"go/ast"
	"go/token"
	"go/types"
	"os"
	"os/exec"
	"path/filepath"
	"sort"
	"strings"

	"golang.org/x/tools/go/ssa"
)

type nativePlan struct {
	overlay map[string]string // virtual path -> real file with content
	dir     string
	notes   []string
}

func findSSAFunc(prog *ssa.Program, name string) *ssa.Function {
	for _, pkg := range prog.AllPackages() {
		for _, m := range pkg.Members {
			switch m := m.(type) {
			case *ssa.Function:
				if m.String() == name {
					return m
				}
			case *ssa.Type:
				for _, t := range []types.Type{m.Type(), types.NewPointer(m.Type())} {
					ms := prog.MethodSets.MethodSet(t)
					for i := 0; i < ms.Len(); i++ {
						f := prog.MethodValue(ms.At(i))
						if f != nil && f.String() == name && f.Synthetic == "" {
							return f
						}
					}
				}
			}
		}
	}
	return nil
}

func nativeReplay(h *Harness, cfg *Config, entry *EntrySpec, cexPath string, keep bool) (reproduced bool, out string, err error) {
	if len(h.StubDyn) > 0 {
		return false, "", fmt.Errorf("native replay unavailable: harness uses //vx:stubdyn")
	}
	if abs, aerr := filepath.Abs(cexPath); aerr == nil {
		cexPath = abs
	}
	if _, serr := os.Stat(cexPath); serr != nil {
		return false, "", serr
	}
	dir, err := os.MkdirTemp(filepath.Join(verifDir(), ".work"), "native-")
	if err != nil {
		os.MkdirAll(filepath.Join(verifDir(), ".work"), 0o755)
		dir, err = os.MkdirTemp(filepath.Join(verifDir(), ".work"), "native-")
		if err != nil {
			return false, "", err
		}
	}
	if !keep {
		defer os.RemoveAll(dir)
	}
	ov := map[string]string{}
	n := 0
	put := func(virtual string, content []byte) {
		n++
		real := filepath.Join(dir, fmt.Sprintf("f%03d_%s", n, filepath.Base(virtual)))
		os.WriteFile(real, content, 0o644)
		ov[virtual] = real
	}
	// harness files, vx package and constant rewrites as loaded
	for virt, content := range cfg.overlay {
		put(virt, content)
	}
	// group stubs by the source file of the callee
	type edit struct {
		fn      *ssa.Function
		decl    *ast.FuncDecl
		hookVar string
		harness *ssa.Function
	}
	edits := map[string][]edit{}
	hookInits := map[string][]string{} // harness package dir -> init lines
	hookImports := map[string]map[string]string{}
	idx := 0
	names := []string{}
	for callee := range cfg.stubs {
		names = append(names, callee)
	}
	sort.Strings(names)
	for _, callee := range names {
		hf := cfg.stubs[callee]
		fn := findSSAFunc(cfg.prog, callee)
		if fn == nil {
			return false, "", fmt.Errorf("native replay: callee %s not found", callee)
		}
		decl, ok := fn.Syntax().(*ast.FuncDecl)
		if !ok || decl == nil {
			return false, "", fmt.Errorf("native replay: no source for %s", callee)
		}
		if fn.TypeParams().Len() > 0 || (fn.Signature.Recv() != nil && hasTypeParams(fn.Signature.Recv().Type())) {
			return false, "", fmt.Errorf("native replay unavailable: generic callee %s", callee)
		}
		idx++
		file := cfg.prog.Fset.Position(decl.Pos()).Filename
		e := edit{fn: fn, decl: decl, hookVar: fmt.Sprintf("VxStub_%d", idx), harness: hf}
		edits[file] = append(edits[file], e)
		hp := hf.Pkg.Pkg
		hdir := filepath.Join(repoDir, strings.TrimPrefix(hp.Path(), repoMod+"/"))
		cp := fn.Pkg.Pkg
		line := ""
		if cp.Path() == hp.Path() {
			line = fmt.Sprintf("\t%s = %s\n", e.hookVar, hf.Name())
		} else {
			alias := fmt.Sprintf("vxp%d", idx)
			if hookImports[hdir] == nil {
				hookImports[hdir] = map[string]string{}
			}
			hookImports[hdir][alias] = cp.Path()
			line = fmt.Sprintf("\t%s.%s = %s\n", alias, e.hookVar, hf.Name())
		}
		hookInits[hdir+"|"+hp.Name()] = append(hookInits[hdir+"|"+hp.Name()], line)
	}
	// rewrite callee files
	for file, es := range edits {
		src, ok := cfg.overlay[file]
		if !ok {
			src, err = os.ReadFile(file)
			if err != nil {
				return false, "", err
			}
		}
		pkg := es[0].fn.Pkg.Pkg
		qual := func(p *types.Package) string {
			if p == pkg {
				return ""
			}
			return p.Name()
		}
		// apply renames from the end of the file to the start
		sort.Slice(es, func(i, j int) bool { return es[i].decl.Name.Pos() > es[j].decl.Name.Pos() })
		out := append([]byte(nil), src...)
		var extra bytes.Buffer
		for _, e := range es {
			off := cfg.prog.Fset.Position(e.decl.Name.Pos()).Offset
			end := off + len(e.decl.Name.Name)
			orig := e.decl.Name.Name + "__vxorig"
			out = append(out[:end:end], append([]byte("__vxorig"), out[end:]...)...)
			sig := e.fn.Signature
			var ptypes, pnames, call []string
			recvDecl, recvName := "", ""
			if r := sig.Recv(); r != nil {
				recvName = "vxr"
				recvDecl = fmt.Sprintf("(%s %s) ", recvName, types.TypeString(r.Type(), qual))
				ptypes = append(ptypes, types.TypeString(r.Type(), qual))
				call = append(call, recvName)
			}
			for i := 0; i < sig.Params().Len(); i++ {
				pt := sig.Params().At(i).Type()
				ts := types.TypeString(pt, qual)
				nm := fmt.Sprintf("vxa%d", i)
				if sig.Variadic() && i == sig.Params().Len()-1 {
					ts = "..." + types.TypeString(pt.(*types.Slice).Elem(), qual)
					ptypes = append(ptypes, ts)
					call = append(call, nm)
				} else {
					ptypes = append(ptypes, ts)
					call = append(call, nm)
				}
				pnames = append(pnames, nm+" "+ts)
			}
			var rtypes []string
			for i := 0; i < sig.Results().Len(); i++ {
				rtypes = append(rtypes, types.TypeString(sig.Results().At(i).Type(), qual))
			}
			res := ""
			if len(rtypes) > 0 {
				res = " (" + strings.Join(rtypes, ", ") + ")"
			}
			ret := "return "
			if len(rtypes) == 0 {
				ret = ""
			}
			fmt.Fprintf(&extra, "\n// %s is set by the /verif harness for native replay.\nvar %s func(%s)%s\n", e.hookVar, e.hookVar, strings.Join(ptypes, ", "), res)
			origCallArgs := call
			origCall := ""
			if recvName != "" {
				origCall = recvName + "." + orig + "(" + joinVariadic(origCallArgs[1:], sig.Variadic()) + ")"
			} else {
				origCall = orig + "(" + joinVariadic(origCallArgs, sig.Variadic()) + ")"
			}
			// the hook is not re-entered from inside itself (a stub may call the
			// real callee), exactly like the interpreter's insideStub rule
			fmt.Fprintf(&extra, "var %s_in bool\n", e.hookVar)
			fmt.Fprintf(&extra, "func %s%s(%s)%s {\n\tif %s != nil && !%s_in {\n\t\t%s_in = true\n\t\tdefer func() { %s_in = false }()\n\t\t%s%s(%s)\n\t\treturn\n\t}\n\t%s%s\n}\n",
				recvDecl, e.decl.Name.Name, strings.Join(pnames, ", "), res,
				e.hookVar, e.hookVar, e.hookVar, e.hookVar, ret, e.hookVar, joinVariadic(call, sig.Variadic()), ret, origCall)
		}
		// `return f(); return` is invalid when there are results: fix up
		txt := strings.ReplaceAll(extra.String(), ")\n\t\treturn\n\t}\n\treturn ", ")\n\t}\n\treturn ")
		out = append(out, []byte(txt)...)
		put(file, out)
	}
	// hook initialisers in the harness packages
	for key, lines := range hookInits {
		hdir, pname, _ := strings.Cut(key, "|")
		var b bytes.Buffer
		fmt.Fprintf(&b, "//go:build verif\n\npackage %s\n\n", pname)
		if imps := hookImports[hdir]; len(imps) > 0 {
			b.WriteString("import (\n")
			aliases := []string{}
			for a := range imps {
				aliases = append(aliases, a)
			}
			sort.Strings(aliases)
			for _, a := range aliases {
				fmt.Fprintf(&b, "\t%s %q\n", a, imps[a])
			}
			b.WriteString(")\n\n")
		}
		b.WriteString("func init() {\n")
		for _, l := range lines {
			b.WriteString(l)
		}
		b.WriteString("}\n")
		put(filepath.Join(hdir, "zz_vx_nativehooks.go"), b.Bytes())
	}
	// the test driver
	ep := entry.Fn.Pkg.Pkg
	edir := filepath.Join(repoDir, strings.TrimPrefix(ep.Path(), repoMod+"/"))
	test := fmt.Sprintf(`//go:build verif

package %s

import (
	"testing"

	"%s/internal/vx"
)

func TestVxNativeReplay(t *testing.T) {
	defer func() {
		if r := recover(); r != nil {
			for _, n := range vx.Notes {
				t.Logf("VXNOTE: %%s", n)
			}
			if af, ok := r.(vx.AssumeFailed); ok {
				t.Logf("VXASSUMEFAILED at %%s", af.Where)
				t.Skip("an assumption does not hold natively for this model")
			}
			t.Fatalf("VXPANIC: %%v", r)
		}
	}()
	vx.Reset()
	%s()
	for _, n := range vx.Notes {
		t.Logf("VXNOTE: %%s", n)
	}
	for _, f := range vx.Failures {
		t.Errorf("VXVIOLATED: %%s", f)
	}
}
`, ep.Name(), repoMod, entry.Fn.Name())
	put(filepath.Join(edir, "zz_vx_nativereplay_test.go"), []byte(test))

	ovJSON, _ := json.Marshal(map[string]any{"Replace": ov})
	ovPath := filepath.Join(dir, "overlay.json")
	os.WriteFile(ovPath, ovJSON, 0o644)
	rel := "./" + strings.TrimPrefix(ep.Path(), repoMod+"/")
	cmd := exec.Command("go", "test", "-mod=mod", "-tags", "verif", "-vet=off", "-count=1", "-overlay", ovPath, "-run", "^TestVxNativeReplay$", "-v", rel)
	cmd.Dir = repoDir
	var cexData struct {
		Model map[string]uint64 `json:"model"`
	}
	if cb, rerr := os.ReadFile(cexPath); rerr == nil {
		json.Unmarshal(cb, &cexData)
	}
	var mb strings.Builder
	for k, v := range cexData.Model {
		fmt.Fprintf(&mb, "%s\x1f%d\x1e", k, v)
	}
	tier := "quick"
	if cfg.Thorough {
		tier = "thorough"
	}
	cmd.Env = append(os.Environ(), "VX_MODEL="+mb.String(), "VERIF_TIER="+tier, "GOFLAGS=-mod=mod", "GOPROXY=off", "GOSUMDB=off", "GOTOOLCHAIN=local", "CGO_ENABLED=0")
	b, runErr := cmd.CombinedOutput()
	out = string(b)
	if strings.Contains(out, "VXVIOLATED") || strings.Contains(out, "VXPANIC") {
		return true, out, nil
	}
	if runErr != nil && !strings.Contains(out, "--- FAIL") && !strings.Contains(out, "--- SKIP") && !strings.Contains(out, "ok ") {
		return false, out, fmt.Errorf("native build/test failed")
	}
	return false, out, nil
}

func joinVariadic(args []string, variadic bool) string {
	if variadic && len(args) > 0 {
		a := append([]string(nil), args...)
		a[len(a)-1] += "..."
		return strings.Join(a, ", ")
	}
	return strings.Join(args, ", ")
}

func hasTypeParams(t types.Type) bool {
	if p, ok := t.(*types.Pointer); ok {
		t = p.Elem()
	}
	if n, ok := t.(*types.Named); ok {
		return n.TypeParams().Len() > 0 || n.TypeArgs().Len() > 0
	}
	return false
}

var _ = token.NoPos
