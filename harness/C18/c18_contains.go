//go:build verif

package schedule

// C18 — Weekly.Contains follows local wall-clock time.
//
//vx:overlay internal/schedule/zz_vx_c18.go
//vx:native
//vx:entry vxC18Contains reach=inside,outside first_ms=1500
//vx:stub (*time.Location).lookup vxC18Lookup
//vx:stub time.initLocal vxC18InitLocal
//vx:inverse time.dateToAbsDays (time.absDays).date
//vx:entry vxC18Validate reach=accepted,rejected
//vx:entry vxC18RoundTrip reach=yaml,json
//vx:stub encoding/json.Marshal vxC18JSONMarshal
//vx:stub encoding/json.Unmarshal vxC18JSONUnmarshal
//vx:stub (*gopkg.in/yaml.v3.Node).Decode vxC18YAMLDecode
//vx:stub time.LoadLocation vxC18LoadLocation
//vx:note zone = symbolic offset function with <=2 transitions (offsets within +-15h); instant window 2024-02-26..2024-03-06 (quick) / 2023-12-31..2025-03-01 (thorough)

import (
	"time"

	"gopkg.in/yaml.v3"

	"github.com/AdguardTeam/AdGuardHome/internal/vx"
)

// vxC18Zone is the symbolic zone: offset o0 before t1, o1 in [t1,t2), o2 after.
var vxC18Zone struct {
	o0, o1, o2 int64
	t1, t2     int64
	// local is the (fixed) offset of every other location, in particular of
	// time.Local, which instants passed to Contains carry in production.
	local int64
}

// vxC18Loc is the schedule's location.
var vxC18Loc *time.Location

// vxC18InitLocal replaces time.initLocal (reads $TZ and the zone files).
func vxC18InitLocal() {}

// vxC18Lookup replaces (*time.Location).lookup, the only access path of the
// time package to the zone database.
func vxC18Lookup(l *time.Location, sec int64) (name string, offset int, start, end int64, isDST bool) {
	const alpha, omega = -1 << 63, 1<<63 - 1
	z := &vxC18Zone
	if l != vxC18Loc {
		return "L", int(z.local), alpha, omega, false
	}
	switch {
	case sec < z.t1:
		return "Z0", int(z.o0), alpha, z.t1, false
	case sec < z.t2:
		return "Z1", int(z.o1), z.t1, z.t2, true
	default:
		return "Z2", int(z.o2), z.t2, omega, false
	}
}

func vxC18Offset(sec int64) int64 {
	z := &vxC18Zone
	switch {
	case sec < z.t1:
		return z.o0
	case sec < z.t2:
		return z.o1
	default:
		return z.o2
	}
}

func vxC18Contains() {
	lo, hi := int64(1708905600), int64(1709683200) // 2024-02-26 .. 2024-03-06 (leap day inside)
	if vx.Thorough() {
		lo, hi = 1703980800, 1740787200 // 2023-12-31 .. 2025-03-01 (year boundary, leap year, both DST seasons)
	}
	unix := vx.Int64("unix")
	vx.Assume(lo <= unix)
	vx.Assume(unix < hi)
	ns := vx.Int64("ns")
	vx.Assume(0 <= ns)
	vx.Assume(ns < 1_000_000_000)

	z := &vxC18Zone
	const maxOff = 15 * 3600
	z.o0, z.o1, z.o2, z.local = vx.Int64("o0"), vx.Int64("o1"), vx.Int64("o2"), vx.Int64("olocal")
	for _, o := range []int64{z.o0, z.o1, z.o2, z.local} {
		vx.Assume(-maxOff <= o)
		vx.Assume(o <= maxOff)
	}
	z.t1, z.t2 = vx.Int64("t1"), vx.Int64("t2")
	vx.Assume(z.t1 <= z.t2)
	vx.Assume(lo-10*86400 <= z.t1)
	vx.Assume(z.t2 <= hi+10*86400)

	vxC18Loc = new(time.Location)
	w := &Weekly{location: vxC18Loc}
	for i := range w.days {
		s, e := vx.Int64("start"), vx.Int64("end")
		// what validation accepts (minute granularity is irrelevant to Contains)
		vx.Assume(vx.Or(vx.And(s == 0, e == 0), vx.And(vx.And(0 <= s, s < e), e <= int64(maxDayRange))))
		w.days[i] = dayRange{start: time.Duration(s), end: time.Duration(e)}
	}

	t := time.Unix(unix, ns)
	got := w.Contains(t)
	vx.Note(got)

	// Oracle: wall clock = UTC + offset in force at that instant.
	local := unix + vxC18Offset(unix)
	days, tod := vx.Int64("q.days"), vx.Int64("q.tod")
	vx.Assume(0 <= tod)
	vx.Assume(tod < 86400)
	vx.Assume(-100000 <= days)
	vx.Assume(days < 100000)
	vx.Assume(local == days*86400+tod)
	k, wd := vx.Int64("q.k"), vx.Int64("q.wd")
	vx.Assume(0 <= wd)
	vx.Assume(wd < 7)
	vx.Assume(-20000 <= k)
	vx.Assume(k < 20000)
	vx.Assume(days+4 == 7*k+wd) // 1970-01-01 was a Thursday
	wdi := vx.Concrete(int(wd))
	dr := w.days[wdi]
	todNs := tod*1_000_000_000 + ns
	want := vx.And(int64(dr.start) <= todNs, todNs < int64(dr.end))
	if want {
		vx.Reach("inside")
	} else {
		vx.Reach("outside")
	}
	vx.Assert(got == want, "Contains(t) == (start <= wall-clock time of day < end) on t's local weekday")
	if dr.start == 0 && dr.end == maxDayRange {
		vx.Assert(got, "full-day range covers every instant of the local day")
	}
	if dr.start == 0 && dr.end == 0 {
		vx.Assert(!got, "empty range covers no instant")
	}
}

// vxC18Validate: a day range is accepted exactly when it is the zero range or
// 0 <= start < end <= 24h with both ends on whole minutes.
func vxC18Validate() {
	s, e := vx.Int64("start"), vx.Int64("end")
	w := &Weekly{}
	err := w.validate(dayRange{start: time.Duration(s), end: time.Duration(e)})
	vx.Note(err != nil)

	// whole minutes, by witnesses: s = 60e9*ks + rs, 0 <= rs < 60e9 (floor division)
	const minute = int64(time.Minute)
	ks, rs := vx.Int64("q.ks"), vx.Int64("q.rs")
	ke, re := vx.Int64("q.ke"), vx.Int64("q.re")
	lim := int64(1) << 62 / minute
	for _, k := range []int64{ks, ke} {
		vx.Assume(-lim <= k)
		vx.Assume(k <= lim)
	}
	for _, r := range []int64{rs, re} {
		vx.Assume(0 <= r)
		vx.Assume(r < minute)
	}
	vx.Assume(-(int64(1)<<62) <= s)
	vx.Assume(s <= int64(1)<<62)
	vx.Assume(-(int64(1)<<62) <= e)
	vx.Assume(e <= int64(1)<<62)
	vx.Assume(s == ks*minute+rs)
	vx.Assume(e == ke*minute+re)

	zeroRange := vx.And(s == 0, e == 0)
	inDay := vx.And(vx.And(0 <= s, s < e), e <= int64(maxDayRange))
	whole := vx.And(rs == 0, re == 0)
	want := vx.Or(zeroRange, vx.And(inDay, whole))
	if want {
		vx.Reach("accepted")
	} else {
		vx.Reach("rejected")
	}
	vx.Assert((err == nil) == want, "range accepted iff zero, or 0 <= start < end <= 24h in whole minutes")
}

var vxC18Stash any

func vxC18JSONMarshal(v any) ([]byte, error) {
	vxC18Stash = v
	return []byte("{}"), nil
}

func vxC18JSONUnmarshal(data []byte, v any) error {
	*(v.(*weeklyConfigJSON)) = *(vxC18Stash.(*weeklyConfigJSON))
	return nil
}

func vxC18YAMLDecode(n *yaml.Node, v any) error {
	*(v.(*weeklyConfigYAML)) = vxC18Stash.(weeklyConfigYAML)
	return nil
}

func vxC18LoadLocation(name string) (*time.Location, error) {
	return vxC18Loc, nil
}

// vxC18RoundTrip: a valid schedule survives Marshal -> Unmarshal unchanged
// (the encoders themselves hand the configuration structure across).
func vxC18RoundTrip() {
	vxC18Loc = time.UTC
	w := &Weekly{location: vxC18Loc}
	const minute = int64(time.Minute)
	// one day symbolic (every valid whole-minute range), the six others
	// concrete and pairwise different so that mixed-up days are visible
	sym := vx.Choice("day", 7)
	for i := range w.days {
		if i != sym {
			w.days[i] = dayRange{start: time.Duration(int64(i) * 60 * minute), end: time.Duration((int64(i)*60 + 90) * minute)}
			continue
		}
		ks, ke := vx.Int64("ks"), vx.Int64("ke")
		vx.Assume(0 <= ks)
		vx.Assume(ks <= 24*60)
		vx.Assume(0 <= ke)
		vx.Assume(ke <= 24*60)
		vx.Assume(vx.Or(vx.And(ks == 0, ke == 0), vx.And(ks < ke, ks < 24*60)))
		w.days[i] = dayRange{start: time.Duration(ks * minute), end: time.Duration(ke * minute)}
	}
	got := &Weekly{}
	if vx.Choice("codec", 2) == 0 {
		vx.Reach("yaml")
		v, err := w.MarshalYAML()
		vx.Assert(err == nil, "MarshalYAML succeeds")
		vxC18Stash = v
		err = got.UnmarshalYAML(&yaml.Node{})
		vx.Assert(err == nil, "UnmarshalYAML accepts a marshalled valid schedule")
	} else {
		vx.Reach("json")
		_, err := w.MarshalJSON()
		vx.Assert(err == nil, "MarshalJSON succeeds")
		err = got.UnmarshalJSON([]byte("{}"))
		vx.Assert(err == nil, "UnmarshalJSON accepts a marshalled valid schedule")
	}
	vx.Assert(got.location == w.location, "location survives")
	for i := range w.days {
		vx.Assert(got.days[i] == w.days[i], "day range survives the round trip")
	}
}
