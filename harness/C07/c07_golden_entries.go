//go:build verif

package querylog

// C07 — the log entries whose stored lines (produced natively by the real
// json.Encoder, see c07_golden_lines.go) are decoded by the real token decoder
// under the engine.  This file has no harness dependencies: the generator
// (gen_golden_test.go.txt) compiles it natively together with the package.
//
//vx:overlay internal/querylog/zz_vx_c07e.go

import (
	"net"
	"net/netip"
	"time"

	"github.com/AdguardTeam/AdGuardHome/internal/filtering"
	"github.com/AdguardTeam/urlfilter/rules"
	"github.com/miekg/dns"
)

// vxC07GoldenAnswer packs a response with one A or AAAA record.
func vxC07GoldenAnswer(host string, ip net.IP, ad bool) []byte {
	m := &dns.Msg{}
	m.Id = 0x4321
	m.Response = true
	m.RecursionAvailable = true
	m.AuthenticatedData = ad
	m.Question = []dns.Question{{Name: host + ".", Qtype: dns.TypeA, Qclass: dns.ClassINET}}
	hdr := dns.RR_Header{Name: host + ".", Rrtype: dns.TypeA, Class: dns.ClassINET, Ttl: 10}
	if ip4 := ip.To4(); ip4 != nil {
		m.Answer = []dns.RR{&dns.A{Hdr: hdr, A: ip4}}
	} else {
		hdr.Rrtype = dns.TypeAAAA
		m.Answer = []dns.RR{&dns.AAAA{Hdr: hdr, AAAA: ip}}
	}
	b, err := m.Pack()
	if err != nil {
		panic(err)
	}
	return b
}

// vxC07GoldenCount is the number of golden entries.
const vxC07GoldenCount = 16

// vxC07GoldenEntry returns golden entry i as it is in memory when it is
// recorded (what newLogEntry builds).
func vxC07GoldenEntry(i int) *logEntry {
	base := time.Date(2024, 5, 6, 7, 8, 9, 0, time.UTC)
	e := &logEntry{
		Time:   base.Add(time.Duration(i)*time.Second + time.Duration(1+i*1001)),
		QHost:  "host" + string(rune('a'+i)) + ".example.org",
		QType:  "A",
		QClass: "IN",
		IP:     net.IP{192, 168, 1, byte(10 + i)},
	}
	e.Elapsed = time.Duration(100000 + 7*i)
	v6 := net.IP{0x20, 0x01, 0xd, 0xb8, 0, 0, 0, 0, 0, 0, 0, 0, 0, 0, 0, byte(i + 1)}
	switch i {
	case 0: // plain query, answered by an upstream
		e.Upstream = "https://dns.example/dns-query"
		e.Answer = vxC07GoldenAnswer(e.QHost, net.IP{1, 2, 3, 4}, false)
	case 1: // blocked by a rule list, DoH client with ClientID, AD
		e.ClientProto = ClientProtoDoH
		e.ClientID = "kids-phone"
		e.AuthenticatedData = true
		e.Result = filtering.Result{
			IsFiltered: true,
			Reason:     filtering.FilteredBlockList,
			Rules:      []*filtering.ResultRule{{Text: "||hostb.example.org^", FilterListID: 1700000001}},
		}
		e.Answer = vxC07GoldenAnswer(e.QHost, net.IP{0, 0, 0, 0}, false)
	case 2: // allow-listed: two rules
		e.ClientProto = ClientProtoDoT
		e.Result = filtering.Result{
			Reason: filtering.NotFilteredAllowList,
			Rules: []*filtering.ResultRule{
				{Text: "@@||hostc.example.org^", FilterListID: 0},
				{Text: "||example.org^$important", FilterListID: 42},
			},
		}
		e.Upstream = "tls://dns.example:853"
		e.Cached = true
	case 3: // safe browsing (negative list ID)
		e.ClientProto = ClientProtoDoQ
		e.Result = filtering.Result{
			IsFiltered: true,
			Reason:     filtering.FilteredSafeBrowsing,
			Rules:      []*filtering.ResultRule{{Text: "adguard-malware-shavar", FilterListID: -4}},
		}
	case 4: // parental
		e.ClientProto = ClientProtoDNSCrypt
		e.Result = filtering.Result{
			IsFiltered: true,
			Reason:     filtering.FilteredParental,
			Rules:      []*filtering.ResultRule{{Text: "parental CATEGORY_BLACKLISTED", FilterListID: -3}},
		}
	case 5: // safe search: rule with an address, IPv6 client
		e.IP = v6
		e.QType, e.QClass = "AAAA", "CH"
		e.Result = filtering.Result{
			IsFiltered: true,
			Reason:     filtering.FilteredSafeSearch,
			Rules:      []*filtering.ResultRule{{FilterListID: -5, IP: netip.MustParseAddr("216.239.38.120")}},
		}
	case 6: // blocked service
		e.Result = filtering.Result{
			IsFiltered:  true,
			Reason:      filtering.FilteredBlockedService,
			ServiceName: "youtube",
			Rules:       []*filtering.ResultRule{{Text: "||youtube.com^", FilterListID: -2}},
		}
	case 7: // invalid request
		e.Result = filtering.Result{IsFiltered: true, Reason: filtering.FilteredInvalid}
		e.QType = "TYPE65280"
	case 8: // legacy rewrite: CNAME and addresses
		e.Result = filtering.Result{
			Reason:    filtering.Rewritten,
			CanonName: "real.example.net",
			IPList:    []netip.Addr{netip.MustParseAddr("10.1.2.3"), netip.MustParseAddr("fd00::7")},
		}
		e.OrigAnswer = vxC07GoldenAnswer(e.QHost, net.IP{5, 6, 7, 8}, false)
		e.Answer = vxC07GoldenAnswer(e.QHost, net.IP{10, 1, 2, 3}, false)
	case 9: // hosts-file rewrite: $dnsrewrite-like result with A and AAAA values, rule with address
		e.Result = filtering.Result{
			Reason: filtering.RewrittenAutoHosts,
			DNSRewriteResult: &filtering.DNSRewriteResult{
				RCode: dns.RcodeSuccess,
				Response: filtering.DNSRewriteResultResponse{
					dns.TypeA:    []rules.RRValue{net.IP{10, 0, 0, 9}.To16()},
					dns.TypeAAAA: []rules.RRValue{net.IP(v6)},
				},
			},
			Rules: []*filtering.ResultRule{{Text: "10.0.0.9 hostj.example.org", FilterListID: -1, IP: netip.MustParseAddr("10.0.0.9")}},
		}
	case 10: // $dnsrewrite rule: NXDOMAIN
		e.Result = filtering.Result{
			Reason:           filtering.RewrittenRule,
			DNSRewriteResult: &filtering.DNSRewriteResult{RCode: dns.RcodeNameError},
			Rules:            []*filtering.ResultRule{{Text: "||hostk.example.org^$dnsrewrite=NXDOMAIN", FilterListID: 5}},
		}
	case 11: // $dnsrewrite rule: PTR and TXT values, CNAME
		e.Result = filtering.Result{
			Reason:    filtering.RewrittenRule,
			CanonName: "other.example.org",
			DNSRewriteResult: &filtering.DNSRewriteResult{
				RCode: dns.RcodeSuccess,
				Response: filtering.DNSRewriteResultResponse{
					dns.TypePTR: []rules.RRValue{"one.example.", "two.example."},
					dns.TypeTXT: []rules.RRValue{"hello world"},
				},
			},
			Rules: []*filtering.ResultRule{{Text: "||hostl.example.org^$dnsrewrite=NOERROR;PTR;one.example.", FilterListID: 5}},
		}
	case 12: // not filtered because of an error; ECS; original answer
		e.Result = filtering.Result{Reason: filtering.NotFilteredError}
		e.ReqECS = "198.51.100.0/24"
		e.OrigAnswer = vxC07GoldenAnswer(e.QHost, v6, true)
		e.Upstream = "[2001:db8::53]:53"
	case 13: // IDN host (punycode as recorded), cached, AD, zero elapsed
		e.QHost = "xn--e1afmkfd.xn--p1ai"
		e.Cached, e.AuthenticatedData = true, true
		e.Elapsed = 0
		e.Upstream = "quic://dns.example:853"
	case 14: // characters the JSON encoder escapes
		e.QHost = "a\\032b.example.org"
		e.ClientID = "cli-1"
		e.Upstream = "https://dns.example/q?a=1&b=<2>"
		e.Result = filtering.Result{
			IsFiltered: true,
			Reason:     filtering.FilteredBlockList,
			Rules:      []*filtering.ResultRule{{Text: "/ad[sx]?\\d\"q\"/$client='Kids Tablet'", FilterListID: 9}, {Text: "|тест^\t", FilterListID: 10}},
		}
	case 15: // 4-in-6 client address, two AAAA values
		e.IP = net.IP{1, 2, 3, 4}.To16()
		e.Result = filtering.Result{
			Reason: filtering.RewrittenRule,
			DNSRewriteResult: &filtering.DNSRewriteResult{
				Response: filtering.DNSRewriteResultResponse{
					dns.TypeAAAA: []rules.RRValue{net.IP(v6), net.IP{0xfd, 0, 0, 0, 0, 0, 0, 0, 0, 0, 0, 0, 0, 0, 0, 2}},
				},
			},
		}
	}
	return e
}
