//go:build verif

package filtering

// C06 — custom DNS rewrites: documented precedence, termination, soundness.
//
// Kernel under test (real code): (*DNSFilter).processRewrites, findRewrites,
// (*LegacyRewrite).Compare / matchesQType, isWildcard, matchDomainWildcard,
// setRewriteResult, the slices.SortFunc instance and container.MapSet[string].
//
//vx:native
//vx:overlay internal/filtering/zz_vx_c06.go
//vx:entry vxC06Resolve reach=not-matched,pass-self,pass-self-wild,pass-family,rewritten-ips,matched-no-value,matched-other-qtype,cname-upstream,cname-local,cname-chain,cname-wild-self,cname-over-addr,exact-shadows-wild,longest-wild,cycle,open-tie first_ms=4000
//vx:entry vxC06Terminates reach=t-max,t-done
//vx:stub github.com/AdguardTeam/AdGuardHome/internal/filtering.findRewrites vxC06FindRewrites
//vx:note table: exactly N entries in every order, duplicates allowed (Resolve: quick N=2, thorough N=3; Terminates: CNAME entries only, quick N=3, thorough N=4). Pattern: plain name of 3 or 5 symbolic bytes (first byte not '*') or "*."+1 or 3 symbolic bytes (covers a, a.b, x.a.b, *.b, *.a.b and every other byte content). Entry: IPv4 value, IPv6 value (one symbolic address byte each), or an entry without address whose type is symbolic in {A exception, AAAA exception, CNAME} and whose answer is a plain name of symbolic bytes (quick 3 or 5, thorough N=3: 3 bytes) or, for wildcard patterns, the pattern itself. Queried name: plain name of 3 or 5 symbolic bytes; query type: any 16-bit value
//vx:note assumed (what normalize guarantees): a CNAME answer is not an address literal (no ':' and no trailing digit) and not "A"/"AAAA"; the answer text of address/exception entries is not modelled (the kernel never reads it)
//vx:note reference = resolver written from the statement and AGHTechDoc "Rewrites"; corners the documentation leaves open are checked for termination and soundness only: revisiting a name (cycles: which name ends up canonical), several top-ranked CNAME rows with different answers, value and exception rows of the requested family at the same rank, several rows for the same top-ranked wildcard, an other-family exception row that outranks the requested family's rows
//vx:note the findRewrites stub only counts calls (termination clause: at most N+1 lookups) and calls the real function
//vx:note outside: normalize/ParseAddr on arbitrary text, tables larger than N, names longer than 5 bytes (wildcard nesting deeper than two levels), queried names and CNAME targets that themselves begin with "*", sort beyond the insertion-sort regime (<=4 elements here)

import (
	"net/netip"
	"sync"

	"github.com/AdguardTeam/AdGuardHome/internal/vx"
	"github.com/miekg/dns"
)

var (
	// vxC06Safe: CNAME answers are restricted to wire-safe names.
	vxC06Safe bool
	// vxC06CNAMEOnly: every entry is a CNAME entry (termination entry).
	vxC06CNAMEOnly  bool
	vxC06Lookups    int
	vxC06MaxLookups int
)

// vxC06FindRewrites counts the table lookups of one evaluation.
func vxC06FindRewrites(entries []*LegacyRewrite, host string, qtype uint16) ([]*LegacyRewrite, bool) {
	vxC06Lookups++
	if vxC06MaxLookups > 0 && vxC06Lookups > vxC06MaxLookups {
		vx.Fail("T: evaluation performs more table lookups than entries+1 (does not terminate on a CNAME cycle)")
		vx.Assume(false)
	}

	return findRewrites(entries, host, qtype)
}

// VxC06NewFilter returns a filter holding only the given rewrite table (used
// by the dnsforward part of this check as well).
func VxC06NewFilter(table []*LegacyRewrite) *DNSFilter {
	return &DNSFilter{
		confMu: &sync.RWMutex{},
		conf:   &Config{Rewrites: table},
	}
}

// vxC06DNSSafe restricts a name to what reaches the server from the wire
// after lower-casing: letters, digits, '-', '.', no trailing dot.
func vxC06DNSSafe(s string) {
	ok := s[len(s)-1] != '.'
	for i := 0; i < len(s); i++ {
		c := s[i]
		ok = vx.And(ok, vx.Or(vx.Or(vx.And('a' <= c, c <= 'z'), vx.And('0' <= c, c <= '9')), vx.Or(c == '-', c == '.')))
	}
	vx.Assume(ok)
}

// VxC06GlueCase builds the symbolic table, filter and queried name for the
// dnsforward part of the check.
func VxC06GlueCase() (d *DNSFilter, table []*LegacyRewrite, host string) {
	shapes := []vxC06Shape{{false, 3}, {true, 3}}
	hostLens := []int{3}
	if vx.Thorough() {
		shapes = append(shapes, vxC06Shape{false, 5}, vxC06Shape{true, 5})
		hostLens = []int{3, 5}
	}
	vxC06Safe = true
	table = vxC06Table(2, shapes, []int{3})
	host = vxC06Name("host", vxC06Pick("hostlen", hostLens))
	vxC06DNSSafe(host)
	vxC06Safe = false
	vxC06Lookups, vxC06MaxLookups = 0, len(table)+1

	return VxC06NewFilter(table), table, host
}

// VxC06Expect exposes the reference: kind 0 not matched, 1 pass-through,
// 2 rewritten (canon, ips), 3 left open by the documentation.
func VxC06Expect(table []*LegacyRewrite, host string, q uint16) (kind int, canon string, ips []netip.Addr) {
	w := vxC06Reference(table, host, q)

	return w.kind, w.canon, w.ips
}

func vxC06Itoa(i int) string { return string(rune('0' + i)) }

func vxC06Pick(name string, lens []int) int { return lens[vx.Choice(name, len(lens))] }

// vxC06Shape is the form of a pattern: "*."+rest (wild) or a plain name.
type vxC06Shape struct {
	wild bool
	n    int
}

// vxC06Name returns a plain name of n symbolic bytes that is not a wildcard
// pattern (first byte is not '*').
func vxC06Name(tag string, n int) string {
	s := vx.String(tag, n)
	vx.Assume(s[0] != '*')

	return s
}

// vxC06Entry builds one normalised table entry.
func vxC06Entry(i int, shapes []vxC06Shape, ansLens []int) *LegacyRewrite {
	tag := "e" + vxC06Itoa(i)
	e := &LegacyRewrite{}
	sh := shapes[vx.Choice(tag+".shape", len(shapes))]
	if sh.wild {
		e.Domain = "*." + vx.String(tag+".dom", sh.n-2)
	} else {
		e.Domain = vxC06Name(tag+".dom", sh.n)
	}
	kinds := 3
	if vxC06CNAMEOnly {
		kinds = 1
	}
	switch 2 - vx.Choice(tag+".kind", kinds) {
	case 0:
		e.Type = dns.TypeA
		e.IP = netip.AddrFrom4([4]byte{10, 0, 0, vx.Byte(tag + ".ip")})
		e.Answer = "10.0.0.?"
	case 1:
		e.Type = dns.TypeAAAA
		e.IP = netip.AddrFrom16([16]byte{0x20, 0x01, 0x0d, 0xb8, 15: vx.Byte(tag + ".ip")})
		e.Answer = "2001:db8::?"
	default:
		t := vx.Uint16(tag + ".type")
		vx.Assume(vx.Or(vx.Or(t == dns.TypeA, t == dns.TypeAAAA), t == dns.TypeCNAME))
		if vxC06CNAMEOnly {
			t = dns.TypeCNAME
		}
		e.Type = t
		// The answer of a CNAME entry: any text that is not an address
		// literal, or the entry's own pattern (the documented way to write the
		// 'pattern to itself' exception for wildcards).
		if sh.wild {
			ansLens = append([]int{0}, ansLens...)
		}
		n := vxC06Pick(tag+".anslen", ansLens)
		if n == 0 {
			e.Answer = e.Domain

			break
		}
		a := vxC06Name(tag+".ans", n)
		ok := true
		for k := 0; k < len(a); k++ {
			ok = vx.And(ok, a[k] != ':')
		}
		last := a[len(a)-1]
		ok = vx.And(ok, vx.Or(last < '0', last > '9'))
		if len(a) == 1 {
			ok = vx.And(ok, a[0] != 'A')
		}
		if len(a) == 4 {
			ok = vx.And(ok, a != "AAAA")
		}
		vx.Assume(ok)
		if vxC06Safe {
			vxC06DNSSafe(a)
		}
		e.Answer = a
	}

	return e
}

func vxC06Table(n int, shapes []vxC06Shape, ansLens []int) []*LegacyRewrite {
	t := make([]*LegacyRewrite, n)
	for i := range t {
		t[i] = vxC06Entry(i, shapes, ansLens)
	}

	return t
}

// ---- reference, written from the statement ----

func vxC06IsWild(p string) bool { return len(p) >= 2 && p[0] == '*' && p[1] == '.' }

// vxC06Match: a pattern covers a name when it equals it, or when it is
// "*.<rest>" and the name ends in ".<rest>".  (Written without branches on
// symbolic data.)
func vxC06Match(pat, name string) bool {
	eq := pat == name
	if len(pat) < 2 || len(name) < len(pat)-1 {
		return eq
	}
	wild := vx.And(pat[0] == '*', pat[1] == '.')

	return vx.Or(eq, vx.And(wild, name[len(name)-len(pat)+1:] == pat[1:]))
}

const vxC06Exact = 1 << 20

// vxC06Rank: exact patterns outrank wildcards; longer wildcards outrank
// shorter ones.
func vxC06Rank(e *LegacyRewrite) int {
	if vxC06IsWild(e.Domain) {
		return len(e.Domain)
	}

	return vxC06Exact
}

const (
	vxC06NotMatched = iota
	vxC06Pass
	vxC06Rewritten
	vxC06Open
)

type vxC06Want struct {
	kind  int
	canon string
	ips   []netip.Addr
	// what happened on the way (for reach markers)
	hops     int
	why      string
	overAddr bool
}

// vxC06Top returns the best-ranked entries among sel.
func vxC06Top(sel []*LegacyRewrite) (top []*LegacyRewrite, rank int) {
	for _, e := range sel {
		if r := vxC06Rank(e); r > rank {
			rank = r
		}
	}
	for _, e := range sel {
		if vxC06Rank(e) == rank {
			top = append(top, e)
		}
	}

	return top, rank
}

func vxC06Reference(table []*LegacyRewrite, h string, q uint16) (w vxC06Want) {
	cur := h
	visited := []string{h}
	for step := 0; ; step++ {
		var all, cn []*LegacyRewrite
		for _, e := range table {
			if vxC06Match(e.Domain, cur) {
				all = append(all, e)
				if e.Type == dns.TypeCNAME {
					cn = append(cn, e)
				}
			}
		}
		if len(all) == 0 {
			if step == 0 {
				w.kind, w.why = vxC06NotMatched, "not-matched"
			} else {
				// end of the chain is not in the table: upstream resolves it
				w.kind, w.canon, w.why = vxC06Rewritten, cur, "cname-upstream"
			}

			return w
		}
		if len(cn) == 0 {
			return vxC06Addresses(w, all, cur, q)
		}

		// CNAME entries go first, whatever their rank against address entries.
		if len(cn) < len(all) {
			w.overAddr = true
		}
		top, _ := vxC06Top(cn)
		c := top[0]
		for _, o := range top[1:] {
			if o.Answer != c.Answer {
				w.kind, w.why = vxC06Open, "open-tie"

				return w
			}
		}
		if len(top) < len(cn) {
			if vxC06IsWild(c.Domain) {
				w.why = "longest-wild"
			} else {
				w.why = "exact-shadows-wild"
			}
		}
		ans := c.Answer
		switch {
		case step == 0 && ans == c.Domain:
			w.kind, w.why = vxC06Pass, "pass-self"
			if vxC06IsWild(c.Domain) {
				w.why = "pass-self-wild"
			}

			return w
		case step == 0 && ans == h:
			// a wildcard pointing at the very name that is asked for
			w.kind, w.why = vxC06Pass, "pass-self-wild"

			return w
		case step > 0 && ans == c.Domain && ans != h:
			// the chain ends in a 'name to itself' exception entry
			w.kind, w.why = vxC06Pass, "pass-self"

			return w
		case step > 0 && ans == cur && ans != h:
			// "*.x -> sub.x" reached through itself: sub.x is the canonical
			// name and has no further rewrite.
			w.kind, w.canon, w.why = vxC06Rewritten, cur, "cname-wild-self"

			return w
		}
		for _, v := range visited {
			if v == ans {
				w.kind, w.why = vxC06Open, "cycle"

				return w
			}
		}
		visited = append(visited, ans)
		cur = ans
		w.canon = ans
		w.hops++
	}
}

// vxC06Addresses: no CNAME entry covers name; decide from the address entries.
func vxC06Addresses(w vxC06Want, all []*LegacyRewrite, name string, q uint16) vxC06Want {
	w.kind = vxC06Rewritten
	if q != dns.TypeA && q != dns.TypeAAAA {
		w.why = "matched-other-qtype"

		return w
	}
	var fam, other []*LegacyRewrite
	for _, e := range all {
		if e.Type == q {
			fam = append(fam, e)
		} else if e.IP == (netip.Addr{}) {
			other = append(other, e)
		}
	}
	if len(fam) == 0 {
		w.why = "matched-no-value"

		return w
	}
	top, rank := vxC06Top(fam)
	for _, o := range other {
		if vxC06Rank(o) > rank || (rank != vxC06Exact && vxC06Rank(o) == rank) {
			w.kind, w.why = vxC06Open, "open-tie"

			return w
		}
	}
	if rank != vxC06Exact && len(top) > 1 {
		w.kind, w.why = vxC06Open, "open-tie"

		return w
	}
	nExc := 0
	for _, e := range top {
		if e.IP == (netip.Addr{}) {
			nExc++
		} else {
			w.ips = append(w.ips, e.IP)
		}
	}
	switch {
	case nExc == len(top):
		w.kind, w.why = vxC06Pass, "pass-family"
	case nExc > 0:
		w.kind, w.why = vxC06Open, "open-tie"
	case len(top) < len(fam) && rank == vxC06Exact:
		w.why = "exact-shadows-wild"
	case len(top) < len(fam):
		w.why = "longest-wild"
	default:
		w.why = "rewritten-ips"
	}

	return w
}

// vxC06Sound: every address handed out is in the table for the finally
// resolved name and the requested family; the canonical name is some CNAME
// entry's answer.
func vxC06Sound(table []*LegacyRewrite, h string, q uint16, res *Result) {
	if res.Reason != Rewritten {
		return
	}
	final := h
	if res.CanonName != "" {
		final = res.CanonName
		found := false
		for _, e := range table {
			found = vx.Or(found, vx.And(e.Type == dns.TypeCNAME, e.Answer == final))
		}
		vx.Assert(found, "S: canonical name is the answer of a CNAME entry")
	}
	for _, ip := range res.IPList {
		found := false
		for _, e := range table {
			found = vx.Or(found, vx.And(vx.And(e.Type == q, e.IP == ip), vxC06Match(e.Domain, final)))
		}
		vx.Assert(vx.And(found, ip != (netip.Addr{})), "S: address is not in the table for the finally resolved name and requested family")
		vx.Assert(vx.Or(q == dns.TypeA, q == dns.TypeAAAA), "S: addresses only for A/AAAA questions")
	}
}

func vxC06SameIPs(got, want []netip.Addr) bool {
	if len(got) != len(want) {
		return false
	}
	used := make([]bool, len(want))
	for _, g := range got {
		hit := false
		for j, x := range want {
			if !used[j] && g == x {
				used[j], hit = true, true

				break
			}
		}
		if !hit {
			return false
		}
	}

	return true
}

func vxC06Bounds() (n int, shapes []vxC06Shape, ansLens, hostLens []int) {
	if vx.Thorough() {
		return 3, []vxC06Shape{{false, 3}, {true, 3}, {false, 5}, {true, 5}}, []int{3}, []int{3, 5}
	}

	return 2, []vxC06Shape{{false, 3}, {true, 3}, {false, 5}, {true, 5}}, []int{3, 5}, []int{3, 5}
}

// vxC06Resolve: the filtering result for (name, type) against the reference.
func vxC06Resolve() {
	n, shapes, ansLens, hostLens := vxC06Bounds()
	table := vxC06Table(n, shapes, ansLens)
	h := vxC06Name("host", vxC06Pick("hostlen", hostLens))
	q := vx.Uint16("qtype")
	d := VxC06NewFilter(table)

	vxC06Lookups, vxC06MaxLookups = 0, n+1
	vx.Unwind(1 << 20)
	vx.MaxSteps(400_000, "T: evaluation does not terminate")
	res := d.processRewrites(h, q)
	vx.Note(int(res.Reason))
	vx.Note(res.CanonName)
	vx.Note(len(res.IPList))
	vx.MaxSteps(100_000_000, "")
	vx.Assert(vx.Held(d.confMu) == 0, "table lock released")

	vxC06Sound(table, h, q, &res)

	w := vxC06Reference(table, h, q)
	if w.overAddr && w.kind != vxC06Open {
		vx.Reach("cname-over-addr")
	}
	if w.kind == vxC06Rewritten && w.hops > 0 && len(w.ips) > 0 {
		vx.Reach("cname-local")
	}
	if w.kind != vxC06Open && w.hops > 1 {
		vx.Reach("cname-chain")
	}
	vx.Reach(w.why)
	switch w.kind {
	case vxC06NotMatched:
		vx.Assert(res.Reason == NotFilteredNotFound && res.CanonName == "" && len(res.IPList) == 0,
			"a name no pattern covers is not rewritten")
	case vxC06Pass:
		vx.Assert(res.Reason == NotFilteredNotFound, "E: 'name to itself' / 'A' / 'AAAA' exception is passed through, not rewritten")
	case vxC06Rewritten:
		vx.Assert(res.Reason == Rewritten, "M: a name covered by the table is answered from the table (Rewritten), also without a value for the type")
		vx.Assert(res.CanonName == w.canon, "P: canonical name is the end of the CNAME chain chosen by precedence (CNAME first, exact over wildcard, longest wildcard)")
		vx.Assert(vxC06SameIPs(res.IPList, w.ips), "P: addresses are exactly the top-ranked entries of the requested family for the finally resolved name")
	}
}

// vxC06Terminates: a larger table, termination and soundness only.
func vxC06Terminates() {
	n := 3
	if vx.Thorough() {
		n = 4
	}
	vxC06CNAMEOnly = true
	table := vxC06Table(n, []vxC06Shape{{false, 3}, {true, 3}}, []int{3})
	vxC06CNAMEOnly = false
	h := vxC06Name("host", 3)
	q := vx.Uint16("qtype")
	d := VxC06NewFilter(table)
	vxC06Lookups, vxC06MaxLookups = 0, n+1
	vx.Unwind(1 << 20)
	vx.MaxSteps(800_000, "T: evaluation does not terminate")
	res := d.processRewrites(h, q)
	vx.Note(int(res.Reason))
	vx.Note(res.CanonName)
	vx.Note(len(res.IPList))
	vx.MaxSteps(100_000_000, "")
	vxC06Sound(table, h, q, &res)
	if vxC06Lookups == n+1 {
		vx.Reach("t-max")
	}
	vx.Reach("t-done")
}
