//go:build verif

package stats

// C08 — access to the real statistics context for the C08 entries.
//
//vx:overlay internal/stats/zz_vx_c08.go
//vx:note the statistics context is the real StatsCtx (ShouldCount, Update, unit.add) built without its bbolt database; stats.db bytes (gob) are outside

import (
	"log/slog"
	"sync"
	"time"

	"github.com/AdguardTeam/AdGuardHome/internal/aghnet"
)

// VxC08New returns a real, enabled statistics context with an empty current
// unit and no database.
func VxC08New(ignored *aghnet.IgnoreEngine, shouldCountClient func([]string) bool) *StatsCtx {
	return &StatsCtx{
		logger:            slog.Default(),
		currMu:            &sync.RWMutex{},
		confMu:            &sync.RWMutex{},
		ignored:           ignored,
		shouldCountClient: shouldCountClient,
		limit:             24 * time.Hour,
		enabled:           true,
		curr:              newUnit(1),
		unitIDGen:         func() uint32 { return 1 },
	}
}

// VxC08Counted returns the number of counted queries and the client and domain
// names stored in the current unit.
func VxC08Counted(s *StatsCtx) (total uint64, clients, domains []string) {
	u := s.curr
	for k := range u.clients {
		clients = append(clients, k)
	}
	for k := range u.domains {
		domains = append(domains, k)
	}
	for k := range u.blockedDomains {
		domains = append(domains, k)
	}
	return u.nTotal, clients, domains
}
