//go:build verif

package dhcpd

// C10 — DHCPv4 never leases one address to two clients; lease table survives restart.
//
//vx:native
//vx:overlay internal/dhcpd/zz_vx_c10.go
//vx:entry vxC10History reach=offer,ack,nak,dropped,released,declined,static-added,static-rejected,static-updated,static-removed,recycled,exhausted,restart
//vx:entry vxC10Full reach=full,offer,ack,nak,released,static-added,static-updated,recycled,exhausted,restart
//vx:entry vxC10Probe reach=offer,ack,blocked,recycled,restart
//vx:entry vxC10Protocol tier=thorough reach=offer,ack,nak,dropped,released,declined,recycled,restart
//vx:entry vxC10Admin tier=thorough reach=offer,ack,static-added,static-rejected,static-updated,static-removed,restart
//vx:stub time.Now vxC10Now
//vx:stub encoding/json.Marshal vxC10Marshal
//vx:stub encoding/json.Unmarshal vxC10Unmarshal
//vx:stub os.ReadFile vxC10ReadFile
//vx:stub github.com/google/renameio/v2/maybe.WriteFile vxC10WriteFile
//vx:stub (*github.com/AdguardTeam/AdGuardHome/internal/dhcpd.v4Server).addrAvailable vxC10AddrAvailable
//vx:note configuration concrete: subnet 192.168.10.0/24, gateway .1 (outside the pool), server .2, pool .100-.101 (History thorough: also .100-.102), lease time 3600 s, ICMP probe off except in the Probe entry. Clients: 3 fixed hardware addresses (interchangeable: a step uses an already seen client or the next new one); every address parameter = 192.168.10.x with x one symbolic byte (for init-reboot and static add/update also 10.0.0.x); host names from {"", "h1"} (History thorough also "h2"); clock concrete, whole seconds, advanced by lease time + 1 s (thorough: also exactly the lease time)
//vx:note History: 3 arbitrary operations from the empty table out of DISCOVER, REQUEST (selecting with right/wrong server id, init-reboot, renew), RELEASE, DECLINE, add/update/remove static lease, clock step, restart (new server loads the lease file). Full: table populated by the real handlers (both pool addresses offered and acknowledged; thorough also: first pool address reserved + second acknowledged, and one acknowledged-and-expired + one fresh lease), then 2 arbitrary operations. Admin (thorough only): pool of 2, 4 operations out of DISCOVER/selecting REQUEST/add, update, remove static lease/clock/restart. Probe: pool of 2, 4 (thorough 5) operations out of DISCOVER/selecting REQUEST/DECLINE/clock/restart, the ICMP probe answers "in use" at most twice. Protocol (thorough): 4 client messages / clock steps / restarts without administrator operations. A non-final step without effect on table or clock is pruned (equal to the shorter history, whose checks ran as a prefix)
//vx:note checked after every step: no two list entries share an address or a non-zero hardware address; dynamic entries in the pool, static ones in the subnet, none on the gateway; ipIndex/hostsIndex/pool bitmap agree exactly with the list; reservations accepted so far are in the table with their address; the last document handed to the JSON encoder lists exactly the table (address, MAC text, static flag, expiry to the second, host name; a dynamic lease stored without host name may carry the generated one after a load). On every offer/ack (and the address in the reply to DECLINE): the client has a table entry with that address; no other client was acknowledged that address with an expiry in the future (reference model of what clients were told; a client forgets on its RELEASE/DECLINE, successful administrator operations override) and no other client has it reserved; a client with a reservation gets exactly it, others a pool address, never the gateway. DISCOVER of a client without entry gets an offer whenever the list has a pool address without a static or unexpired (expiry >= now) entry. Restart: same number of leases, each with same address/MAC/static flag/expiry/host name, same HostByIP and IPByHost answers (host names of dynamic leases that had none are generated on load: left open)
//vx:note stubs: math/big.Int methods used by ipRange (SetBytes Sub Add Set Cmp Sign IsUint64 Uint64 FillBytes, NewInt) = 128-bit reference in Go (assembly kernels); time.Now = harness clock; encoding/json.Marshal/Unmarshal, os.ReadFile, renameio maybe.WriteFile = the lease file as the list of dbLease records (server.dbStore, writeDB incl. sorting, dbLoad, fromLease/toLease, net.ParseMAC, time formatting and parsing run for real); (*v4Server).addrAvailable = bounded nondeterministic probe answer
//vx:note outside: histories longer than the bounds, pools larger than 3, more than 3 clients, hardware addresses of other lengths or all zero, sub-second clocks, lease-time option handling and other DHCP options, the wire codec and packetHandler's reply routing, DHCPv6, HTTP layer (JSON parsing of static leases, IPv6/4in6 addresses), concurrency of handlers (lock discipline), crash during a store (C14), ResetLeases via HTTP reset, whether DECLINE should quarantine the declined address (it is handed straight back: observed, not part of the statement)

import (
	"net"
	"net/netip"
	"os"
	"time"

	"github.com/AdguardTeam/AdGuardHome/internal/dhcpsvc"
	"github.com/AdguardTeam/AdGuardHome/internal/vx"
	"github.com/insomniacslk/dhcp/dhcpv4"
)

// ---- configuration (concrete, stated in the notes) ----

var (
	vxC10Gateway = netip.AddrFrom4([4]byte{192, 168, 10, 1})
	vxC10Mask    = netip.AddrFrom4([4]byte{255, 255, 255, 0})
	vxC10Self    = netip.AddrFrom4([4]byte{192, 168, 10, 2})
)

const (
	vxC10PoolLo   = 100
	vxC10LeaseSec = 3600
	vxC10MaxMACs  = 3
)

var (
	vxC10PoolN = 3

	vxC10MACs = [vxC10MaxMACs]net.HardwareAddr{
		{2, 0, 0, 0, 0, 1},
		{2, 0, 0, 0, 0, 2},
		{2, 0, 0, 0, 0, 3},
	}
	vxC10Hosts = []string{"", "h1", "h2"}
)

func vxC10Pool(k int) netip.Addr {
	return netip.AddrFrom4([4]byte{192, 168, 10, byte(vxC10PoolLo + k)})
}

// ---- environment: clock, lease file, ICMP probe ----

var vxC10Clock int64

func vxC10Now() time.Time { return time.Unix(vxC10Clock, 0) }

// The lease file: the encoder hands over the document, the decoder returns a
// copy of the last one written.
var (
	vxC10Disk       []*dbLease
	vxC10DiskExists bool
	vxC10Stores     int
)

func vxC10Marshal(v any) ([]byte, error) {
	dl, ok := v.(*dataLeases)
	if !ok {
		vx.Fail("unexpected document handed to the encoder")

		return nil, nil
	}
	vxC10Disk = make([]*dbLease, len(dl.Leases))
	for i, l := range dl.Leases {
		c := *l
		vxC10Disk[i] = &c
	}
	vxC10DiskExists = true
	vxC10Stores++

	return []byte{'{', '}'}, nil
}

func vxC10WriteFile(_ string, _ []byte, _ os.FileMode) error { return nil }

func vxC10ReadFile(_ string) ([]byte, error) {
	if !vxC10DiskExists {
		return nil, os.ErrNotExist
	}

	return []byte{'{', '}'}, nil
}

func vxC10Unmarshal(_ []byte, v any) error {
	dl, ok := v.(*dataLeases)
	if !ok {
		vx.Fail("unexpected document asked from the decoder")

		return nil
	}
	dl.Version = dataVersion
	dl.Leases = make([]*dbLease, len(vxC10Disk))
	for i, l := range vxC10Disk {
		c := *l
		dl.Leases[i] = &c
	}

	return nil
}

// ICMP probe: at most vxC10ProbeBudget answers "address in use" per history.
var (
	vxC10ProbeBudget int
	vxC10ProbeFailed bool
)

func vxC10AddrAvailable(s *v4Server, target net.IP) bool {
	if vxC10ProbeBudget > 0 && vx.Choice("probe-in-use", 2) == 1 {
		vxC10ProbeBudget--
		vxC10ProbeFailed = true
		vx.Reach("blocked")
		for _, e := range s.leases {
			if target.Equal(e.IP.AsSlice()) {
				vxC10Known("C10-blocked-lease-keeps-host-name-index", e.Hostname != "")
			}
		}

		return false
	}

	return true
}

// ---- world ----

type vxC10Belief struct {
	has bool
	ip  netip.Addr
	exp int64
}

type vxC10World struct {
	srv *server
	s   *v4Server

	// reference model: what each client was last told (ACK) and what the
	// administrator reserved.
	belief [vxC10MaxMACs]vxC10Belief
	static [vxC10MaxMACs]vxC10Belief
}

var vxC10W *vxC10World

func vxC10NewServer() (*server, *v4Server) {
	srv := &server{conf: &ServerConfig{dbFilePath: "leases.json"}}
	conf := &V4ServerConf{
		Enabled:       true,
		RangeStart:    vxC10Pool(0),
		RangeEnd:      vxC10Pool(vxC10PoolN - 1),
		GatewayIP:     vxC10Gateway,
		SubnetMask:    vxC10Mask,
		LeaseDuration: vxC10LeaseSec,
		notify:        srv.onNotify,
		dnsIPAddrs:    []netip.Addr{vxC10Self},
	}
	s, err := v4Create(conf)
	if err != nil {
		vx.Fail("configuration rejected")
	}
	srv.srv4 = s

	return srv, s
}

func vxC10MACIdx(mac net.HardwareAddr) int {
	for i, m := range vxC10MACs {
		if len(mac) == 6 && mac[5] == m[5] && mac[0] == m[0] && mac[1] == 0 && mac[2] == 0 && mac[3] == 0 && mac[4] == 0 {
			return i
		}
	}

	return -1
}

func vxC10ZeroMAC(mac net.HardwareAddr) bool {
	for _, b := range mac {
		if b != 0 {
			return false
		}
	}

	return true
}

func vxC10SameMAC(a, b net.HardwareAddr) bool {
	if len(a) != len(b) {
		return false
	}
	for i := range a {
		if a[i] != b[i] {
			return false
		}
	}

	return true
}

const vxC10Hex = "0123456789abcdef"

func vxC10MACString(mac net.HardwareAddr) string {
	b := make([]byte, 0, 17)
	for i, x := range mac {
		if i > 0 {
			b = append(b, ':')
		}
		b = append(b, vxC10Hex[x>>4], vxC10Hex[x&15])
	}

	return string(b)
}

// vxC10Entry returns the table entry held by the client, nil if none.
func vxC10Entry(s *v4Server, mac net.HardwareAddr) *dhcpsvc.Lease {
	for _, e := range s.leases {
		if vxC10SameMAC(e.HWAddr, mac) {
			return e
		}
	}

	return nil
}

// ---- invariants (after every step) ----

func vxC10InSubnet(ip netip.Addr) bool {
	b := ip.As4()

	return vx.And(vx.And(b[0] == 192, b[1] == 168), b[2] == 10)
}

func vxC10InPool(ip netip.Addr) bool {
	in := false
	for k := 0; k < vxC10PoolN; k++ {
		in = vx.Or(in, ip == vxC10Pool(k))
	}

	return in
}

func vxC10Invariants() {
	s := vxC10W.s
	n := len(s.leases)

	distinctIP, distinctMAC := true, true
	for i := 0; i < n; i++ {
		for j := i + 1; j < n; j++ {
			a, b := s.leases[i], s.leases[j]
			distinctIP = vx.And(distinctIP, a.IP != b.IP)
			if vxC10SameMAC(a.HWAddr, b.HWAddr) && !vxC10ZeroMAC(a.HWAddr) {
				distinctMAC = false
			}
		}
	}
	vx.Assert(distinctIP, "two table entries for one address")
	vx.Assert(distinctMAC, "one client holds two leases")

	placed := true
	for _, e := range s.leases {
		vx.Assert(e.IP.Is4(), "table entry without an IPv4 address")
		placed = vx.And(placed, e.IP != vxC10Gateway)
		if e.IsStatic {
			placed = vx.And(placed, vxC10InSubnet(e.IP))
		} else {
			placed = vx.And(placed, vxC10InPool(e.IP))
		}
	}
	vx.Assert(placed, "dynamic lease outside the pool, or a lease on the gateway or outside the subnet")

	// address index
	vx.Assert(len(s.ipIndex) == n, "address index and lease list differ in size")
	ipOK := true
	for k, v := range s.ipIndex {
		inList := false
		for _, e := range s.leases {
			if e == v {
				inList = true
			}
		}
		vx.Assert(inList, "address index points to a lease that is not in the list")
		ipOK = vx.And(ipOK, k == v.IP)
	}
	vx.Assert(ipOK, "address index key differs from the lease address")

	// host-name index
	named := 0
	for _, e := range s.leases {
		if e.Hostname != "" {
			named++
			vx.Assert(s.hostsIndex[e.Hostname] == e, "host name of a lease is not (or not uniquely) in the host-name index")
		}
	}
	for k, v := range s.hostsIndex {
		inList := false
		for _, e := range s.leases {
			if e == v {
				inList = true
			}
		}
		vx.Assert(inList && v.Hostname == k, "stale host-name index entry")
	}
	vx.Assert(len(s.hostsIndex) == named, "host-name index and lease list differ in size")

	// pool bitmap
	bitsOK := true
	for k := 0; k < vxC10PoolN; k++ {
		used := false
		for _, e := range s.leases {
			used = vx.Or(used, e.IP == vxC10Pool(k))
		}
		bitsOK = vx.And(bitsOK, used == s.leasedOffsets.isSet(uint64(k)))
	}
	vx.Assert(bitsOK, "pool bitmap disagrees with the lease list")

	// reservations of the model are in the table
	for i := range vxC10MACs {
		if st := vxC10W.static[i]; st.has {
			e := vxC10Entry(s, vxC10MACs[i])
			vx.Assert(e != nil && e.IsStatic, "reservation missing from the table")
			if e != nil {
				vx.Assert(e.IP == st.ip, "reservation has another address in the table")
			}
		}
	}

	vxC10DiskMatches()
}

// vxC10DiskMatches: the last document handed to the writer lists exactly the
// table, each lease once.
func vxC10DiskMatches() {
	s := vxC10W.s
	vx.Assert(len(vxC10Disk) == len(s.leases), "lease file and table differ in size")
	all := true
	for _, e := range s.leases {
		found := false
		ms := vxC10MACString(e.HWAddr)
		for _, d := range vxC10Disk {
			if d.HWAddr != ms || d.IsStatic != e.IsStatic {
				continue
			}
			// a dynamic lease stored without a host name is given a generated
			// one when the file is loaded
			if d.Hostname != e.Hostname && (e.IsStatic || d.Hostname != "") {
				continue
			}
			if e.IsStatic {
				if d.Expiry != "" {
					continue
				}
			} else {
				t, err := time.Parse(time.RFC3339, d.Expiry)
				if err != nil || t.Unix() != e.Expiry.Unix() {
					continue
				}
			}
			found = vx.Or(found, d.IP == e.IP)
		}
		all = vx.And(all, found)
	}
	vx.Assert(all, "lease file does not list a lease of the table")
}

// ---- table snapshot (to recognise steps without effect, and restart) ----

type vxC10Row struct {
	p      *dhcpsvc.Lease
	ip     netip.Addr
	mac    net.HardwareAddr
	host   string
	exp    int64
	static bool
}

func vxC10Snapshot(s *v4Server) []vxC10Row {
	rows := make([]vxC10Row, len(s.leases))
	for i, e := range s.leases {
		rows[i] = vxC10Row{p: e, ip: e.IP, mac: append(net.HardwareAddr(nil), e.HWAddr...), host: e.Hostname, exp: e.Expiry.Unix(), static: e.IsStatic}
	}

	return rows
}

func vxC10Changed(before []vxC10Row, s *v4Server) bool {
	if len(before) != len(s.leases) {
		return true
	}
	for i, e := range s.leases {
		r := before[i]
		if r.p != e || !vxC10SameMAC(r.mac, e.HWAddr) || r.host != e.Hostname || r.exp != e.Expiry.Unix() || r.static != e.IsStatic {
			return true
		}
	}

	return false
}

// ---- requests ----

func vxC10Req(t dhcpv4.MessageType, mac net.HardwareAddr) *dhcpv4.DHCPv4 {
	req := &dhcpv4.DHCPv4{
		Options:      dhcpv4.Options{},
		ClientHWAddr: append(net.HardwareAddr(nil), mac...),
		// the wire decoder always yields a 4-byte ciaddr
		ClientIPAddr: net.IP{0, 0, 0, 0},
	}
	req.UpdateOption(dhcpv4.OptMessageType(t))

	return req
}

func vxC10Resp() *dhcpv4.DHCPv4 { return &dhcpv4.DHCPv4{Options: dhcpv4.Options{}} }

// vxC10Given checks an address handed to client m (offer, ack, or the reply to
// a decline) against the reference model.
func vxC10Given(m int, resp *dhcpv4.DHCPv4) (y netip.Addr) {
	w := vxC10W
	y, ok := netip.AddrFromSlice(resp.YourIPAddr)
	vx.Assert(ok && y.Is4(), "positive reply without an IPv4 address")
	if !ok {
		return y
	}

	e := vxC10Entry(w.s, vxC10MACs[m])
	vx.Assert(e != nil, "address handed out without a table entry for the client")
	if e != nil {
		vx.Assert(e.IP == y, "address handed out differs from the client's table entry")
	}

	free := true
	for j := range w.belief {
		if j == m {
			continue
		}
		if b := w.belief[j]; b.has && b.exp > vxC10Clock {
			free = vx.And(free, b.ip != y)
		}
		if st := w.static[j]; st.has {
			free = vx.And(free, st.ip != y)
		}
	}
	vx.Assert(free, "address handed out while another client holds an unexpired lease or a reservation for it")

	if st := w.static[m]; st.has {
		vx.Assert(st.ip == y, "client with a reservation is given another address")
	} else {
		vx.Assert(vxC10InPool(y), "dynamic address outside the pool")
	}
	vx.Assert(y != vxC10Gateway, "gateway address handed out")

	return y
}

// vxC10PoolHasFree: some pool address has neither a reservation nor an
// unexpired lease in the table.
func vxC10PoolHasFree(s *v4Server) bool {
	now := vxC10Now()
	anyFree := false
	for k := 0; k < vxC10PoolN; k++ {
		free := true
		for _, e := range s.leases {
			if e.IsStatic || !e.Expiry.Before(now) {
				free = vx.And(free, e.IP != vxC10Pool(k))
			}
		}
		anyFree = vx.Or(anyFree, free)
	}

	return anyFree
}

// ---- known findings ----

// vxC10DevSkipKnown prunes the input classes of the known findings instead of
// only declaring them (development aid; false in the delivered check).
const vxC10DevSkipKnown = false

func vxC10Known(id string, cond bool) {
	vx.Known(id, cond)
	if vxC10DevSkipKnown {
		vx.Assume(!cond)
	}
}

// vxC10FirstFree: no lease on the first pool address (leases of the client
// mac, which the operation replaces, not counted).
func vxC10FirstFree(s *v4Server, mac net.HardwareAddr) bool {
	free := true
	for _, e := range s.leases {
		if !vxC10SameMAC(e.HWAddr, mac) {
			free = vx.And(free, e.IP != vxC10Pool(0))
		}
	}

	return free
}

// ---- operations ----

const (
	vxC10OpDiscover = iota
	vxC10OpSelecting
	vxC10OpInitReboot
	vxC10OpRenew
	vxC10OpRelease
	vxC10OpDecline
	vxC10OpAddStatic
	vxC10OpUpdateStatic
	vxC10OpRemoveStatic
	vxC10OpClock
	vxC10OpRestart
	vxC10NumOps
)

// vxC10Args are the parameters of one operation.
type vxC10Args struct {
	op, m       int
	ip          [4]byte
	host        string
	wrongServer bool
	viaOption   bool
	exactly     bool
}

// vxC10Draw chooses an arbitrary operation of the alphabet: client one of the
// first nMACs, address = any of the server's subnet (last byte symbolic) or,
// where the network matters, of a foreign one; host name one of the first nHosts.
func vxC10Draw(ops []int, nMACs, nHosts int) (a vxC10Args) {
	a.op = ops[vx.Choice("op", len(ops))]
	switch a.op {
	case vxC10OpClock:
		// the lease time passes: exactly (leases expire "now") or a second more
		a.exactly = vx.Thorough() && vx.Choice("exactly", 2) == 1

		return a
	case vxC10OpRestart:
		return a
	}
	a.m = vx.Choice("client", nMACs)
	if a.op == vxC10OpDiscover {
		return a
	}
	foreign := false
	switch a.op {
	case vxC10OpInitReboot, vxC10OpAddStatic, vxC10OpUpdateStatic:
		foreign = vx.Choice("foreign", 2) == 1
	}
	x := vx.Byte("ip")
	if foreign {
		a.ip = [4]byte{10, 0, 0, x}
	} else {
		a.ip = [4]byte{192, 168, 10, x}
	}
	switch a.op {
	case vxC10OpRelease:
		// RELEASE carries the address in ciaddr, DECLINE in the requested-address option
		a.viaOption = vx.Thorough() && vx.Choice("via-option", 2) == 1
	case vxC10OpDecline:
		a.viaOption = !vx.Thorough() || vx.Choice("via-option", 2) == 1
	default:
		a.host = vxC10Hosts[vx.Choice("host", nHosts)]
	}
	if a.op == vxC10OpSelecting {
		a.wrongServer = vx.Choice("wrong-server", 2) == 1
	}

	return a
}

func vxC10Exec(a vxC10Args) {
	w := vxC10W
	s := w.s
	op, m := a.op, a.m

	switch op {
	case vxC10OpClock:
		if a.exactly {
			vxC10Clock += vxC10LeaseSec
		} else {
			vxC10Clock += vxC10LeaseSec + 1
		}

		return
	case vxC10OpRestart:
		vxC10Restart()

		return
	}

	mac := vxC10MACs[m]
	ip := netip.AddrFrom4(a.ip)

	switch op {
	case vxC10OpDiscover:
		isNew := vxC10Entry(s, mac) == nil
		hasFree := vxC10PoolHasFree(s)
		nBefore := len(s.leases)
		req, resp := vxC10Req(dhcpv4.MessageTypeDiscover, mac), vxC10Resp()
		rc := s.handle(req, resp)
		if rc == 1 {
			vx.Reach("offer")
			vx.Assert(resp.MessageType() == dhcpv4.MessageTypeOffer, "reply to DISCOVER is not an offer")
			vxC10Given(m, resp)
			if isNew && len(s.leases) == nBefore && !vxC10ProbeFailed {
				vx.Reach("recycled")
			}
		} else {
			vx.Reach("exhausted")
		}
		if isNew && !vxC10ProbeFailed {
			vx.Assert(vx.Or(!hasFree, rc == 1), "no offer for a new client although a pool address is neither leased nor reserved")
		}
	case vxC10OpSelecting, vxC10OpInitReboot, vxC10OpRenew:
		req, resp := vxC10Req(dhcpv4.MessageTypeRequest, mac), vxC10Resp()
		switch op {
		case vxC10OpSelecting:
			req.UpdateOption(dhcpv4.OptRequestedIPAddress(net.IP(a.ip[:])))
			sid := vxC10Self
			if a.wrongServer {
				sid = vxC10Gateway
			}
			req.UpdateOption(dhcpv4.OptServerIdentifier(sid.AsSlice()))
		case vxC10OpInitReboot:
			req.UpdateOption(dhcpv4.OptRequestedIPAddress(net.IP(a.ip[:])))
		default:
			req.ClientIPAddr = net.IP(a.ip[:])
		}
		if a.host != "" {
			req.UpdateOption(dhcpv4.OptHostName(a.host))
		}
		rc := s.handle(req, resp)
		switch rc {
		case 1:
			vx.Reach("ack")
			vx.Assert(resp.MessageType() == dhcpv4.MessageTypeAck, "positive reply to REQUEST is not an ACK")
			y := vxC10Given(m, resp)
			w.belief[m] = vxC10Belief{has: true, ip: y, exp: vxC10Clock + vxC10LeaseSec}
		case 0:
			vx.Reach("nak")
		default:
			vx.Reach("dropped")
		}
	case vxC10OpRelease, vxC10OpDecline:
		t := dhcpv4.MessageTypeRelease
		if op == vxC10OpDecline {
			t = dhcpv4.MessageTypeDecline
		}
		req, resp := vxC10Req(t, mac), vxC10Resp()
		if a.viaOption {
			req.UpdateOption(dhcpv4.OptRequestedIPAddress(net.IP(a.ip[:])))
		} else {
			req.ClientIPAddr = net.IP(a.ip[:])
		}
		// the client gives the address up, whatever the server does
		if b := w.belief[m]; b.has && b.ip == ip {
			w.belief[m] = vxC10Belief{}
		}
		e := vxC10Entry(s, mac)
		own := e != nil && !e.IsStatic && e.IP == ip
		if op == vxC10OpDecline {
			vxC10Known("C10-decline-duplicate-entry", own)
		}
		rc := s.handle(req, resp)
		if op == vxC10OpRelease {
			if own {
				vx.Reach("released")
				vx.Assert(rc == 1, "RELEASE of the client's own dynamic lease refused")
				vx.Assert(vxC10Entry(s, mac) == nil, "released lease still in the table")
			}
		} else if own {
			vx.Reach("declined")
			if rc == 1 && !net.IP(resp.YourIPAddr).IsUnspecified() {
				vxC10Given(m, resp)
			}
		}
	case vxC10OpAddStatic, vxC10OpUpdateStatic, vxC10OpRemoveStatic:
		l := &dhcpsvc.Lease{
			HWAddr:   append(net.HardwareAddr(nil), mac...),
			IP:       ip,
			Hostname: a.host,
			IsStatic: true,
		}
		if op != vxC10OpRemoveStatic {
			vxC10Known("C10-static-outside-pool-marks-offset-0", vx.And(vx.And(vxC10InSubnet(ip), !vxC10InPool(ip)), vxC10FirstFree(s, mac)))
		}
		// dynamic leases that adding the reservation has to replace
		replaced, adjacent, nameClash := 0, false, false
		if op == vxC10OpAddStatic {
			last := -2
			for i, e := range s.leases {
				match := vxC10SameMAC(e.HWAddr, mac) || e.IP == ip
				if match && last == i-1 {
					// the entry after a removed one is not examined
					adjacent = true
				}
				if e.IsStatic {
					continue
				}
				if match {
					replaced++
					last = i
				} else if l.Hostname != "" && e.Hostname == l.Hostname {
					nameClash = true
				}
			}
			vxC10Known("C10-static-add-skips-entry-after-removed-one", adjacent)
			vxC10Known("C10-static-add-clears-host-name-but-not-index", nameClash)
		}
		var err error
		switch op {
		case vxC10OpAddStatic:
			err = s.AddStaticLease(l)
			vxC10Known("C10-rejected-static-add-drops-dynamic-lease", err != nil && replaced > 0)
		case vxC10OpUpdateStatic:
			err = s.UpdateStaticLease(l)
		default:
			err = s.RemoveStaticLease(l)
		}
		if err != nil {
			vx.Reach("static-rejected")

			break
		}
		// the administrator's decision overrides what the clients concerned were told
		w.belief[m] = vxC10Belief{}
		if op == vxC10OpRemoveStatic {
			vx.Reach("static-removed")
			w.static[m] = vxC10Belief{}

			break
		}
		if op == vxC10OpAddStatic {
			vx.Reach("static-added")
		} else {
			vx.Reach("static-updated")
		}
		for j := range w.belief {
			if b := w.belief[j]; b.has && b.ip == ip {
				w.belief[j] = vxC10Belief{}
			}
		}
		w.static[m] = vxC10Belief{has: true, ip: ip}
	}
}

// vxC10Restart: a new server process loads the lease file.
func vxC10Restart() {
	w := vxC10W
	old := w.s
	before := vxC10Snapshot(old)

	outside := false
	for _, e := range old.leases {
		if e.IsStatic {
			outside = vx.Or(outside, !vxC10InPool(e.IP))
		}
	}
	vxC10Known("C10-static-outside-pool-marks-offset-0", vx.And(outside, vxC10FirstFree(old, nil)))

	srv, s := vxC10NewServer()
	err := srv.dbLoad()
	vx.Assert(err == nil, "loading the lease file failed")

	vx.Assert(len(s.leases) == len(before), "restart changes the number of leases")
	all := true
	for _, r := range before {
		found := false
		for _, e := range s.leases {
			if !vxC10SameMAC(e.HWAddr, r.mac) || e.IsStatic != r.static {
				continue
			}
			if !r.static && e.Expiry.Unix() != r.exp {
				continue
			}
			// a dynamic lease without a host name (offered, not yet
			// acknowledged, or blocked) is given a generated one on load
			if e.Hostname != r.host && (r.static || r.host != "") {
				continue
			}
			found = vx.Or(found, e.IP == r.ip)
		}
		all = vx.And(all, found)
	}
	vx.Assert(all, "a lease is missing or altered after restart")

	// the answers given to DNS
	same := true
	for _, r := range before {
		if r.static || r.host != "" {
			vx.Assert(s.HostByIP(r.ip) == old.HostByIP(r.ip), "HostByIP differs after restart")
		}
	}
	for _, h := range vxC10Hosts[1:] {
		same = vx.And(same, s.IPByHost(h) == old.IPByHost(h))
	}
	for _, r := range before {
		if r.host != "" {
			same = vx.And(same, s.IPByHost(r.host) == old.IPByHost(r.host))
		}
	}
	vx.Assert(same, "IPByHost differs after restart")
	vx.Reach("restart")

	w.srv, w.s = srv, s
}

func vxC10Init(poolN, probeBudget int) {
	vxC10PoolN = poolN
	vxC10Clock = 1_700_000_000
	vxC10Disk, vxC10DiskExists, vxC10Stores = nil, false, 0
	vxC10ProbeBudget, vxC10ProbeFailed = probeBudget, false
	vxC10W = &vxC10World{}
	vxC10W.srv, vxC10W.s = vxC10NewServer()
}

// vxC10Do performs one operation and checks the invariants; it reports whether
// the operation had any effect on the table or the clock.
func vxC10Do(a vxC10Args) (effect bool) {
	before := vxC10Snapshot(vxC10W.s)
	clock := vxC10Clock
	srvBefore := vxC10W.s
	vxC10Exec(a)
	vxC10Invariants()

	return srvBefore != vxC10W.s || clock != vxC10Clock || vxC10Changed(before, vxC10W.s)
}

// vxC10Run: k arbitrary operations; firstMACs clients are already known.
func vxC10Run(k int, ops []int, knownMACs, nHosts int) {
	for i := 0; i < k; i++ {
		// clients are interchangeable: a step uses a known one or the next new one
		nMACs := knownMACs + i + 1
		if nMACs > vxC10MaxMACs {
			nMACs = vxC10MaxMACs
		}
		effect := vxC10Do(vxC10Draw(ops, nMACs, nHosts))
		if i < k-1 {
			// a step without any effect is the same as no step
			vx.Assume(effect)
		}
	}
}

var vxC10AllOps = []int{
	vxC10OpDiscover, vxC10OpSelecting, vxC10OpInitReboot, vxC10OpRenew, vxC10OpRelease, vxC10OpDecline,
	vxC10OpAddStatic, vxC10OpUpdateStatic, vxC10OpRemoveStatic, vxC10OpClock, vxC10OpRestart,
}

// vxC10History: K arbitrary operations from the empty table.
func vxC10History() {
	k, nHosts, pool := 3, 2, 2
	if vx.Thorough() {
		nHosts = 3
		pool = 2 + vx.Choice("pool", 2)
	}
	vxC10Init(pool, 0)
	vxC10Run(k, vxC10AllOps, 0, nHosts)
}

// vxC10Protocol (thorough): four client messages, clock steps or restarts.
func vxC10Protocol() {
	vxC10Init(2, 0)
	vxC10Run(4, []int{
		vxC10OpDiscover, vxC10OpSelecting, vxC10OpInitReboot, vxC10OpRenew, vxC10OpRelease, vxC10OpDecline,
		vxC10OpClock, vxC10OpRestart,
	}, 0, 2)
}

// vxC10Admin (thorough): four operations mixing the static-lease API with the
// basic client exchange, clock steps and restarts.
func vxC10Admin() {
	vxC10Init(2, 0)
	vxC10Run(4, []int{
		vxC10OpDiscover, vxC10OpSelecting, vxC10OpAddStatic, vxC10OpUpdateStatic, vxC10OpRemoveStatic,
		vxC10OpClock, vxC10OpRestart,
	}, 0, 2)
}

// vxC10Full: a populated table built by the real handlers, then 2 arbitrary
// operations.  Set-up 0: both pool addresses offered and acknowledged (one
// client with a host name).  Thorough adds set-up 1: the first pool address
// reserved for client 0, the second acknowledged to client 1; set-up 2: client
// 0's lease acknowledged and expired, client 1's fresh.
func vxC10Full() {
	setup := 0
	if vx.Thorough() {
		setup = vx.Choice("setup", 3)
	}
	vxC10Init(2, 0)
	ack := func(m int, host string) {
		vxC10Do(vxC10Args{op: vxC10OpDiscover, m: m})
		e := vxC10Entry(vxC10W.s, vxC10MACs[m])
		vx.Assert(e != nil, "set-up: no offer")
		if e == nil {
			return
		}
		vxC10Do(vxC10Args{op: vxC10OpSelecting, m: m, ip: e.IP.As4(), host: host})
		vx.Assert(vxC10W.belief[m].has, "set-up: lease not acknowledged")
	}
	switch setup {
	case 0:
		ack(0, "h1")
		ack(1, "")
	case 1:
		vxC10Do(vxC10Args{op: vxC10OpAddStatic, m: 0, ip: [4]byte{192, 168, 10, vxC10PoolLo}, host: "h1"})
		vx.Assert(vxC10W.static[0].has, "set-up: reservation rejected")
		ack(1, "")
	default:
		ack(0, "h1")
		vxC10Do(vxC10Args{op: vxC10OpClock})
		ack(1, "")
	}
	vx.Reach("full")
	vxC10Run(2, vxC10AllOps, 2, 2)
}

// vxC10Probe: the ICMP probe may find offered addresses in use (at most twice).
func vxC10Probe() {
	// at least 4 operations (thorough: 5): discover, request, decline with a probe
	// conflict, restart is the shortest history that loses a lease on restart
	// (C10-restart-drops-lease-on-generated-hostname)
	k := 4
	if vx.Thorough() {
		k = 5
	}
	vxC10Init(2, 2)
	vxC10W.s.conf.ICMPTimeout = 1
	vxC10Run(k, []int{vxC10OpDiscover, vxC10OpSelecting, vxC10OpDecline, vxC10OpClock, vxC10OpRestart}, 0, 2)
}
