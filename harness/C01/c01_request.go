//go:build verif

package dnsforward

// C01 — a query blocked by rules is answered locally and never forwarded.
//
//vx:overlay internal/dnsforward/zz_vx_c01.go
//vx:native
//vx:entry vxC01Decision reach=blocked,forwarded,allowlisted,protection-off,client-filtering-off,service-blocked
//vx:entry vxC01Modes reach=blocked
//vx:entry vxC01ProtectionHistory reach=blocked,forwarded
//vx:entry vxC01NameCase reach=blocked
//vx:stub (*github.com/AdguardTeam/dnsproxy/proxy.Proxy).Resolve vxC01Resolve
//vx:opaque (net/netip.Addr).String
//vx:note drives the real (*Server).handleDNSRequest stage pipeline; rule engines (urlfilter) answer with an arbitrary verdict: allow engine {no match, network rule, host rules}, block engine {no match, network rule (Whitelist symbolic), host rules v4 0..2 / v6 0..2 with symbolic addresses}; qtype fully symbolic; five blocking modes + an invalid one; protection on/off/paused (deadline vs clock symbolic); global and per-client filtering flags; <=1 (quick) / <=2 (thorough) blocked services with symbolic rule verdicts and schedule-pause bit; upstream answer = symbolic rcode + one record
//vx:note ProtectionHistory entry: 3 (thorough 5) operations from {enable, switch off, pause until a symbolic deadline, let a symbolic time pass and look at the status (UpdatedProtectionStatus) with the worker that ends an expired pause run to completion} through the real SetProtectionStatus / enableProtectionAfterPause, then a query at a symbolic clock
//vx:note outside: rule syntax -> verdict (urlfilter), $dnsrewrite rules, safe browsing/parental/safe search (off), rewrites (C06), dnsproxy cache and transport

import (
	"context"
	"log/slog"
	"net"
	"net/netip"
	"time"

	"github.com/AdguardTeam/AdGuardHome/internal/aghnet"
	"github.com/AdguardTeam/AdGuardHome/internal/filtering"
	"github.com/AdguardTeam/AdGuardHome/internal/vx"
	"github.com/AdguardTeam/dnsproxy/proxy"
	"github.com/AdguardTeam/golibs/cache"
	"github.com/AdguardTeam/urlfilter"
	"github.com/AdguardTeam/urlfilter/rules"
	"github.com/miekg/dns"
)

var (
	vxC01Resolves  []string
	vxC01Upstream  *dns.Msg
	vxC01LogAdds   int
	vxC01StatsUpds int
)

func vxC01Resolve(p *proxy.Proxy, pctx *proxy.DNSContext) error {
	vxC01Resolves = append(vxC01Resolves, pctx.Req.Question[0].Name)
	resp := &dns.Msg{}
	resp.SetReply(pctx.Req)
	resp.Rcode = int(vx.Byte("up.rcode") & 0xf)
	resp.Answer = []dns.RR{&dns.A{Hdr: dns.RR_Header{Name: pctx.Req.Question[0].Name, Rrtype: dns.TypeA, Class: dns.ClassINET, Ttl: 60}, A: net.IP{93, 184, 216, 34}}}
	vxC01Upstream = resp
	pctx.Res = resp
	return nil
}

type vxC01Cache struct{}

func (vxC01Cache) Set(key, val []byte) bool  { return false }
func (vxC01Cache) Get(key []byte) []byte     { return nil }
func (vxC01Cache) Del(key []byte)            {}
func (vxC01Cache) Clear()                    {}
func (vxC01Cache) Stats() (s cache.Stats)    { return s }

type vxC01AddrProc struct{}

func (vxC01AddrProc) Process(ctx context.Context, ip netip.Addr) {}
func (vxC01AddrProc) Close() error                               { return nil }

type vxC01DHCP struct{}

func (vxC01DHCP) HostByIP(ip netip.Addr) string   { return "" }
func (vxC01DHCP) IPByHost(host string) netip.Addr { return netip.Addr{} }
func (vxC01DHCP) Enabled() bool                   { return false }

func vxC01IP4(name string) netip.Addr {
	var b [4]byte
	copy(b[:], vx.Bytes(name, 4))
	return netip.AddrFrom4(b)
}

func vxC01IP6(name string) netip.Addr {
	var b [16]byte
	copy(b[:], vx.Bytes(name, 16))
	// a plain IPv6 address, as a hosts-style AAAA rule carries
	vx.Assume(!(b[10] == 0xff && b[11] == 0xff && b[0]|b[1]|b[2]|b[3]|b[4]|b[5]|b[6]|b[7]|b[8]|b[9] == 0))
	return netip.AddrFrom16(b)
}

func vxC01Decision() { vxC01Request(true) }

// vxC01NameCase: the rule engines match lower-case patterns; the queried name
// arrives in any letter case (each of 6 letter positions independently upper or
// lower case, the first and the last included).
func vxC01NameCase() {
	// the name is blocked either by a rule-list rule (rule-list filtering on) or
	// by a blocked service whose rule matches it while rule-list filtering is
	// switched off globally or for the client
	viaService := vx.Bool("blockedByService")
	globalFiltering, clientOwn := true, false
	if viaService {
		globalFiltering = vx.Bool("globalFiltering")
		clientOwn = !globalFiltering || vx.Bool("clientUsesOwnSettings")
	}
	conf := &filtering.Config{
		BlockingMode:       filtering.BlockingModeDefault,
		BlockedResponseTTL: 10,
		ProtectionEnabled:  true,
		FilteringEnabled:   globalFiltering,
		BlockedServices:    &filtering.BlockedServices{},
	}
	var services []string
	if viaService {
		services = []string{"svc1"}
		conf.BlockedServices.IDs = services
	}
	conf.ApplyClientFiltering = func(id string, addr netip.Addr, setts *filtering.Settings) {
		if clientOwn {
			setts.FilteringEnabled = false
		}
	}
	filtering.VxC01Clock = 1_700_000_000
	filtering.VxC01Paused = false
	filtering.VxC01Calls = nil
	d := filtering.VxC01NewFilter(conf, services)
	d.SetEnabled(globalFiltering)
	if viaService {
		filtering.VxC01SvcMatch = []bool{false}
		filtering.VxC01SvcMatchFn = func(i int, req *rules.Request) bool { return req.Hostname == "blocked.example.org" }
	}
	filtering.VxC01Verdict = func(allow bool, req *urlfilter.DNSRequest) (*urlfilter.DNSResult, bool) {
		res := &urlfilter.DNSResult{}
		if viaService || allow || req.Hostname != "blocked.example.org" {
			return res, false
		}
		res.NetworkRule = &rules.NetworkRule{RuleText: "||blocked.example.org^", FilterListID: 5}
		return res, true
	}
	name := []byte("blocked.example.org.")
	for _, i := range []int{0, 1, 6, 8, 14, 18} {
		if vx.Bool("upper") {
			name[i] -= 'a' - 'A'
		}
	}
	req := &dns.Msg{}
	req.Id = 1
	req.Question = []dns.Question{{Name: string(name), Qtype: dns.TypeA, Qclass: dns.ClassINET}}
	pctx := &proxy.DNSContext{Proto: proxy.ProtoUDP, Req: req, Addr: netip.AddrPortFrom(netip.AddrFrom4([4]byte{192, 168, 1, 7}), 5353), RequestID: 9}
	s := &Server{dnsFilter: d, dnsProxy: &proxy.Proxy{}, clientIDCache: vxC01Cache{}, addrProc: vxC01AddrProc{}, dhcpServer: vxC01DHCP{}, ipset: &ipsetHandler{logger: slog.Default()}, anonymizer: aghnet.NewIPMut(nil)}
	s.conf.TLSConf = &TLSConfig{}
	vxC01Resolves, vxC01Upstream = nil, nil
	err := s.handleDNSRequest(nil, pctx)
	vx.Assert(err == nil, "request processing does not fail")
	vx.Reach("blocked")
	vx.Assert(len(vxC01Resolves) == 0, "a name matching a blocking rule is blocked in any letter case")
}

// vxC01ProtectionHistory: protection switched by a history of admin
// operations; a blocking network rule matches the name.
func vxC01ProtectionHistory() {
	clock := int64(1_700_000_000)
	conf := &filtering.Config{
		BlockingMode:       filtering.BlockingModeDefault,
		BlockedResponseTTL: 10,
		ProtectionEnabled:  true,
		FilteringEnabled:   true,
		BlockedServices:    &filtering.BlockedServices{},
	}
	conf.ApplyClientFiltering = func(id string, addr netip.Addr, setts *filtering.Settings) {}
	filtering.VxC01Clock = clock
	filtering.VxC01Calls = nil
	d := filtering.VxC01NewFilter(conf, nil)
	d.SetEnabled(true)
	filtering.VxC01Verdict = func(allow bool, req *urlfilter.DNSRequest) (*urlfilter.DNSResult, bool) {
		res := &urlfilter.DNSResult{}
		if allow || req.Hostname != "blocked.example.org" {
			return res, false
		}
		res.NetworkRule = &rules.NetworkRule{RuleText: "||blocked^", FilterListID: 5}
		return res, true
	}
	s := &Server{dnsFilter: d, dnsProxy: &proxy.Proxy{}, clientIDCache: vxC01Cache{}, addrProc: vxC01AddrProc{}, dhcpServer: vxC01DHCP{}, ipset: &ipsetHandler{logger: slog.Default()}, anonymizer: aghnet.NewIPMut(nil)}
	s.conf.TLSConf = &TLSConfig{}
	s.conf.ConfigModified = func() {}
	// reference state: enabled flag and optional pause deadline
	refOn, refHasDl, refDl := true, false, int64(0)
	ran := 0 // goroutines already run
	nops := 3
	if vx.Thorough() {
		nops = 5
	}
	for i := 0; i < nops; i++ {
		switch vx.Choice("op", 4) {
		case 0:
			d.SetProtectionStatus(true, nil)
			refOn, refHasDl = true, false
		case 1:
			d.SetProtectionStatus(false, nil)
			refOn, refHasDl = false, false
		case 2:
			dl := clock + int64(vx.Byte("pauseFor")) + 1
			t := time.Unix(dl, 0)
			d.SetProtectionStatus(false, &t)
			refOn, refHasDl, refDl = false, true, dl
		default:
			// time passes, the status is looked at (every query and the status
			// API do that) and the worker that ends an expired pause runs
			clock += int64(vx.Byte("gap"))
			filtering.VxC01Clock = clock
			on, _ := s.UpdatedProtectionStatus()
			for ; ran < vx.Goroutines(); ran++ {
				vx.RunGoroutine(ran)
			}
			want := refOn
			if refHasDl {
				want = clock >= refDl
				if want {
					refOn, refHasDl = true, false
				}
			}
			vx.Assert(on == want, "the reported protection status follows the switch and the pause deadline")
		}
	}
	now := clock + int64(vx.Uint16("elapsed"))
	filtering.VxC01Clock = now

	req := &dns.Msg{}
	req.Id = 1
	req.Question = []dns.Question{{Name: "blocked.example.org.", Qtype: dns.TypeA, Qclass: dns.ClassINET}}
	pctx := &proxy.DNSContext{Proto: proxy.ProtoUDP, Req: req, Addr: netip.AddrPortFrom(netip.AddrFrom4([4]byte{192, 168, 1, 7}), 5353), RequestID: 9}
	vxC01Resolves, vxC01Upstream = nil, nil
	err := s.handleDNSRequest(nil, pctx)
	vx.Assert(err == nil, "request processing does not fail")

	protection := refOn
	if refHasDl {
		protection = now >= refDl // a pause ends at its deadline
	}
	if protection {
		vx.Reach("blocked")
		vx.Assert(len(vxC01Resolves) == 0, "protection on: the blocked name is not forwarded")
	} else {
		vx.Reach("forwarded")
		vx.Assert(len(vxC01Resolves) == 1, "protection switched off or paused: nothing is blocked")
	}
}

func vxC01Modes() { vxC01Request(false) }

// vxC01Request: full = every flag/verdict combination under the default
// blocking mode; !full = a blocked name under every blocking mode.
func vxC01Request(full bool) {
	// ---- configuration ----
	modes := []filtering.BlockingMode{filtering.BlockingModeDefault, filtering.BlockingModeNullIP, filtering.BlockingModeCustomIP, filtering.BlockingModeNXDOMAIN, filtering.BlockingModeREFUSED}
	mode := filtering.BlockingModeDefault
	if !full {
		mode = modes[vx.Choice("mode", len(modes))]
	}
	custom4, custom6 := vxC01IP4("custom4"), vxC01IP6("custom6")
	protOn, paused, globalFiltering, clientOwn, clientFiltering := true, false, true, false, false
	nsvc := 0
	clock := int64(1_700_000_000)
	deadline := clock
	if full {
		protOn = vx.Bool("protectionEnabled")
		paused = vx.Bool("hasPauseDeadline")
		deadline = clock + int64(int8(vx.Byte("deadlineDelta")))
		globalFiltering = vx.Bool("globalFiltering")
		clientOwn = vx.Bool("clientUsesOwnSettings")
		clientFiltering = vx.Bool("clientFiltering")
		maxSvc := 2
		if vx.Thorough() {
			maxSvc = 3
		}
		nsvc = vx.Choice("nservices", maxSvc)
	}

	conf := &filtering.Config{
		BlockingMode:       mode,
		BlockingIPv4:       custom4,
		BlockingIPv6:       custom6,
		BlockedResponseTTL: 10,
		ProtectionEnabled:  protOn,
		FilteringEnabled:   globalFiltering,
		BlockedServices:    &filtering.BlockedServices{IDs: []string{"svc1", "svc2"}[:nsvc]},
	}
	if paused {
		dl := time.Unix(deadline, 0)
		conf.ProtectionDisabledUntil = &dl
	}
	conf.ApplyClientFiltering = func(id string, addr netip.Addr, setts *filtering.Settings) {
		if clientOwn {
			setts.FilteringEnabled = clientFiltering
		}
	}
	filtering.VxC01Clock = clock
	filtering.VxC01Paused = vx.Bool("schedulePause")
	filtering.VxC01Calls = nil
	d := filtering.VxC01NewFilter(conf, []string{"svc1", "svc2"}[:nsvc])
	d.SetEnabled(globalFiltering)
	filtering.VxC01SvcMatch = []bool{vx.Bool("svc1match"), vx.Bool("svc2match")}[:nsvc]

	// ---- engine verdicts for the queried name ----
	allowKind, blockKind, blockWL, n4, n6 := 0, 0, false, 0, 0
	if full {
		allowKind = vx.Choice("allowVerdict", 3) // 0 none, 1 network rule, 2 host rules
		blockKind = vx.Choice("blockVerdict", 3)
	} else {
		blockKind = 1 + vx.Choice("blockVerdict", 2)
	}
	switch blockKind {
	case 1:
		if full {
			blockWL = vx.Bool("blockRuleIsWhitelist")
		}
	case 2:
		max := 3
		if full {
			max = 2
		}
		n4, n6 = vx.Choice("blockHostV4", max), vx.Choice("blockHostV6", max)
	}
	var hr4, hr6 []*rules.HostRule
	for i := 0; i < n4; i++ {
		hr4 = append(hr4, filtering.VxC01HostRule("h4", vxC01IP4("rule4")))
	}
	for i := 0; i < n6; i++ {
		hr6 = append(hr6, filtering.VxC01HostRule("h6", vxC01IP6("rule6")))
	}
	if blockKind == 2 {
		vx.Assume(n4+n6 > 0)
	}
	filtering.VxC01Verdict = func(allow bool, req *urlfilter.DNSRequest) (*urlfilter.DNSResult, bool) {
		res := &urlfilter.DNSResult{}
		if req.Hostname != "blocked.example.org" {
			// the engines match lower-case rule patterns case-sensitively: any
			// other spelling of the queried name matches nothing
			return res, false
		}
		if allow {
			switch allowKind {
			case 1:
				res.NetworkRule = &rules.NetworkRule{RuleText: "@@||allowed^", Whitelist: true, FilterListID: 3}
				return res, true
			case 2:
				res.HostRulesV4 = []*rules.HostRule{filtering.VxC01HostRule("allow-host", netip.AddrFrom4([4]byte{1, 2, 3, 4}))}
				return res, true
			}
			return res, false
		}
		switch blockKind {
		case 1:
			res.NetworkRule = &rules.NetworkRule{RuleText: "||blocked^", Whitelist: blockWL, FilterListID: 5}
			return res, true
		case 2:
			res.HostRulesV4, res.HostRulesV6 = hr4, hr6
			return res, true
		}
		return res, false
	}

	// ---- the request ----
	qtype := vx.Uint16("qtype")
	const name = "Blocked.Example.org."
	req := &dns.Msg{}
	req.Id = 1
	req.RecursionDesired = true
	req.Question = []dns.Question{{Name: name, Qtype: qtype, Qclass: dns.ClassINET}}
	pctx := &proxy.DNSContext{Proto: proxy.ProtoUDP, Req: req, Addr: netip.AddrPortFrom(netip.AddrFrom4([4]byte{192, 168, 1, 7}), 5353), RequestID: 9}

	s := &Server{dnsFilter: d, dnsProxy: &proxy.Proxy{}, clientIDCache: vxC01Cache{}, addrProc: vxC01AddrProc{}, dhcpServer: vxC01DHCP{}, ipset: &ipsetHandler{logger: slog.Default()}, anonymizer: aghnet.NewIPMut(nil)}
	s.conf.TLSConf = &TLSConfig{}
	vxC01Resolves, vxC01Upstream = nil, nil

	err := s.handleDNSRequest(nil, pctx)
	vx.Assert(err == nil, "request processing does not fail")
	res := pctx.Res
	vx.Assert(res != nil, "a response is produced")
	vx.Note(len(vxC01Resolves))
	if res != nil {
		vx.Note(res.Rcode)
		vx.Note(len(res.Answer))
	}

	// ---- reference decision (from the statement) ----
	protection := protOn
	if paused {
		protection = deadline <= clock // an expired pause counts as enabled, a running one as disabled
		if deadline > clock {
			protection = false
		}
	}
	filteringOn := globalFiltering
	if clientOwn {
		filteringOn = clientFiltering
	}
	isAddrQ := qtype == dns.TypeA || qtype == dns.TypeAAAA || qtype == dns.TypeHTTPS
	blockedByList := false
	if filteringOn && protection && allowKind == 0 {
		switch blockKind {
		case 1:
			blockedByList = !blockWL
		case 2:
			// a hosts-style line matching the name blocks it for every question type
			blockedByList = true
		}
	}
	svcBlocked := false
	if protection && !filtering.VxC01Paused && !(filteringOn && allowKind != 0) && !blockedByList {
		for i := 0; i < nsvc; i++ {
			if filtering.VxC01SvcMatch[i] {
				svcBlocked = true
			}
		}
		// a whitelist verdict of the block engine (@@ rule in a block list) is an allow rule
		if filteringOn && blockKind == 1 && blockWL {
			svcBlocked = false
		}
	}
	if qtype == dns.TypeAAAA || qtype == dns.TypeA || true {
		_ = isAddrQ
	}

	if blockedByList || svcBlocked {
		vx.Reach("blocked")
		if svcBlocked {
			vx.Reach("service-blocked")
		}
		vx.Assert(len(vxC01Resolves) == 0, "a blocked name is never sent to any upstream")
		vx.Assert(res != vxC01Upstream, "the answer is synthetic")
		vxC01CheckBlockedAnswer(res, req, mode, custom4, custom6, qtype, hr4, hr6, blockedByList && blockKind == 2)
		return
	}
	// forwarded
	if !protection {
		vx.Reach("protection-off")
	}
	if !filteringOn {
		vx.Reach("client-filtering-off")
		for _, c := range filtering.VxC01Calls {
			_ = c
			vx.Fail("a client whose filtering is off is not matched against rule lists")
		}
	}
	if filteringOn && protection && allowKind != 0 {
		vx.Reach("allowlisted")
	}
	vx.Reach("forwarded")
	vx.Assert(len(vxC01Resolves) == 1, "an allowed / unmatched query is forwarded exactly once")
	vx.Assert(len(vxC01Resolves) == 0 || vxC01Resolves[0] == name, "the original question is forwarded")
	vx.Assert(res == vxC01Upstream, "the upstream answer reaches the client")
	if res != nil && res == vxC01Upstream {
		vx.Assert(len(res.Question) == 1 && res.Question[0].Name == name && res.Question[0].Qtype == qtype, "original question intact")
		vx.Assert(len(res.Answer) == 1, "upstream records intact")
		if len(res.Answer) == 1 {
			a, ok := res.Answer[0].(*dns.A)
			vx.Assert(ok && a.A.Equal(net.IP{93, 184, 216, 34}), "upstream record data intact")
		}
	}
}

// vxC01CheckBlockedAnswer: the synthetic response of the configured blocking mode.
func vxC01CheckBlockedAnswer(res, req *dns.Msg, mode filtering.BlockingMode, c4, c6 netip.Addr, qtype uint16, hr4, hr6 []*rules.HostRule, hostRules bool) {
	if res == nil {
		return
	}
	addrQ := qtype == dns.TypeA || qtype == dns.TypeAAAA || qtype == dns.TypeHTTPS
	if !addrQ {
		// other types: empty successful answer (NODATA), in every mode
		vx.Assert(res.Rcode == dns.RcodeSuccess && len(res.Answer) == 0, "non-address question: empty NOERROR answer")
		return
	}
	switch mode {
	case filtering.BlockingModeNXDOMAIN:
		vx.Assert(res.Rcode == dns.RcodeNameError && len(res.Answer) == 0, "nxdomain mode answers NXDOMAIN")
	case filtering.BlockingModeREFUSED:
		vx.Assert(res.Rcode == dns.RcodeRefused && len(res.Answer) == 0, "refused mode answers REFUSED")
	case filtering.BlockingModeNullIP:
		vxC01CheckAddrs(res, qtype, []netip.Addr{netip.IPv4Unspecified()}, []netip.Addr{netip.IPv6Unspecified()})
	case filtering.BlockingModeCustomIP:
		if qtype == dns.TypeHTTPS {
			vx.Assert(res.Rcode == dns.RcodeSuccess && len(res.Answer) == 0, "custom_ip mode, HTTPS question: empty answer")
			return
		}
		vxC01CheckAddrs(res, qtype, []netip.Addr{c4}, []netip.Addr{c6})
	case filtering.BlockingModeDefault:
		var want4, want6 []netip.Addr
		if hostRules {
			for _, r := range hr4 {
				want4 = append(want4, r.IP)
			}
			for _, r := range hr6 {
				want6 = append(want6, r.IP)
			}
		}
		if qtype == dns.TypeA && len(want4) > 0 || qtype == dns.TypeAAAA && len(want6) > 0 {
			// default mode: the address of the hosts-style rule (duplicates collapse)
			vx.Assert(res.Rcode == dns.RcodeSuccess && len(res.Answer) >= 1, "default mode answers with the rule's address")
			for _, rr := range res.Answer {
				ok := false
				switch rr := rr.(type) {
				case *dns.A:
					ip, _ := netip.AddrFromSlice(rr.A)
					for _, w := range want4 {
						ok = vx.Or(ok, ip.Unmap() == w)
					}
				case *dns.AAAA:
					ip, _ := netip.AddrFromSlice(rr.AAAA)
					for _, w := range want6 {
						ok = vx.Or(ok, ip == w)
					}
				}
				vx.Assert(ok, "every answer address comes from a matching rule (no upstream data)")
			}
			return
		}
		vxC01CheckAddrs(res, qtype, []netip.Addr{netip.IPv4Unspecified()}, []netip.Addr{netip.IPv6Unspecified()})
	}
}

func vxC01CheckAddrs(res *dns.Msg, qtype uint16, v4, v6 []netip.Addr) {
	vx.Assert(res.Rcode == dns.RcodeSuccess, "NOERROR")
	switch qtype {
	case dns.TypeA:
		vx.Assert(len(res.Answer) == 1, "one A record")
		if len(res.Answer) == 1 {
			a, ok := res.Answer[0].(*dns.A)
			vx.Assert(ok, "A record")
			if ok {
				ip, _ := netip.AddrFromSlice(a.A)
				vx.Assert(ip.Unmap() == v4[0], "the blocking address of the mode")
			}
		}
	case dns.TypeAAAA:
		vx.Assert(len(res.Answer) == 1, "one AAAA record")
		if len(res.Answer) == 1 {
			a, ok := res.Answer[0].(*dns.AAAA)
			vx.Assert(ok, "AAAA record")
			if ok {
				ip, _ := netip.AddrFromSlice(a.AAAA)
				vx.Assert(ip == v6[0], "the blocking address of the mode")
			}
		}
	default:
		vx.Assert(len(res.Answer) == 0, "HTTPS question: empty answer")
	}
}
