package main

import (
	"fmt"
	"go/token"
	"go/types"
	"math"
	"unicode/utf8"

	"golang.org/x/tools/go/ssa"
)

// idxPtr is the address of base[idx] for a symbolic idx already known to be in
// bounds; all elements are scalar terms of one width.
type idxPtr struct {
	base []Value
	idx  *Term
}

const maxIteChain = 256

func allScalarTerms(xs []Value) bool {
	if len(xs) == 0 {
		return false
	}
	w := uint16(0xffff)
	for _, x := range xs {
		t, ok := x.(*Term)
		if !ok {
			return false
		}
		if w == 0xffff {
			w = t.w
		} else if t.w != w {
			return false
		}
	}
	return true
}

func (in *Interp) loadIdx(p *idxPtr) Value {
	n := len(p.base)
	allConst := true
	for _, v := range p.base {
		if !v.(*Term).IsConst() {
			allConst = false
			break
		}
	}
	if allConst && n > 4 {
		// constant table: one unsigned comparison per run of equal values
		res := p.base[n-1].(*Term)
		for i := n - 2; i >= 0; i-- {
			cur := p.base[i].(*Term)
			if cur.val == p.base[i+1].(*Term).val {
				continue
			}
			// indexes <= i select the run ending at i
			res = in.f.Ite(in.f.Cmp(OpUle, p.idx, mkConst(uint64(i), p.idx.w)), cur, res)
		}
		// the chain was built from the top down, so re-nest: entries of lower
		// runs must win; build again from low to high
		res = p.base[n-1].(*Term)
		type run struct {
			end int
			v   *Term
		}
		var runs []run
		for i := 0; i < n; i++ {
			if i == n-1 || p.base[i].(*Term).val != p.base[i+1].(*Term).val {
				runs = append(runs, run{i, p.base[i].(*Term)})
			}
		}
		res = runs[len(runs)-1].v
		for k := len(runs) - 2; k >= 0; k-- {
			res = in.f.Ite(in.f.Cmp(OpUle, p.idx, mkConst(uint64(runs[k].end), p.idx.w)), runs[k].v, res)
		}
		return res
	}
	res := p.base[n-1].(*Term)
	for i := n - 2; i >= 0; i-- {
		res = in.f.Ite(in.f.Eq(p.idx, mkConst(uint64(i), p.idx.w)), p.base[i].(*Term), res)
	}
	return res
}

func (in *Interp) storeIdx(p *idxPtr, v Value) {
	t := v.(*Term)
	for i := range p.base {
		p.base[i] = in.f.Ite(in.f.Eq(p.idx, mkConst(uint64(i), p.idx.w)), t, p.base[i].(*Term))
	}
}

// boundsCheck branches on 0 <= idx < n; it returns idx widened to 64 bits.
func (in *Interp) boundsCheck(idx *Term, it types.Type, n int, what string) *Term {
	signed := true
	if b := basicOf(it); b != nil {
		signed = isSigned(b)
	}
	if signed {
		idx = in.f.SExt(idx, 64)
	} else {
		idx = in.f.ZExt(idx, 64)
	}
	ok := in.f.Cmp(OpUlt, idx, mkConst(uint64(n), 64))
	if ok.IsConst() {
		if ok.val == 0 {
			in.throw(fmt.Sprintf("index out of range [%d] with length %d", int64(idx.val), n))
		}
		return idx
	}
	if !in.p.Branch(ok) {
		in.throw(fmt.Sprintf("index out of range [sym] with length %d (%s)", n, what))
	}
	return idx
}

func (in *Interp) indexAddr(fr *frame, instr *ssa.IndexAddr, x, idxv Value) Value {
	idx := idxv.(*Term)
	var base []Value
	switch x := x.(type) {
	case Slice:
		base = x
	case *Value:
		if x == nil {
			in.throw("invalid memory address or nil pointer dereference")
		}
		base = (*x).(Array)
	default:
		panic(fmt.Sprintf("IndexAddr on %T", x))
	}
	idx = in.boundsCheck(idx, instr.Index.Type(), len(base), "IndexAddr")
	if idx.IsConst() {
		return &base[idx.val]
	}
	if len(base) <= maxIteChain && allScalarTerms(base) {
		return &idxPtr{base: base, idx: idx}
	}
	k := in.p.Concretize(idx)
	return &base[k]
}

func (in *Interp) index(fr *frame, instr *ssa.Index, x, idxv Value) Value {
	idx := idxv.(*Term)
	switch x := x.(type) {
	case Array:
		idx = in.boundsCheck(idx, instr.Index.Type(), len(x), "Index")
		if idx.IsConst() {
			return copyVal(x[idx.val])
		}
		if len(x) <= maxIteChain && allScalarTerms(x) {
			return in.loadIdx(&idxPtr{base: x, idx: idx})
		}
		return copyVal(x[in.p.Concretize(idx)])
	case string, *SymStr:
		return in.strIndex(x, idx, instr.Index.Type())
	}
	panic(fmt.Sprintf("Index on %T", x))
}

func (in *Interp) strIndex(x Value, idx *Term, it types.Type) Value {
	n := strLen(x)
	idx = in.boundsCheck(idx, it, n, "string index")
	if idx.IsConst() {
		switch s := x.(type) {
		case string:
			return mkConst(uint64(s[idx.val]), 8)
		case *SymStr:
			return s.b[idx.val]
		}
	}
	b := strBytes(x)
	vals := make([]Value, len(b))
	for i, t := range b {
		vals[i] = t
	}
	if n <= maxIteChain {
		return in.loadIdx(&idxPtr{base: vals, idx: idx})
	}
	return b[in.p.Concretize(idx)]
}

func (in *Interp) lookup(instr *ssa.Lookup, x, k Value) Value {
	switch x := x.(type) {
	case string, *SymStr:
		return in.strIndex(x, k.(*Term), instr.Index.Type())
	case *Map:
		var v Value
		ok := false
		if i := in.mapFind(x, k); i >= 0 {
			v = copyVal(x.entries[i].v)
			ok = true
		} else {
			v = zero(instr.X.Type().Underlying().(*types.Map).Elem())
		}
		if instr.CommaOk {
			return Tuple{v, mkBool(ok)}
		}
		return v
	}
	panic(fmt.Sprintf("Lookup on %T", x))
}

// ---- maps ----

func newMap() *Map { return &Map{index: map[string]int{}, allConc: true} }

func (in *Interp) mapFind(m *Map, k Value) int {
	if m == nil {
		return -1
	}
	if m.lazy != nil {
		in.lazyMapLookup(m, k)
	}
	if len(in.guardMaps) > 0 {
		in.checkGuardMap(m, false)
	}
	if m.allConc && isConcrete(k) {
		if i, ok := m.index[hashKey(k)]; ok {
			return i
		}
		return -1
	}
	for i := range m.entries {
		e := &m.entries[i]
		if e.deleted {
			continue
		}
		eq := in.equals(k, e.k)
		if eq.IsConst() {
			if eq.val != 0 {
				return i
			}
			continue
		}
		if in.p.Branch(eq) {
			return i
		}
	}
	return -1
}

func (in *Interp) mapInsert(m *Map, k, v Value) {
	if m.lazy != nil {
		if ks, ok := k.(string); ok {
			// an assignment needs no decision about what the document held
			m.lazy.decided[ks] = true
		}
	}
	if i := in.mapFind(m, k); i >= 0 {
		if len(in.guardMaps) > 0 {
			in.checkGuardMap(m, true)
		}
		m.entries[i].v = v
		return
	}
	in.mapInsertRaw(m, k, v)
}

func (in *Interp) mapInsertRaw(m *Map, k, v Value) {
	if len(in.guardMaps) > 0 {
		in.checkGuardMap(m, true)
	}
	k = copyVal(k)
	m.entries = append(m.entries, mapEntry{k: k, v: v})
	m.live++
	if m.allConc {
		if isConcrete(k) {
			m.index[hashKey(k)] = len(m.entries) - 1
		} else {
			m.allConc = false
		}
	}
}

func (in *Interp) mapDelete(m *Map, k Value) {
	if m == nil {
		return
	}
	if m.lazy != nil {
		if ks, ok := k.(string); ok {
			m.lazy.decided[ks] = true
		}
	}
	if len(in.guardMaps) > 0 {
		in.checkGuardMap(m, true)
	}
	if i := in.mapFind(m, k); i >= 0 {
		if m.allConc {
			delete(m.index, hashKey(m.entries[i].k))
		}
		m.entries[i].deleted = true
		m.entries[i].v = nil
		m.live--
	}
}

func (m *Map) clear() {
	m.entries = nil
	m.index = map[string]int{}
	m.allConc = true
	m.live = 0
}

// ---- iterators ----

type mapIter struct {
	m *Map
	i int
}

type strIter struct {
	s Value
	i int
}

func (in *Interp) rangeIter(x Value) Value {
	switch x := x.(type) {
	case *Map:
		if x != nil && x.lazy != nil {
			panic(unsupported{"range over a lazy (arbitrary) map"})
		}
		if x != nil && len(in.guardMaps) > 0 {
			in.checkGuardMap(x, false)
		}
		return &mapIter{m: x}
	case string, *SymStr:
		return &strIter{s: x}
	}
	panic(fmt.Sprintf("range over %T", x))
}

func (in *Interp) iterNext(fr *frame, it Value) Value {
	switch it := it.(type) {
	case *mapIter:
		if it.m != nil {
			for it.i < len(it.m.entries) {
				e := it.m.entries[it.i]
				it.i++
				if !e.deleted {
					return Tuple{trueT, copyVal(e.k), copyVal(e.v)}
				}
			}
		}
		return Tuple{falseT, nil, nil}
	case *strIter:
		n := strLen(it.s)
		if it.i >= n {
			return Tuple{falseT, mkConst(0, 64), mkConst(0, 32)}
		}
		pos := it.i
		switch s := it.s.(type) {
		case string:
			r, size := utf8.DecodeRuneInString(s[pos:])
			it.i += size
			return Tuple{trueT, mkConst(uint64(pos), 64), mkConst(uint64(r), 32)}
		case *SymStr:
			b0 := s.b[pos]
			if b0.IsConst() && b0.val < 0x80 {
				it.i++
				return Tuple{trueT, mkConst(uint64(pos), 64), in.f.ZExt(b0, 32)}
			}
			if !b0.IsConst() {
				if in.p.Branch(in.f.Cmp(OpUlt, b0, mkConst(0x80, 8))) {
					it.i++
					return Tuple{trueT, mkConst(uint64(pos), 64), in.f.ZExt(b0, 32)}
				}
			}
			end := pos + 4
			if end > n {
				end = n
			}
			sub := mkStr(s.b[pos:end])
			if cs, ok := sub.(string); ok {
				r, size := utf8.DecodeRuneInString(cs)
				it.i += size
				return Tuple{trueT, mkConst(uint64(pos), 64), mkConst(uint64(r), 32)}
			}
			fn := in.cfg.lookupFunc("unicode/utf8", "DecodeRuneInString")
			if fn == nil {
				panic(unsupported{"range over symbolic non-ASCII string: unicode/utf8 not loaded"})
			}
			res := in.callSSA(fr, fn, []Value{sub}, nil).(Tuple)
			size := in.concInt(res[1])
			it.i += int(size)
			in.cur = fr
			return Tuple{trueT, mkConst(uint64(pos), 64), res[0]}
		}
	}
	panic(fmt.Sprintf("Next on %T", it))
}

// ---- unary / binary operators ----

func (in *Interp) unop(fr *frame, instr *ssa.UnOp, x Value) Value {
	switch instr.Op {
	case token.ARROW:
		t := instr.X.Type().Underlying().(*types.Chan).Elem()
		return in.chanRecv(x.(*Chan), t, instr.CommaOk)
	case token.MUL:
		return in.loadPtr(fr, x)
	case token.SUB:
		switch x := x.(type) {
		case *Term:
			return in.f.Neg(x)
		case float64:
			return -x
		}
	case token.NOT:
		return in.f.Not(x.(*Term))
	case token.XOR:
		return in.f.BvNot(x.(*Term))
	}
	panic(unsupported{fmt.Sprintf("unop %s on %T", instr.Op, x)})
}

func basicOf(t types.Type) *types.Basic {
	b, _ := t.Underlying().(*types.Basic)
	return b
}

func (in *Interp) binop(op token.Token, t types.Type, x, y Value) Value {
	switch op {
	case token.EQL:
		return in.equals(x, y)
	case token.NEQ:
		return in.f.Not(in.equals(x, y))
	}
	switch xv := x.(type) {
	case *Term:
		yv := y.(*Term)
		b := basicOf(t)
		signed := b == nil || isSigned(b)
		f := in.f
		switch op {
		case token.ADD:
			return f.Bin(OpAdd, xv, yv)
		case token.SUB:
			return f.Bin(OpSub, xv, yv)
		case token.MUL:
			return f.Bin(OpMul, xv, yv)
		case token.QUO, token.REM:
			if yv.IsConst() {
				if yv.val == 0 {
					in.throw("integer divide by zero")
				}
			} else if in.p.Branch(f.Eq(yv, mkConst(0, yv.w))) {
				in.throw("integer divide by zero")
			}
			if yv.IsConst() && !xv.IsConst() {
				if r := in.divConst(xv, yv.val, signed, op == token.REM); r != nil {
					return r
				}
			}
			var o Op
			switch {
			case op == token.QUO && signed:
				o = OpSDiv
			case op == token.QUO:
				o = OpUDiv
			case signed:
				o = OpSRem
			default:
				o = OpURem
			}
			return f.Bin(o, xv, yv)
		case token.AND:
			if xv.w == 0 {
				return f.And(xv, yv)
			}
			return f.Bin(OpAnd, xv, yv)
		case token.OR:
			if xv.w == 0 {
				return f.Or(xv, yv)
			}
			return f.Bin(OpOr, xv, yv)
		case token.XOR:
			return f.Bin(OpXor, xv, yv)
		case token.AND_NOT:
			return f.Bin(OpAnd, xv, f.BvNot(yv))
		case token.SHL, token.SHR:
			return in.shift(op, signed, xv, yv)
		case token.LSS:
			if signed {
				return f.Cmp(OpSlt, xv, yv)
			}
			return f.Cmp(OpUlt, xv, yv)
		case token.LEQ:
			if signed {
				return f.Cmp(OpSle, xv, yv)
			}
			return f.Cmp(OpUle, xv, yv)
		case token.GTR:
			if signed {
				return f.Cmp(OpSlt, yv, xv)
			}
			return f.Cmp(OpUlt, yv, xv)
		case token.GEQ:
			if signed {
				return f.Cmp(OpSle, yv, xv)
			}
			return f.Cmp(OpUle, yv, xv)
		}
	case float64:
		yv := y.(float64)
		is32 := false
		if b := basicOf(t); b != nil && b.Kind() == types.Float32 {
			is32 = true
		}
		r32 := func(v float64) Value {
			if is32 {
				return float64(float32(v))
			}
			return v
		}
		switch op {
		case token.ADD:
			return r32(xv + yv)
		case token.SUB:
			return r32(xv - yv)
		case token.MUL:
			return r32(xv * yv)
		case token.QUO:
			return r32(xv / yv)
		case token.LSS:
			return mkBool(xv < yv)
		case token.LEQ:
			return mkBool(xv <= yv)
		case token.GTR:
			return mkBool(xv > yv)
		case token.GEQ:
			return mkBool(xv >= yv)
		}
	case string, *SymStr:
		switch op {
		case token.ADD:
			if xs, ok := x.(string); ok {
				if ys, ok := y.(string); ok {
					return xs + ys
				}
			}
			bx, by := strBytes(x), strBytes(y)
			r := make([]*Term, 0, len(bx)+len(by))
			r = append(r, bx...)
			r = append(r, by...)
			return mkStr(r)
		case token.LSS:
			return in.strLess(x, y)
		case token.GTR:
			return in.strLess(y, x)
		case token.LEQ:
			return in.f.Not(in.strLess(y, x))
		case token.GEQ:
			return in.f.Not(in.strLess(x, y))
		}
	}
	panic(unsupported{fmt.Sprintf("binop %s on %T, %T", op, x, y)})
}

// divConst encodes x / c and x % c for a constant c without a divider
// circuit.  Powers of two become shifts and masks (unsigned) or are left to
// the solver (signed); other constants get fresh quotient/remainder witnesses
// q, r constrained by x = q*c + r with Go's truncated-division side
// conditions, which determine them uniquely.
func (in *Interp) divConst(x *Term, cv uint64, signed bool, wantRem bool) *Term {
	f := in.f
	w := x.w
	c := cv & mask(w)
	if c == 0 {
		return nil
	}
	if c&(c-1) == 0 {
		if signed {
			return nil
		}
		sh := uint64(0)
		for (uint64(1) << sh) != c {
			sh++
		}
		if wantRem {
			return f.Bin(OpAnd, x, mkConst(c-1, w))
		}
		return f.Bin(OpLShr, x, mkConst(sh, w))
	}
	if signed && sext(c, w) < 0 {
		return nil
	}
	key := divKey{x, c, signed}
	if qr, ok := in.divMemo[key]; ok {
		if wantRem {
			return qr[1]
		}
		return qr[0]
	}
	in.divCount++
	q := in.p.NewVar(fmt.Sprintf("div.q%d", in.divCount), w)
	r := in.p.NewVar(fmt.Sprintf("div.r%d", in.divCount), w)
	xv := x.Eval(in.p.model)
	ct := mkConst(c, w)
	if signed {
		sx := sext(xv, w)
		in.p.model.vals[q.name] = uint64(sx/int64(c)) & mask(w)
		in.p.model.vals[r.name] = uint64(sx%int64(c)) & mask(w)
		lim := uint64(sext(mask(w)>>1, w) / int64(c))
		zero := mkConst(0, w)
		qc := f.Bin(OpMul, q, ct)
		in.p.addPC(f.Eq(x, f.Bin(OpAdd, qc, r)))
		in.p.addPC(f.Cmp(OpSle, f.Neg(mkConst(lim, w)), q))
		in.p.addPC(f.Cmp(OpSle, q, mkConst(lim, w)))
		nonneg := f.Cmp(OpSle, zero, x)
		pos := f.And(f.And(f.Cmp(OpSle, zero, r), f.Cmp(OpSlt, r, ct)), f.And(f.Cmp(OpSle, qc, x), f.Cmp(OpSle, zero, q)))
		neg := f.And(f.And(f.Cmp(OpSlt, f.Neg(ct), r), f.Cmp(OpSle, r, zero)), f.And(f.Cmp(OpSle, x, qc), f.Cmp(OpSle, q, zero)))
		in.p.addPC(f.Ite(nonneg, pos, neg))
		xi := in.p.iv.Iv(x)
		if xi.slo != topIv(w).slo || xi.shi != topIv(w).shi {
			in.p.addPC(f.Cmp(OpSle, mkConst(uint64(xi.slo/int64(c)), w), q))
			in.p.addPC(f.Cmp(OpSle, q, mkConst(uint64(xi.shi/int64(c)), w)))
			if xi.slo >= 0 {
				in.p.addPC(f.Cmp(OpSle, zero, r))
			}
		}
	} else {
		in.p.model.vals[q.name] = xv / c
		in.p.model.vals[r.name] = xv % c
		lim := mask(w) / c
		qc := f.Bin(OpMul, q, ct)
		in.p.addPC(f.Eq(x, f.Bin(OpAdd, qc, r)))
		in.p.addPC(f.Cmp(OpUlt, r, ct))
		in.p.addPC(f.Cmp(OpUle, q, mkConst(lim, w)))
		in.p.addPC(f.Cmp(OpUle, qc, x))
		xi := in.p.iv.Iv(x)
		if xi.ulo != 0 || xi.uhi != mask(w) {
			in.p.addPC(f.Cmp(OpUle, mkConst(xi.ulo/c, w), q))
			in.p.addPC(f.Cmp(OpUle, q, mkConst(xi.uhi/c, w)))
		}
	}
	in.divMemo[key] = [2]*Term{q, r}
	if wantRem {
		return r
	}
	return q
}

func (in *Interp) strLess(x, y Value) *Term {
	if xs, ok := x.(string); ok {
		if ys, ok := y.(string); ok {
			return mkBool(xs < ys)
		}
	}
	a, b := strBytes(x), strBytes(y)
	n := len(a)
	if len(b) < n {
		n = len(b)
	}
	res := mkBool(len(a) < len(b))
	f := in.f
	for i := n - 1; i >= 0; i-- {
		res = f.Or(f.Cmp(OpUlt, a[i], b[i]), f.And(f.Eq(a[i], b[i]), res))
	}
	return res
}

func (in *Interp) shift(op token.Token, signed bool, x, y *Term) *Term {
	f := in.f
	w := x.w
	// y is an unsigned or signed count; negative signed counts panic, but the
	// type of y is not available here: go vet / the compiler reject constant
	// negatives and run-time negatives panic.  Treat y as unsigned.
	var cnt *Term
	var tooBig *Term = falseT
	if y.w > w {
		tooBig = f.Cmp(OpUle, mkConst(uint64(w), y.w), y)
		cnt = f.Extract(y, w-1, 0)
	} else {
		cnt = f.ZExt(y, w)
	}
	var sh, big *Term
	switch {
	case op == token.SHL:
		sh = f.Bin(OpShl, x, cnt)
		big = mkConst(0, w)
	case signed:
		sh = f.Bin(OpAShr, x, cnt)
		big = f.Bin(OpAShr, x, mkConst(uint64(w-1), w))
	default:
		sh = f.Bin(OpLShr, x, cnt)
		big = mkConst(0, w)
	}
	return f.Ite(tooBig, big, sh)
}

// equals returns the Bool term x == y.
func (in *Interp) equals(x, y Value) *Term {
	f := in.f
	switch xv := x.(type) {
	case *Term:
		return f.Eq(xv, y.(*Term))
	case float64:
		return mkBool(xv == y.(float64))
	case complex128:
		return mkBool(xv == y.(complex128))
	case string:
		if ys, ok := y.(string); ok {
			return mkBool(xv == ys)
		}
		return in.strEq(x, y)
	case *SymStr:
		return in.strEq(x, y)
	case *Value:
		switch yv := y.(type) {
		case *Value:
			return mkBool(xv == yv)
		case *idxPtr:
			return falseT
		}
	case *idxPtr:
		if yv, ok := y.(*idxPtr); ok {
			return mkBool(xv == yv)
		}
		return falseT
	case *Map:
		return mkBool(xv == y.(*Map))
	case *Chan:
		return mkBool(xv == y.(*Chan))
	case Slice:
		// only comparison with nil is legal
		ys := y.(Slice)
		return mkBool(xv == nil && ys == nil)
	case Struct:
		ys := y.(Struct)
		res := trueT
		for i := range xv {
			res = f.And(res, in.equals(xv[i], ys[i]))
			if res.IsConst() && res.val == 0 {
				return res
			}
		}
		return res
	case Array:
		ys := y.(Array)
		res := trueT
		for i := range xv {
			res = f.And(res, in.equals(xv[i], ys[i]))
			if res.IsConst() && res.val == 0 {
				return res
			}
		}
		return res
	case Iface:
		yv := y.(Iface)
		if lv, ok := isLazy(xv); ok {
			if yv.t == nil {
				return mkBool(in.lazyNil(lv))
			}
			if _, ok2 := isLazy(yv); ok2 {
				panic(unsupported{"comparison of two lazy any values"})
			}
			xv = in.lazyAs(lv, yv.t)
		} else if lv, ok := isLazy(yv); ok {
			if xv.t == nil {
				return mkBool(in.lazyNil(lv))
			}
			yv = in.lazyAs(lv, xv.t)
		}
		if xv.t == nil || yv.t == nil {
			return mkBool(xv.t == nil && yv.t == nil)
		}
		if xv.t == lazyOtherType || yv.t == lazyOtherType {
			return falseT
		}
		if !types.Identical(xv.t, yv.t) {
			return falseT
		}
		if !types.Comparable(xv.t) {
			in.throw("comparing uncomparable type " + xv.t.String())
		}
		return in.equals(xv.v, yv.v)
	case *ssa.Function, *Closure, *ssa.Builtin, *nativeFunc:
		// func values are only comparable with nil
		return mkBool(isNilFunc(x) && isNilFunc(y))
	case nil:
		return mkBool(y == nil || isNilFunc(y))
	}
	panic(unsupported{fmt.Sprintf("equals on %T, %T", x, y)})
}

func (in *Interp) strEq(x, y Value) *Term {
	if strLen(x) != strLen(y) {
		return falseT
	}
	a, b := strBytes(x), strBytes(y)
	res := trueT
	for i := range a {
		res = in.f.And(res, in.f.Eq(a[i], b[i]))
		if res.IsConst() && res.val == 0 {
			return res
		}
	}
	return res
}

// ---- conversions ----

func (in *Interp) conv(tdst, tsrc types.Type, x Value) Value {
	ud := tdst.Underlying()
	us := tsrc.Underlying()
	switch ud := ud.(type) {
	case *types.Pointer, *types.Signature, *types.Map, *types.Chan, *types.Struct, *types.Array, *types.Interface:
		return x
	case *types.Slice:
		switch xs := x.(type) {
		case string, *SymStr:
			eb := ud.Elem().Underlying().(*types.Basic)
			if eb.Kind() == types.Uint8 {
				b := strBytes(xs)
				r := make(Slice, len(b))
				for i, t := range b {
					r[i] = t
				}
				return r
			}
			// []rune(s)
			cs, ok := xs.(string)
			if !ok {
				panic(unsupported{"[]rune of symbolic string"})
			}
			var r Slice = Slice{}
			for _, c := range cs {
				r = append(r, mkConst(uint64(c), 32))
			}
			return r
		}
		return x
	case *types.Basic:
		if ud.Kind() == types.UnsafePointer {
			return x
		}
		if ud.Info()&types.IsString != 0 {
			switch xs := x.(type) {
			case string, *SymStr:
				return x
			case Slice:
				if len(xs) == 0 {
					return ""
				}
				eb := us.(*types.Slice).Elem().Underlying().(*types.Basic)
				if eb.Kind() == types.Uint8 {
					b := make([]*Term, len(xs))
					for i, v := range xs {
						b[i] = v.(*Term)
					}
					return mkStr(b)
				}
				// string([]rune)
				var out []byte
				for _, v := range xs {
					t := v.(*Term)
					if !t.IsConst() {
						panic(unsupported{"string of symbolic []rune"})
					}
					out = utf8.AppendRune(out, rune(sext(t.val, 32)))
				}
				return string(out)
			case *Term:
				// string(rune)
				if !xs.IsConst() {
					k := in.p.Concretize(xs)
					return string(rune(sext(k, xs.w)))
				}
				sb := basicOf(tsrc)
				if sb != nil && !isSigned(sb) {
					if xs.val > 0x10ffff {
						return "�"
					}
					return string(rune(xs.val))
				}
				v := sext(xs.val, xs.w)
				if v < 0 || v > 0x10ffff {
					return "�"
				}
				return string(rune(v))
			}
		}
		if ud.Info()&types.IsInteger != 0 {
			w := intWidth(ud)
			switch xv := x.(type) {
			case *Term:
				sb := basicOf(tsrc)
				if sb != nil && isSigned(sb) {
					return in.f.SExt(xv, w)
				}
				return in.f.ZExt(xv, w)
			case float64:
				if isSigned(ud) {
					return mkConst(uint64(int64(xv)), w)
				}
				if xv < 0 {
					return mkConst(uint64(int64(xv)), w)
				}
				return mkConst(uint64(xv), w)
			case *Value:
				if ud.Kind() == types.Uintptr {
					if xv == nil {
						return mkConst(0, 64)
					}
					panic(unsupported{"uintptr(pointer) at " + in.where()})
				}
			}
		}
		if ud.Info()&types.IsFloat != 0 {
			var r float64
			switch xv := x.(type) {
			case *Term:
				var k uint64
				if xv.IsConst() {
					k = xv.val
				} else {
					panic(unsupported{"conversion of symbolic integer to float at " + in.where()})
				}
				sb := basicOf(tsrc)
				if sb != nil && isSigned(sb) {
					r = float64(sext(k, xv.w))
				} else {
					r = float64(k)
				}
			case float64:
				r = xv
			default:
				panic(unsupported{fmt.Sprintf("conv %T to float", x)})
			}
			if ud.Kind() == types.Float32 {
				r = float64(float32(r))
			}
			return r
		}
		if ud.Kind() == types.Bool {
			return x
		}
	}
	panic(unsupported{fmt.Sprintf("conversion %s -> %s (%T)", tsrc, tdst, x)})
}

// ---- slicing ----

func (in *Interp) slice(instr *ssa.Slice, x, lo, hi, max Value) Value {
	var l, h, m, ln, cp int
	switch xv := x.(type) {
	case string:
		ln = len(xv)
		cp = ln
	case *SymStr:
		ln = len(xv.b)
		cp = ln
	case Slice:
		ln = len(xv)
		cp = cap(xv)
	case *Value:
		if xv == nil {
			in.throw("invalid memory address or nil pointer dereference")
		}
		ln = len((*xv).(Array))
		cp = ln
	default:
		panic(fmt.Sprintf("slice of %T", x))
	}
	l = 0
	if lo != nil {
		l = int(in.concInt(lo))
	}
	h = ln
	if hi != nil {
		h = int(in.concInt(hi))
	}
	m = cp
	if max != nil {
		m = int(in.concInt(max))
	}
	_, isStr := x.(string)
	_, isSym := x.(*SymStr)
	if isStr || isSym {
		if l < 0 || h < l || h > ln {
			in.throw(fmt.Sprintf("slice bounds out of range [%d:%d] with length %d", l, h, ln))
		}
	} else if l < 0 || h < l || m < h || m > cp {
		in.throw(fmt.Sprintf("slice bounds out of range [%d:%d:%d] with capacity %d", l, h, m, cp))
	}
	switch xv := x.(type) {
	case string:
		return xv[l:h]
	case *SymStr:
		return mkStr(xv.b[l:h])
	case Slice:
		if xv == nil {
			return Slice(nil)
		}
		return xv[l:h:m]
	case *Value:
		return Slice((*xv).(Array)[l:h:m])
	}
	panic("unreachable")
}

// ---- builtins ----

func (in *Interp) callBuiltin(caller *frame, fn *ssa.Builtin, args []Value) Value {
	switch fn.Name() {
	case "append":
		if len(args) == 1 {
			return args[0]
		}
		dst := args[0].(Slice)
		// like the runtime: when the result does not fit, allocate the new
		// array first and never touch the old one
		grow := func(n int) {
			if len(dst)+n > cap(dst) {
				nc := 2 * cap(dst)
				if nc < len(dst)+n {
					nc = len(dst) + n
				}
				nd := make(Slice, len(dst), nc)
				copy(nd, dst)
				dst = nd
			}
		}
		switch src := args[1].(type) {
		case string, *SymStr:
			b := strBytes(src)
			grow(len(b))
			for _, t := range b {
				dst = append(dst, t)
			}
			return dst
		case Slice:
			if len(src) == 0 {
				return dst
			}
			tmp := make([]Value, len(src))
			for i, v := range src {
				tmp[i] = copyVal(v)
			}
			grow(len(tmp))
			dst = append(dst, tmp...)
			return dst
		}
		panic(fmt.Sprintf("append of %T", args[1]))

	case "copy":
		dst := args[0].(Slice)
		switch src := args[1].(type) {
		case string, *SymStr:
			b := strBytes(src)
			n := len(b)
			if len(dst) < n {
				n = len(dst)
			}
			for i := 0; i < n; i++ {
				dst[i] = b[i]
			}
			return mkConst(uint64(n), 64)
		case Slice:
			n := len(src)
			if len(dst) < n {
				n = len(dst)
			}
			tmp := make([]Value, n)
			for i := 0; i < n; i++ {
				tmp[i] = copyVal(src[i])
			}
			copy(dst, tmp)
			return mkConst(uint64(n), 64)
		}
		panic(fmt.Sprintf("copy from %T", args[1]))

	case "close":
		ch := args[0].(*Chan)
		if ch == nil {
			in.throw("close of nil channel")
		}
		if ch.closed {
			in.throw("close of closed channel")
		}
		ch.closed = true
		return nil

	case "delete":
		in.mapDelete(args[0].(*Map), args[1])
		return nil

	case "clear":
		switch x := args[0].(type) {
		case *Map:
			if x != nil {
				x.clear()
			}
		case Slice:
			if len(x) > 0 {
				t := fn.Type().(*types.Signature).Params().At(0).Type().Underlying().(*types.Slice).Elem()
				for i := range x {
					x[i] = zero(t)
				}
			}
		}
		return nil

	case "print", "println":
		return nil

	case "len":
		switch x := args[0].(type) {
		case string:
			return mkConst(uint64(len(x)), 64)
		case *SymStr:
			return mkConst(uint64(len(x.b)), 64)
		case Slice:
			return mkConst(uint64(len(x)), 64)
		case Array:
			return mkConst(uint64(len(x)), 64)
		case *Value:
			return mkConst(uint64(len((*x).(Array))), 64)
		case *Map:
			if x == nil {
				return mkConst(0, 64)
			}
			if x.lazy != nil {
				panic(unsupported{"len of a lazy (arbitrary) map"})
			}
			return mkConst(uint64(x.live), 64)
		case *Chan:
			if x == nil {
				return mkConst(0, 64)
			}
			return mkConst(uint64(len(x.buf)), 64)
		}
		panic(fmt.Sprintf("len of %T", args[0]))

	case "cap":
		switch x := args[0].(type) {
		case Slice:
			return mkConst(uint64(cap(x)), 64)
		case Array:
			return mkConst(uint64(len(x)), 64)
		case *Value:
			return mkConst(uint64(len((*x).(Array))), 64)
		case *Chan:
			if x == nil {
				return mkConst(0, 64)
			}
			return mkConst(uint64(x.cap), 64)
		}
		panic(fmt.Sprintf("cap of %T", args[0]))

	case "min", "max":
		isMin := fn.Name() == "min"
		res := args[0]
		sig := fn.Type().(*types.Signature)
		b := basicOf(sig.Params().At(0).Type())
		for _, a := range args[1:] {
			switch r := res.(type) {
			case *Term:
				var lt *Term
				if b != nil && !isSigned(b) {
					lt = in.f.Cmp(OpUlt, a.(*Term), r)
				} else {
					lt = in.f.Cmp(OpSlt, a.(*Term), r)
				}
				if isMin {
					res = in.f.Ite(lt, a.(*Term), r)
				} else {
					res = in.f.Ite(lt, r, a.(*Term))
				}
			case float64:
				if isMin {
					res = math.Min(r, a.(float64))
				} else {
					res = math.Max(r, a.(float64))
				}
			case string:
				as, ok := a.(string)
				if !ok {
					panic(unsupported{"min/max of symbolic strings"})
				}
				if isMin == (as < r) {
					res = as
				}
			default:
				panic(unsupported{fmt.Sprintf("min/max of %T", res)})
			}
		}
		return res

	case "recover":
		if caller != nil && caller.caller != nil && caller.caller.panicking {
			pf := caller.caller
			pf.panicking = false
			gp := pf.panicV
			pf.panicV = nil
			if gp != nil {
				if _, ok := gp.v.(Iface); ok {
					return gp.v
				}
				return Iface{t: types.Typ[types.String], v: gp.v}
			}
		}
		return Iface{}

	case "ssa:deferstack":
		return &deferStackRef{fr: caller}

	case "ssa:wrapnilchk":
		recv := args[0]
		if p, ok := recv.(*Value); ok && p == nil {
			in.throw(fmt.Sprintf("value method %s.%s called using nil pointer", showValue(args[1], 0), showValue(args[2], 0)))
		}
		return recv

	case "String": // unsafe.String(ptr, len)
		if sd, ok := args[0].(*sliceDataPtr); ok {
			n := int(in.concInt(args[1]))
			b := make([]*Term, n)
			for i := 0; i < n; i++ {
				b[i] = sd.s[i].(*Term)
			}
			return mkStr(b)
		}
		if p, ok := args[0].(*Value); ok {
			n := int(in.concInt(args[1]))
			if n == 0 {
				return ""
			}
			if n == 1 && p != nil {
				return mkStr([]*Term{(*p).(*Term)})
			}
		}
		panic(unsupported{"unsafe.String on plain pointer"})

	case "SliceData":
		return &sliceDataPtr{s: args[0].(Slice)}

	case "StringData":
		return &strDataPtr{s: args[0]}

	case "Slice": // unsafe.Slice(ptr, len)
		if sd, ok := args[0].(*strDataPtr); ok {
			n := int(in.concInt(args[1]))
			b := strBytes(sd.s)
			r := make(Slice, n)
			for i := 0; i < n; i++ {
				r[i] = b[i]
			}
			return r
		}
		if sd, ok := args[0].(*sliceDataPtr); ok {
			n := int(in.concInt(args[1]))
			return sd.s[:n:n]
		}
		panic(unsupported{"unsafe.Slice on plain pointer"})
	}
	panic(unsupported{"builtin " + fn.Name()})
}

type deferStackRef struct{ fr *frame }
type sliceDataPtr struct{ s Slice }
type strDataPtr struct{ s Value }
