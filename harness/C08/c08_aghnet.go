//go:build verif

package aghnet

// C08 — shared environment stubs (ignore-engine verdict, address text, clock)
// and the real ignore engine on concrete lists.
//
//vx:overlay internal/aghnet/zz_vx_c08.go
//vx:stub (*github.com/AdguardTeam/AdGuardHome/internal/aghnet.IgnoreEngine).Has VxC08Has
//vx:stub (net.IP).String VxC08IPString
//vx:stub time.Now VxC08Now
//vx:stub github.com/AdguardTeam/urlfilter/filterlist.NewRuleStorage VxC08NewRuleStorage
//vx:stub github.com/AdguardTeam/urlfilter.NewDNSEngine VxC08NewDNSEngine
//vx:entry vxC08ListCase reach=engine-built
//vx:note ListCase entry: NewIgnoreEngine hands the rule engine (which matches lower-case host names case-sensitively) the list in lower case: one rule "||ads.example.org^" plus one plain name, 6 letters independently upper/lower case; the rule-list compiler (filterlist.NewRuleStorage, urlfilter.NewDNSEngine) is replaced by a recorder
//vx:stub strconv.FormatFloat VxC08FormatFloat
//vx:opaque (github.com/miekg/dns.Type).String
//vx:opaque (github.com/miekg/dns.Class).String
//vx:note ignore-list syntax -> verdict (urlfilter) is outside: (*IgnoreEngine).Has answers through a harness callback (a symbolic bit for the canonical lower-case, dot-less spelling of the name; "not ignored" for every other spelling, as the case-sensitive rule engine does)
//vx:note strconv.FormatFloat (rendering of the "elapsedMs" report field, unrelated to the property) is replaced by a constant; time.Now is a harness clock (UTC)
//vx:note text of a client address with symbolic bytes is an opaque token "ip#N" (N = index of a table that keeps the bytes formatted); the oracle reads the bytes behind the token. Concrete addresses are formatted by the real net.IP.String.

import (
	"net"
	"time"

	"github.com/AdguardTeam/AdGuardHome/internal/vx"
	"github.com/AdguardTeam/urlfilter"
	"github.com/AdguardTeam/urlfilter/filterlist"
)

// vxC08ListText records the rule text handed to the rule-list compiler.
var vxC08ListText []string

func VxC08NewRuleStorage(lists []filterlist.RuleList) (*filterlist.RuleStorage, error) {
	for _, l := range lists {
		if sl, ok := l.(*filterlist.StringRuleList); ok {
			vxC08ListText = append(vxC08ListText, sl.RulesText)
		}
	}
	return nil, nil
}

func VxC08NewDNSEngine(s *filterlist.RuleStorage) *urlfilter.DNSEngine { return &urlfilter.DNSEngine{} }

func vxC08ListCase() {
	VxC08Reset()
	vxC08ListText = nil
	r0, r1 := []byte("||ads.example.org^"), []byte("tracker.example")
	for _, i := range []int{2, 4, 6, 16} {
		if vx.Bool("upper") {
			r0[i] -= 'a' - 'A'
		}
	}
	for _, i := range []int{0, 14} {
		if vx.Bool("upper") {
			r1[i] -= 'a' - 'A'
		}
	}
	e, err := NewIgnoreEngine([]string{string(r0), string(r1)})
	vx.Assert(err == nil && e != nil, "ignore list accepted")
	vx.Reach("engine-built")
	vx.Assert(len(vxC08ListText) == 1 && vxC08ListText[0] == "||ads.example.org^\ntracker.example", "the rule engine receives the ignore list in lower case, one rule per line")
}

// VxC08Verdict is the verdict callback of the stubbed ignore engines.
var VxC08Verdict func(e *IgnoreEngine, host string) bool

// VxC08HasCalls counts verdict requests.
var VxC08HasCalls int

func VxC08Has(e *IgnoreEngine, host string) bool {
	if e == nil {
		return false
	}
	VxC08HasCalls++
	if VxC08Verdict == nil {
		return false
	}
	return VxC08Verdict(e, host)
}

// VxC08IPTab holds the bytes behind every address token handed out.
var VxC08IPTab [][]byte

var vxC08Tokens = []string{"ip#0", "ip#1", "ip#2", "ip#3", "ip#4", "ip#5", "ip#6", "ip#7", "ip#8", "ip#9", "ip#10", "ip#11", "ip#12", "ip#13", "ip#14", "ip#15"}

func VxC08IPString(ip net.IP) string {
	conc := true
	for _, b := range ip {
		if !vx.IsConcrete(b) {
			conc = false
		}
	}
	if conc {
		return ip.String()
	}
	// the same bytes (identical terms) have the same text
	for k, old := range VxC08IPTab {
		if len(old) != len(ip) {
			continue
		}
		same := true
		for j := range ip {
			if !vx.SameByte(old[j], ip[j]) {
				same = false
			}
		}
		if same {
			return vxC08Tokens[k]
		}
	}
	n := len(VxC08IPTab)
	VxC08IPTab = append(VxC08IPTab, append([]byte(nil), ip...))
	return vxC08Tokens[n]
}

// VxC08TokenBytes returns the bytes behind a token, nil if s is not a token.
func VxC08TokenBytes(s string) []byte {
	for i := range VxC08IPTab {
		if vxC08Tokens[i] == s {
			return VxC08IPTab[i]
		}
	}
	return nil
}

// VxC08Clock is the harness clock (seconds).
var VxC08Clock int64 = 1_700_000_000

func VxC08Now() time.Time { return time.Unix(VxC08Clock, 0).UTC() }

// VxC08FormatFloat replaces the rendering of the "elapsedMs" report field (not
// part of the property; the engine cannot run strconv's float formatting).
func VxC08FormatFloat(f float64, fmt byte, prec, bitSize int) string { return "0" }

// VxC08Reset clears the shared stub state.
func VxC08Reset() {
	VxC08Verdict = nil
	VxC08HasCalls = 0
	VxC08IPTab = nil
	VxC08Clock = 1_700_000_000
}
