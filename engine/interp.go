package main

// The symbolic SSA interpreter: frames, instruction dispatch, calls,
// defer/panic/recover, lazy package initialisation.

import (
	"fmt"
	"go/constant"
	"go/token"
	"go/types"
	"os"
	"runtime"
	"strings"

	"golang.org/x/tools/go/ssa"
)

var initProf = os.Getenv("VX_INITPROF") != ""
var traceFn = os.Getenv("VX_TRACE")
var traceOn = traceFn != ""

// goPanic is a panic of the interpreted program.
type goPanic struct {
	v     Value
	where string
	stack []string
}

type deferred struct {
	fn   Value
	args []Value
	tail *deferred
	pos  token.Pos
}

type mutexState struct {
	writer  bool
	readers int
}

type goroutineRec struct {
	fn   Value
	args []Value
	pos  string
}

type Interp struct {
	prog           *ssa.Program
	cfg            *Config
	p              *Path
	f              *termFactory
	globals        map[*ssa.Global]*Value
	pkgInit        map[*ssa.Package]int
	mutexes        map[*Value]*mutexState
	onceDone       map[*Value]bool
	steps          int64
	maxSteps       int64
	stepLabel      string
	unwind         int
	cur            *frame
	depth          int
	gos            []goroutineRec
	funcsSeen      map[*ssa.Function]struct{}
	inInit         int
	uniq           map[string]*Value
	lockLog        []string
	stubHits       map[string]int
	divCount       int
	divMemo        map[divKey][2]*Term
	lemmaRec       map[string][]lemmaRecord
	lemmaUses      int
	lazyCount      int
	lazyMismatches int
	guardCells     map[*Value]*guardInfo
	guardMaps      map[*Map]*guardInfo
	guardHits      int
	atomicFields   map[string]string // struct fields written through sync/atomic (when the lock monitor is active)
}

// guardInfo ties a piece of state to the mutex documented to protect it.
type guardInfo struct {
	mu    *Value
	label string
}

type divKey struct {
	x      *Term
	c      uint64
	signed bool
}

type lemmaRecord struct {
	arg Value
	res Tuple
}

type frame struct {
	in         *Interp
	caller     *frame
	fn         *ssa.Function
	block      *ssa.BasicBlock
	prevBlock  *ssa.BasicBlock
	env        map[ssa.Value]Value
	locals     []Value
	defers     *deferred
	result     Value
	panicking  bool
	panicV     *goPanic
	symLoops   map[*ssa.BasicBlock]int
	curInstr   ssa.Instruction
	initStored map[*ssa.Global]bool
}

func newInterp(cfg *Config, p *Path) *Interp {
	in := &Interp{prog: cfg.prog, cfg: cfg, p: p, f: &p.f,
		globals: map[*ssa.Global]*Value{}, pkgInit: map[*ssa.Package]int{},
		mutexes: map[*Value]*mutexState{}, onceDone: map[*Value]bool{},
		maxSteps: cfg.MaxSteps, unwind: cfg.Unwind,
		funcsSeen: map[*ssa.Function]struct{}{}, uniq: map[string]*Value{}, stubHits: map[string]int{}, divMemo: map[divKey][2]*Term{}, lemmaRec: map[string][]lemmaRecord{}}
	p.in = in
	return in
}

func (in *Interp) where() string {
	fr := in.cur
	if fr == nil {
		return "?"
	}
	pos := token.NoPos
	if fr.curInstr != nil {
		pos = fr.curInstr.Pos()
	}
	s := fr.fn.String()
	if pos != token.NoPos {
		s += " " + in.prog.Fset.Position(pos).String()
	}
	return s
}

func (in *Interp) stack() []string {
	var out []string
	for fr := in.cur; fr != nil && len(out) < 25; fr = fr.caller {
		s := fr.fn.String()
		if fr.curInstr != nil && fr.curInstr.Pos() != token.NoPos {
			pp := in.prog.Fset.Position(fr.curInstr.Pos())
			s += fmt.Sprintf(" %s:%d", pp.Filename, pp.Line)
		}
		out = append(out, s)
	}
	return out
}

func (in *Interp) throw(msg string) {
	// a Go run-time panic of the interpreted program
	panic(&goPanic{v: in.mkRuntimeError(msg), where: in.where(), stack: in.stack()})
}

func (in *Interp) mkRuntimeError(msg string) Value {
	// represented as *errors.errorString so that .Error() works from real code
	if t := in.cfg.errorStringPtr; t != nil {
		var cell Value = Struct{"runtime error: " + msg}
		return Iface{t: t, v: &cell}
	}
	return Iface{t: types.Typ[types.String], v: "runtime error: " + msg}
}

// ---- operands ----

func (fr *frame) get(key ssa.Value) Value {
	switch key := key.(type) {
	case nil:
		return nil
	case *ssa.Function:
		return key
	case *ssa.Builtin:
		return key
	case *ssa.Const:
		return constValue(key)
	case *ssa.Global:
		return fr.in.globalAddr(key)
	}
	if r, ok := fr.env[key]; ok {
		if pz, bad := r.(Poison); bad {
			panic(unsupported{"use of value that could not be computed: " + pz.why})
		}
		return r
	}
	panic(fmt.Sprintf("get: no value for %T: %v in %s", key, key.Name(), fr.fn))
}

func constValue(c *ssa.Const) Value {
	if c.Value == nil {
		return zero(c.Type())
	}
	if t, ok := c.Type().Underlying().(*types.Basic); ok {
		switch {
		case t.Kind() == types.Bool || t.Kind() == types.UntypedBool:
			return mkBool(constant.BoolVal(c.Value))
		case t.Info()&types.IsInteger != 0:
			if t.Info()&types.IsUnsigned != 0 {
				return mkConst(c.Uint64(), intWidth(t))
			}
			return mkConst(uint64(c.Int64()), intWidth(t))
		case t.Info()&types.IsFloat != 0:
			if t.Kind() == types.Float32 {
				return float64(float32(c.Float64()))
			}
			return c.Float64()
		case t.Info()&types.IsString != 0:
			if c.Value.Kind() == constant.String {
				return constant.StringVal(c.Value)
			}
			return string(rune(c.Int64()))
		case t.Info()&types.IsComplex != 0:
			return c.Complex128()
		}
	}
	panic(fmt.Sprintf("constValue: %s", c))
}

// ---- globals and lazy package initialisation ----

func (in *Interp) globalAddr(g *ssa.Global) *Value {
	if a, ok := in.globals[g]; ok {
		return a
	}
	pkg := g.Pkg
	in.ensureInit(pkg)
	if a, ok := in.globals[g]; ok {
		return a
	}
	a := new(Value)
	*a = zero(deref(g.Type()))
	in.globals[g] = a
	return a
}

func deref(t types.Type) types.Type {
	if p, ok := t.Underlying().(*types.Pointer); ok {
		return p.Elem()
	}
	panic("deref: not a pointer: " + t.String())
}

func (in *Interp) ensureInit(pkg *ssa.Package) {
	if pkg == nil || in.pkgInit[pkg] != 0 {
		return
	}
	in.pkgInit[pkg] = 1
	// dependency packages are built lazily: make sure the initialiser has a body
	pkg.Build()
	// allocate all globals first (zeroed)
	for _, m := range pkg.Members {
		if g, ok := m.(*ssa.Global); ok {
			if _, ok := in.globals[g]; !ok {
				a := new(Value)
				*a = zero(deref(g.Type()))
				in.globals[g] = a
			}
		}
	}
	if in.cfg.skipInit(pkg.Pkg.Path()) {
		in.pkgInit[pkg] = 2
		return
	}
	initFn := pkg.Func("init")
	if initProf {
		before := in.steps
		defer func() {
			fmt.Fprintf(os.Stderr, "init %-60s %d steps\n", pkg.Pkg.Path(), in.steps-before)
		}()
	}
	if initFn != nil && initFn.Blocks != nil {
		saved := in.cur
		in.inInit++
		func() {
			defer func() {
				in.inInit--
				in.cur = saved
			}()
			in.callSSA(nil, initFn, nil, nil)
		}()
	}
	in.pkgInit[pkg] = 2
}

// ---- calls ----

func (in *Interp) prepareCall(fr *frame, call *ssa.CallCommon) (fn Value, args []Value) {
	v := fr.get(call.Value)
	if call.Method == nil {
		fn = v
	} else {
		recv, ok := v.(Iface)
		if !ok {
			panic(fmt.Sprintf("invoke on non-interface %T", v))
		}
		if recv.t == nil {
			in.throw("invalid memory address or nil pointer dereference (method call on nil interface)")
		}
		f := in.prog.LookupMethod(recv.t, call.Method.Pkg(), call.Method.Name())
		if f == nil {
			panic(fmt.Sprintf("method set for dynamic type %v does not contain %s", recv.t, call.Method))
		}
		fn = f
		args = append(args, recv.v)
	}
	for _, a := range call.Args {
		args = append(args, fr.get(a))
	}
	return
}

func (in *Interp) call(caller *frame, fn Value, args []Value) Value {
	switch fn := fn.(type) {
	case *ssa.Function:
		if fn == nil {
			in.throw("call of nil function")
		}
		return in.callSSA(caller, fn, args, nil)
	case *Closure:
		if fn == nil {
			in.throw("call of nil function")
		}
		return in.callSSA(caller, fn.fn, args, fn.env)
	case *ssa.Builtin:
		return in.callBuiltin(caller, fn, args)
	case *nativeFunc:
		return fn.f(in, caller, args)
	}
	panic(fmt.Sprintf("cannot call %T", fn))
}

// nativeFunc is an engine-provided function value.
type nativeFunc struct {
	name string
	f    func(in *Interp, caller *frame, args []Value) Value
}

func (in *Interp) callSSA(caller *frame, fn *ssa.Function, args []Value, env []Value) Value {
	name := fn.String()
	if fn.Parent() == nil {
		if origin := fn.Origin(); origin != nil {
			name = origin.String()
		}
		// harness stubs take precedence over everything
		if st, ok := in.cfg.stubs[name]; ok && st != fn {
			if !in.insideStub(caller, st) {
				in.stubHits[name]++
				return in.callSSA(caller, st, args, nil)
			}
		}
		if in.cfg.opaque[name] {
			sym := false
			for _, a := range args {
				if !deepConcrete(a, 3) {
					sym = true
				}
			}
			if sym {
				return "?"
			}
		}
		if ix, ok := intrinsics[name]; ok {
			return ix(in, caller, fn, args)
		}
		if ix := prefixIntrinsic(name); ix != nil {
			return ix(in, caller, fn, args)
		}
	}
	if fn.Parent() == nil && len(in.cfg.inverseF) > 0 {
		if g, ok := in.cfg.inverseF[name]; ok {
			// lemma f(g(x)) == x: arguments identical to a recorded result of g
			for _, rec := range in.lemmaRec[g] {
				if len(rec.res) == len(args) && sameValues(rec.res, args) {
					in.lemmaUses++
					return rec.arg
				}
			}
		}
		if _, ok := in.cfg.inverseG[name]; ok && len(args) == 1 {
			defer func(arg Value) {
				if r := recover(); r != nil {
					panic(r)
				}
			}(args[0])
			res := in.callBody(caller, fn, name, args, env)
			if tup, ok := res.(Tuple); ok {
				in.lemmaRec[name] = append(in.lemmaRec[name], lemmaRecord{args[0], tup})
			}
			return res
		}
	}
	return in.callBody(caller, fn, name, args, env)
}

func sameValues(a Tuple, b []Value) bool {
	for i := range a {
		x, ok1 := a[i].(*Term)
		y, ok2 := b[i].(*Term)
		if !ok1 || !ok2 {
			return false
		}
		if x != y && !(x.IsConst() && y.IsConst() && x.val == y.val && x.w == y.w) {
			return false
		}
	}
	return true
}

func (in *Interp) callBody(caller *frame, fn *ssa.Function, name string, args []Value, env []Value) Value {
	// packages are built lazily; Build blocks until a concurrent build by
	// another worker has finished (never interpret a half-built function)
	if pk := fn.Package(); pk != nil {
		pk.Build()
	} else if o := fn.Origin(); o != nil && o.Package() != nil {
		o.Package().Build()
	}
	if fn.Blocks == nil {
		if pk := fn.Package(); pk != nil {
			pk.Build()
		} else if o := fn.Origin(); o != nil && o.Package() != nil {
			o.Package().Build()
		}
		if fn.Blocks == nil {
			panic(unsupported{"no body for function " + name})
		}
	}
	if fn.TypeParams().Len() > 0 && len(fn.TypeArgs()) == 0 {
		panic(unsupported{"uninstantiated generic " + name})
	}
	in.depth++
	if in.depth > 3000 {
		panic(unsupported{"call depth exceeded in " + name})
	}
	in.funcsSeen[fn] = struct{}{}
	fr := &frame{in: in, caller: caller, fn: fn}
	fr.env = make(map[ssa.Value]Value, 16)
	fr.block = fn.Blocks[0]
	fr.locals = make([]Value, len(fn.Locals))
	for i, l := range fn.Locals {
		fr.locals[i] = zero(deref(l.Type()))
		fr.env[l] = &fr.locals[i]
	}
	if len(args) != len(fn.Params) {
		panic(fmt.Sprintf("call of %s: %d args for %d params", name, len(args), len(fn.Params)))
	}
	for i, p := range fn.Params {
		fr.env[p] = args[i]
	}
	for i, fv := range fn.FreeVars {
		fr.env[fv] = env[i]
	}
	saved := in.cur
	in.cur = fr
	for fr.block != nil {
		in.runFrame(fr)
	}
	in.cur = saved
	in.depth--
	return fr.result
}

// deepConcrete follows pointers (a few levels) when looking for symbolic data.
func deepConcrete(v Value, depth int) bool {
	if !isConcrete(v) {
		return false
	}
	if depth == 0 {
		return true
	}
	switch x := v.(type) {
	case *Value:
		if x != nil {
			return deepConcrete(*x, depth-1)
		}
	case Struct:
		for _, e := range x {
			if !deepConcrete(e, depth-1) {
				return false
			}
		}
	case Slice:
		for _, e := range x {
			if !deepConcrete(e, depth-1) {
				return false
			}
		}
	case Iface:
		if x.t != nil {
			return deepConcrete(x.v, depth-1)
		}
	}
	return true
}

// insideStub reports whether st is already active on the stack (so that a
// stub may call the real function it replaces).
func (in *Interp) insideStub(fr *frame, st *ssa.Function) bool {
	for ; fr != nil; fr = fr.caller {
		if fr.fn == st {
			return true
		}
	}
	return false
}

func (in *Interp) runFrame(fr *frame) {
	defer func() {
		if fr.block == nil {
			return // normal return
		}
		r := recover()
		gp, ok := r.(*goPanic)
		if !ok {
			panic(r) // engine-level abort: propagate untouched
		}
		in.cur = fr
		fr.panicking = true
		fr.panicV = gp
		in.runDefers(fr)
		fr.block = fr.fn.Recover
		if fr.block == nil {
			// recovered in a function without named results: return zero values
			fr.result = zero(fr.fn.Signature.Results())
			if fr.fn.Signature.Results().Len() == 0 {
				fr.result = nil
			}
		}
	}()
	for {
		in.executePhis(fr)
		for _, instr := range fr.block.Instrs {
			if _, ok := instr.(*ssa.Phi); ok {
				continue
			}
			fr.curInstr = instr
			in.steps++
			if in.steps > in.maxSteps {
				in.stepBudgetExceeded()
			}
			var k continuation
			if in.inInit > 0 && fr.fn.Synthetic != "" && fr.fn.Name() == "init" {
				k = in.visitInitInstr(fr, instr)
			} else {
				k = in.visitInstr(fr, instr)
			}
			if traceOn && strings.Contains(fr.fn.String(), traceFn) {
				if v, ok := instr.(ssa.Value); ok {
					fmt.Fprintf(os.Stderr, "TRACE %s: %s = %s  => %s\n", fr.fn.Name(), v.Name(), instr.String(), showValue(fr.env[v], 0))
				} else {
					fmt.Fprintf(os.Stderr, "TRACE %s: %s\n", fr.fn.Name(), instr.String())
				}
			}
			if k == kReturn {
				return
			}
			if k == kJump {
				break
			}
		}
	}
}

func (in *Interp) stepBudgetExceeded() {
	if in.stepLabel != "" {
		in.p.PathViolation(in.stepLabel)
	}
	panic(unsupported{fmt.Sprintf("step budget %d exceeded at %s", in.maxSteps, in.where())})
}

type continuation int

const (
	kNext continuation = iota
	kReturn
	kJump
)

func (in *Interp) executePhis(fr *frame) {
	var vals []Value
	var phis []*ssa.Phi
	for _, instr := range fr.block.Instrs {
		phi, ok := instr.(*ssa.Phi)
		if !ok {
			break
		}
		for i, pred := range fr.block.Preds {
			if fr.prevBlock == pred {
				vals = append(vals, fr.get(phi.Edges[i]))
				phis = append(phis, phi)
				break
			}
		}
	}
	for i, phi := range phis {
		fr.env[phi] = vals[i]
	}
}

func (in *Interp) runDefers(fr *frame) {
	for d := fr.defers; d != nil; d = fr.defers {
		fr.defers = d.tail
		in.runDefer(fr, d)
	}
	fr.defers = nil
	if fr.panicking {
		panic(fr.panicV)
	}
}

func (in *Interp) runDefer(fr *frame, d *deferred) {
	ok := false
	defer func() {
		if !ok {
			r := recover()
			gp, isGo := r.(*goPanic)
			if !isGo {
				panic(r)
			}
			// deferred call started a new panic
			fr.panicking = true
			fr.panicV = gp
			in.cur = fr
		}
	}()
	in.cur = fr
	in.call(fr, d.fn, d.args)
	ok = true
}

func (in *Interp) loadPtr(fr *frame, p Value) Value {
	switch p := p.(type) {
	case *Value:
		if p == nil {
			in.throw("invalid memory address or nil pointer dereference")
		}
		if len(in.guardCells) > 0 {
			in.checkGuardCell(p, false)
			in.checkGuardInner(*p, false)
		}
		v := *p
		if pz, bad := v.(Poison); bad {
			panic(unsupported{"use of value that could not be computed: " + pz.why})
		}
		return copyVal(v)
	case *idxPtr:
		return in.loadIdx(p)
	}
	panic(fmt.Sprintf("load through %T", p))
}

func (in *Interp) storePtr(p Value, v Value) {
	switch p := p.(type) {
	case *Value:
		if p == nil {
			in.throw("invalid memory address or nil pointer dereference")
		}
		if len(in.guardCells) > 0 {
			in.checkGuardCell(p, true)
			in.checkGuardInner(*p, true)
		}
		assignInPlace(p, v)
		return
	case *idxPtr:
		in.storeIdx(p, v)
		return
	}
	panic(fmt.Sprintf("store through %T", p))
}

func (in *Interp) guardHeld(g *guardInfo, write bool) bool {
	st := in.mutexes[g.mu]
	if st == nil {
		return false
	}
	if write {
		return st.writer
	}
	return st.writer || st.readers > 0
}

func (in *Interp) checkGuardCell(p *Value, write bool) {
	g := in.guardCells[p]
	if g == nil {
		return
	}
	in.guardHits++
	if !in.guardHeld(g, write) {
		kind := "read"
		if write {
			kind = "write"
		}
		in.p.PathViolation(fmt.Sprintf("unsynchronised %s of %s (owning lock not held) at %s", kind, g.label, in.where()))
	}
}

// checkGuardInner: a load or store of a whole struct or array value touches
// every field / element cell it contains.
func (in *Interp) checkGuardInner(v Value, write bool) {
	switch x := v.(type) {
	case Struct:
		for i := range x {
			in.checkGuardCell(&x[i], write)
			in.checkGuardInner(x[i], write)
		}
	case Array:
		for i := range x {
			in.checkGuardCell(&x[i], write)
			in.checkGuardInner(x[i], write)
		}
	}
}

// checkPlainAccess: with the lock monitor active, a plain load or store of a
// struct field that the repository also writes through sync/atomic (or of a
// whole struct containing such a field) is a data race with that writer.
func (in *Interp) checkPlainAccess(addr ssa.Value, write bool) {
	kind := "read"
	if write {
		kind = "write"
	}
	if fa, ok := addr.(*ssa.FieldAddr); ok {
		if where, hit := in.atomicFields[atomicFieldKey(fa.X.Type(), fa.Field)]; hit {
			in.guardHits++
			in.p.PathViolation(fmt.Sprintf("plain %s of a field that is written atomically elsewhere (%s) at %s", kind, where, in.where()))
		}
	}
	pt, ok := addr.Type().Underlying().(*types.Pointer)
	if !ok {
		return
	}
	st, ok := pt.Elem().Underlying().(*types.Struct)
	if !ok {
		return
	}
	for i := 0; i < st.NumFields(); i++ {
		if where, hit := in.atomicFields[fmt.Sprintf("%s#%d", pt.Elem().String(), i)]; hit {
			in.guardHits++
			in.p.PathViolation(fmt.Sprintf("plain %s of a whole %s, whose field %s is written atomically elsewhere (%s), at %s", kind, pt.Elem().String(), st.Field(i).Name(), where, in.where()))
		}
	}
}

func (in *Interp) checkGuardMap(m *Map, write bool) {
	g := in.guardMaps[m]
	if g == nil {
		return
	}
	in.guardHits++
	if !in.guardHeld(g, write) {
		kind := "read"
		if write {
			kind = "write"
		}
		in.p.PathViolation(fmt.Sprintf("unsynchronised map %s of %s (owning lock not held) at %s", kind, g.label, in.where()))
	}
}

// addGuard registers v (a cell, struct, map ...) and what it directly contains.
func (in *Interp) addGuard(v Value, g *guardInfo, depth int) {
	if in.guardCells == nil {
		in.guardCells = map[*Value]*guardInfo{}
		in.guardMaps = map[*Map]*guardInfo{}
	}
	if depth > 6 {
		return
	}
	switch x := v.(type) {
	case *Value:
		if x == nil || x == g.mu {
			return
		}
		if _, seen := in.guardCells[x]; seen {
			return
		}
		in.guardCells[x] = g
		in.addGuard(*x, g, depth+1)
	case Struct:
		for i := range x {
			if &x[i] == g.mu {
				continue
			}
			if _, isMu := in.mutexes[&x[i]]; isMu {
				continue
			}
			in.guardCells[&x[i]] = g
			in.addGuard(x[i], g, depth+1)
		}
	case Array:
		for i := range x {
			in.guardCells[&x[i]] = g
			in.addGuard(x[i], g, depth+1)
		}
	case *Map:
		if x != nil {
			in.guardMaps[x] = g
		}
	case Slice:
		for i := range x {
			in.guardCells[&x[i]] = g
		}
	case Iface:
		if x.t != nil {
			in.addGuard(x.v, g, depth+1)
		}
	}
}

// assignInPlace stores v into the cell *dst.  Structs and arrays are written
// element by element into the existing storage, so that addresses of fields
// and elements taken before the store stay valid (as in real memory).
func assignInPlace(dst *Value, v Value) {
	switch nv := v.(type) {
	case Struct:
		if old, ok := (*dst).(Struct); ok && len(old) == len(nv) {
			for i := range nv {
				assignInPlace(&old[i], nv[i])
			}
			return
		}
	case Array:
		if old, ok := (*dst).(Array); ok && len(old) == len(nv) {
			for i := range nv {
				assignInPlace(&old[i], nv[i])
			}
			return
		}
	}
	*dst = copyVal(v)
}

func (in *Interp) visitInstr(fr *frame, instr ssa.Instruction) continuation {
	switch instr := instr.(type) {
	case *ssa.DebugRef:

	case *ssa.UnOp:
		if in.atomicFields != nil && instr.Op == token.MUL {
			in.checkPlainAccess(instr.X, false)
		}
		fr.env[instr] = in.unop(fr, instr, fr.get(instr.X))

	case *ssa.BinOp:
		fr.env[instr] = in.binop(instr.Op, instr.X.Type(), fr.get(instr.X), fr.get(instr.Y))

	case *ssa.Call:
		fn, args := in.prepareCall(fr, &instr.Call)
		if len(in.cfg.stubDyn) > 0 && instr.Call.StaticCallee() == nil && !instr.Call.IsInvoke() {
			if ds := in.cfg.stubDyn[fr.fn.String()]; ds != nil {
				name := ""
				switch f := fn.(type) {
				case *ssa.Function:
					name = f.String()
				case *Closure:
					name = f.fn.String()
				}
				redirect := true
				for _, ex := range ds.except {
					if strings.HasPrefix(name, ex) {
						redirect = false
					}
				}
				if redirect {
					in.stubHits["dyn:"+fr.fn.String()]++
					fn = ds.target
				}
			}
		}
		if in.inInit > 0 && fr.fn.Name() == "init" && fr.fn.Synthetic != "" {
			fr.env[instr] = in.initCall(fr, instr, fn, args)
		} else {
			fr.env[instr] = in.call(fr, fn, args)
		}
		in.cur = fr

	case *ssa.ChangeInterface:
		fr.env[instr] = fr.get(instr.X)

	case *ssa.ChangeType:
		fr.env[instr] = fr.get(instr.X)

	case *ssa.Convert:
		fr.env[instr] = in.conv(instr.Type(), instr.X.Type(), fr.get(instr.X))

	case *ssa.MultiConvert:
		fr.env[instr] = in.conv(instr.Type(), instr.X.Type(), fr.get(instr.X))

	case *ssa.SliceToArrayPointer:
		x := fr.get(instr.X).(Slice)
		n := int(deref(instr.Type()).Underlying().(*types.Array).Len())
		if len(x) < n {
			in.throw("cannot convert slice to array pointer: length too short")
		}
		if x == nil {
			fr.env[instr] = (*Value)(nil)
		} else {
			var cell Value = Array(x[:n:n])
			fr.env[instr] = &cell
		}

	case *ssa.MakeInterface:
		fr.env[instr] = Iface{t: instr.X.Type(), v: copyVal(fr.get(instr.X))}

	case *ssa.Extract:
		fr.env[instr] = fr.get(instr.Tuple).(Tuple)[instr.Index]

	case *ssa.Slice:
		fr.env[instr] = in.slice(instr, fr.get(instr.X), fr.get(instr.Low), fr.get(instr.High), fr.get(instr.Max))

	case *ssa.Return:
		switch len(instr.Results) {
		case 0:
		case 1:
			fr.result = fr.get(instr.Results[0])
		default:
			res := make(Tuple, len(instr.Results))
			for i, r := range instr.Results {
				res[i] = fr.get(r)
			}
			fr.result = res
		}
		fr.block = nil
		return kReturn

	case *ssa.RunDefers:
		in.runDefers(fr)
		in.cur = fr

	case *ssa.Panic:
		panic(&goPanic{v: fr.get(instr.X), where: in.where(), stack: in.stack()})

	case *ssa.Send:
		ch := fr.get(instr.Chan).(*Chan)
		in.chanSend(ch, fr.get(instr.X))

	case *ssa.Store:
		if in.atomicFields != nil {
			in.checkPlainAccess(instr.Addr, true)
		}
		in.storePtr(fr.get(instr.Addr), fr.get(instr.Val))

	case *ssa.If:
		c := fr.get(instr.Cond).(*Term)
		succ := 1
		var taken bool
		if c.IsConst() {
			taken = c.val != 0
		} else {
			if fr.symLoops == nil {
				fr.symLoops = map[*ssa.BasicBlock]int{}
			}
			fr.symLoops[fr.block]++
			if fr.symLoops[fr.block] > in.unwind {
				panic(unsupported{fmt.Sprintf("unwinding bound %d exceeded at %s", in.unwind, in.where())})
			}
			taken = in.p.Branch(c)
		}
		if taken {
			succ = 0
		}
		fr.prevBlock, fr.block = fr.block, fr.block.Succs[succ]
		return kJump

	case *ssa.Jump:
		fr.prevBlock, fr.block = fr.block, fr.block.Succs[0]
		return kJump

	case *ssa.Defer:
		fn, args := in.prepareCall(fr, &instr.Call)
		target := fr
		if instr.DeferStack != nil {
			if ref, ok := fr.get(instr.DeferStack).(*deferStackRef); ok && ref != nil {
				target = ref.fr
			}
		}
		target.defers = &deferred{fn: fn, args: args, tail: target.defers, pos: instr.Pos()}

	case *ssa.Go:
		fn, args := in.prepareCall(fr, &instr.Call)
		in.gos = append(in.gos, goroutineRec{fn, args, in.where()})

	case *ssa.MakeChan:
		n := in.concInt(fr.get(instr.Size))
		fr.env[instr] = &Chan{cap: int(n)}

	case *ssa.Alloc:
		var addr *Value
		if instr.Heap {
			addr = new(Value)
			fr.env[instr] = addr
		} else {
			addr = fr.env[instr].(*Value)
		}
		*addr = zero(deref(instr.Type()))

	case *ssa.MakeSlice:
		ln := in.concInt(fr.get(instr.Len))
		cp := in.concInt(fr.get(instr.Cap))
		if ln < 0 || cp < ln {
			in.throw("makeslice: len out of range")
		}
		if cp > 1<<26 {
			panic(unsupported{fmt.Sprintf("makeslice of %d elements", cp)})
		}
		s := make(Slice, cp)
		tElt := instr.Type().Underlying().(*types.Slice).Elem()
		z := zero(tElt)
		switch z.(type) {
		case Struct, Array:
			for i := range s {
				s[i] = zero(tElt)
			}
		default:
			for i := range s {
				s[i] = z
			}
		}
		fr.env[instr] = s[:ln]

	case *ssa.MakeMap:
		fr.env[instr] = newMap()

	case *ssa.Range:
		fr.env[instr] = in.rangeIter(fr.get(instr.X))

	case *ssa.Next:
		fr.env[instr] = in.iterNext(fr, fr.get(instr.Iter))

	case *ssa.FieldAddr:
		p := fr.get(instr.X).(*Value)
		if p == nil {
			in.throw("invalid memory address or nil pointer dereference")
		}
		fr.env[instr] = &(*p).(Struct)[instr.Field]

	case *ssa.Field:
		fr.env[instr] = copyVal(fr.get(instr.X).(Struct)[instr.Field])

	case *ssa.IndexAddr:
		fr.env[instr] = in.indexAddr(fr, instr, fr.get(instr.X), fr.get(instr.Index))

	case *ssa.Index:
		fr.env[instr] = in.index(fr, instr, fr.get(instr.X), fr.get(instr.Index))

	case *ssa.Lookup:
		fr.env[instr] = in.lookup(instr, fr.get(instr.X), fr.get(instr.Index))

	case *ssa.MapUpdate:
		m := fr.get(instr.Map).(*Map)
		if m == nil {
			in.throw("assignment to entry in nil map")
		}
		in.mapInsert(m, fr.get(instr.Key), copyVal(fr.get(instr.Value)))

	case *ssa.TypeAssert:
		fr.env[instr] = in.typeAssert(instr, fr.get(instr.X).(Iface))

	case *ssa.MakeClosure:
		var bindings []Value
		for _, b := range instr.Bindings {
			bindings = append(bindings, fr.get(b))
		}
		fr.env[instr] = &Closure{instr.Fn.(*ssa.Function), bindings}

	case *ssa.Phi:
		panic("unreachable: phi")

	case *ssa.Select:
		fr.env[instr] = in.selectStmt(fr, instr)

	default:
		panic(unsupported{fmt.Sprintf("instruction %T", instr)})
	}
	return kNext
}

// visitInitInstr executes one instruction of a synthetic package initialiser;
// an instruction that cannot be interpreted poisons its result (or the global
// it stores to) instead of failing the path: the failure surfaces only if the
// poisoned value is used.
func (in *Interp) visitInitInstr(fr *frame, instr ssa.Instruction) (k continuation) {
	savedDepth := in.depth
	defer func() {
		r := recover()
		if r == nil {
			return
		}
		var why string
		switch r := r.(type) {
		case unsupported:
			why = r.msg
		case *goPanic:
			why = "panic in initialiser: " + showValue(r.v, 0)
		case runtime.Error:
			// an engine limitation met while running an initialiser poisons
			// the value being initialised; it surfaces only if that value is used
			why = "engine limitation in package initialiser: " + r.Error()
		default:
			panic(r)
		}
		in.depth = savedDepth
		in.cur = fr
		switch instr := instr.(type) {
		case *ssa.Store:
			var addr Value
			switch a := instr.Addr.(type) {
			case *ssa.Global:
				addr = in.globals[a]
			default:
				addr = fr.env[a]
			}
			if p, ok := addr.(*Value); ok && p != nil {
				*p = Poison{why}
				k = kNext
				return
			}
		case ssa.Value:
			fr.env[instr] = Poison{why}
			k = kNext
			return
		}
		// control flow depends on a poisoned value: poison every global this
		// initialiser has not stored yet and stop initialising.
		for _, b := range fr.fn.Blocks {
			for _, i2 := range b.Instrs {
				if st, ok := i2.(*ssa.Store); ok {
					if g, ok := st.Addr.(*ssa.Global); ok && !fr.initStored[g] {
						if p := in.globals[g]; p != nil {
							*p = Poison{"package initialiser aborted: " + why}
						}
					}
				}
			}
		}
		fr.block = nil
		k = kReturn
	}()
	if st, ok := instr.(*ssa.Store); ok {
		if g, ok := st.Addr.(*ssa.Global); ok {
			if fr.initStored == nil {
				fr.initStored = map[*ssa.Global]bool{}
			}
			defer func() { fr.initStored[g] = true }()
		}
	}
	return in.visitInstr(fr, instr)
}

// initCall runs one call made directly by a synthetic package initialiser.
// Calls to other packages' init are skipped (packages initialise lazily);
// calls that cannot be interpreted poison their result instead of failing.
func (in *Interp) initCall(fr *frame, instr *ssa.Call, fn Value, args []Value) (res Value) {
	if f, ok := fn.(*ssa.Function); ok && f != nil {
		if f.Name() == "init" && f.Pkg != fr.fn.Pkg && f.Synthetic != "" {
			return nil
		}
	}
	savedDepth := in.depth
	defer func() {
		if r := recover(); r != nil {
			switch r := r.(type) {
			case unsupported:
				in.depth = savedDepth
				in.cur = fr
				res = Poison{r.msg}
			case *goPanic:
				in.depth = savedDepth
				in.cur = fr
				res = Poison{"panic in initialiser: " + showValue(r.v, 0)}
			default:
				panic(r)
			}
		}
	}()
	in.inInit++
	defer func() { in.inInit-- }()
	saved := in.inInit
	in.inInit = 0 // nested frames are ordinary
	defer func() { in.inInit = saved }()
	return in.call(fr, fn, args)
}

func (in *Interp) concInt(v Value) int64 {
	if v == nil {
		return 0
	}
	t := v.(*Term)
	if t.IsConst() {
		return sext(t.val, t.w)
	}
	return sext(in.p.Concretize(t), t.w)
}

// ---- type assertions ----

func (in *Interp) typeAssert(instr *ssa.TypeAssert, x Iface) Value {
	var v Value
	err := ""
	if lv, ok := isLazy(x); ok {
		if it, isI := instr.AssertedType.Underlying().(*types.Interface); isI && it.NumMethods() == 0 {
			// assertion to `any`: succeeds unless nil
			if in.lazyNil(lv) {
				x = Iface{}
			} else {
				if instr.CommaOk {
					return Tuple{x, trueT}
				}
				return x
			}
		} else {
			x = in.lazyAs(lv, instr.AssertedType)
		}
	}
	if x.t == nil {
		err = fmt.Sprintf("interface conversion: interface is nil, not %s", instr.AssertedType)
	} else if idst, ok := instr.AssertedType.Underlying().(*types.Interface); ok && !isTypeParam(instr.AssertedType) {
		if meth, _ := types.MissingMethod(x.t, idst, true); meth != nil {
			err = fmt.Sprintf("interface conversion: %v is not %v: missing method %s", x.t, idst, meth.Name())
		} else {
			v = x
		}
	} else if types.Identical(x.t, instr.AssertedType) {
		v = copyVal(x.v)
	} else {
		err = fmt.Sprintf("interface conversion: interface is %s, not %s", x.t, instr.AssertedType)
	}
	if err != "" {
		if !instr.CommaOk {
			in.throw(err)
		}
		return Tuple{zero(instr.AssertedType), falseT}
	}
	if instr.CommaOk {
		return Tuple{v, trueT}
	}
	return v
}

func isTypeParam(t types.Type) bool {
	_, ok := t.(*types.TypeParam)
	return ok
}

// ---- channels (sequential, buffered model) ----

func (in *Interp) chanSend(ch *Chan, v Value) {
	if ch == nil {
		panic(unsupported{"send on nil channel blocks forever"})
	}
	if ch.closed {
		in.throw("send on closed channel")
	}
	if len(ch.buf) >= ch.cap {
		// an unbuffered/full channel would block; model: the value is queued
		// (the receiver is a goroutine the engine does not run) and noted.
		in.p.notes = append(in.p.notes, "send on full/unbuffered channel at "+in.where())
	}
	ch.buf = append(ch.buf, v)
}

func (in *Interp) chanRecv(ch *Chan, t types.Type, commaOk bool) Value {
	if ch == nil {
		panic(unsupported{"receive on nil channel blocks forever"})
	}
	var v Value
	ok := true
	if len(ch.buf) > 0 {
		v = ch.buf[0]
		ch.buf = ch.buf[1:]
	} else if ch.closed {
		v = zero(t)
		ok = false
	} else {
		panic(unsupported{"receive on empty channel would block at " + in.where()})
	}
	if commaOk {
		return Tuple{v, mkBool(ok)}
	}
	return v
}

func (in *Interp) selectStmt(fr *frame, instr *ssa.Select) Value {
	chosen := -1
	var recv Value
	recvOk := false
	for i, st := range instr.States {
		ch := fr.get(st.Chan).(*Chan)
		if ch == nil {
			continue
		}
		if st.Dir == types.RecvOnly {
			if len(ch.buf) > 0 || ch.closed {
				chosen = i
				t := st.Chan.Type().Underlying().(*types.Chan).Elem()
				r := in.chanRecv(ch, t, true).(Tuple)
				recv = r[0]
				recvOk = r[1].(*Term).val != 0
				break
			}
		} else {
			if len(ch.buf) < ch.cap {
				chosen = i
				in.chanSend(ch, fr.get(st.Send))
				break
			}
		}
	}
	if chosen < 0 && instr.Blocking {
		panic(unsupported{"select would block at " + in.where()})
	}
	r := Tuple{mkConst(uint64(int64(chosen)), 64), mkBool(recvOk)}
	for i, st := range instr.States {
		if st.Dir == types.RecvOnly {
			if i == chosen && recvOk {
				r = append(r, recv)
			} else {
				r = append(r, zero(st.Chan.Type().Underlying().(*types.Chan).Elem()))
			}
		}
	}
	return r
}

var _ = strings.HasPrefix
