//go:build verif

package dnsforward

// C03 — access lists: excluded clients and blocked names are never served.
//
//vx:overlay internal/dnsforward/zz_vx_c03.go
//vx:native
//vx:entry vxC03Decision reach=allow-mode,block-mode,dropped,refused,served,host-blocked
//vx:entry vxC03Lists reach=list-allowed,list-disallowed
//vx:stub (*github.com/AdguardTeam/urlfilter.DNSEngine).MatchRequest vxC03MatchRequest
//vx:stub (*github.com/AdguardTeam/AdGuardHome/internal/dnsforward.Server).clientIDFromDNSContext vxC03ClientID
//vx:stub github.com/AdguardTeam/urlfilter.NewDNSEngine vxC03NewDNSEngine
//vx:opaque (net/netip.Addr).String
//vx:opaque (net/netip.Prefix).String
//vx:stub github.com/AdguardTeam/urlfilter/filterlist.NewRuleStorage vxC03NewRuleStorage
//vx:note Decision entry (thorough; quick = every configuration of the list side in force, the ignored side empty or fully populated, ClientIDs <=1 byte, 1..2 questions): each of the six sets (allowed/disallowed x address, CIDR, ClientID) independently empty or holding one symbolic element (addresses v4 or v6 with all bytes symbolic, prefix length symbolic over the whole range incl. invalid, ClientIDs of 1..2 symbolic bytes); client address v4/v6/4-in-6/zoned-v6 with symbolic bytes; all six protocols; 0..2 questions; blocked-host verdict symbolic
//vx:note Lists entry: the real list parser (processAccessClients) on one entry per list drawn from {v4 address, v4 CIDR /0../32, v6 address, v6 CIDR /0../128 (unmasked base), ClientID}; membership reference is a byte/bit comparison written in the harness
//vx:note outside: blocked-host pattern syntax (urlfilter engine verdict is an arbitrary bit); ClientID extraction (C16); dnsproxy's consumer of the returned error is mirrored in 6 lines (nil = serve, *BeforeRequestError = reply, other error = drop)

import (
	"net/netip"

	"github.com/AdguardTeam/AdGuardHome/internal/vx"
	"github.com/AdguardTeam/dnsproxy/proxy"
	"github.com/AdguardTeam/golibs/cache"
	"github.com/AdguardTeam/golibs/container"
	"github.com/AdguardTeam/golibs/errors"
	"github.com/AdguardTeam/urlfilter"
	"github.com/AdguardTeam/urlfilter/filterlist"
	"github.com/miekg/dns"
)

var (
	vxC03HostVerdict bool
	vxC03HostCalls   int
	vxC03ID          string
	vxC03CacheSets   int
)

func vxC03MatchRequest(e *urlfilter.DNSEngine, r *urlfilter.DNSRequest) (*urlfilter.DNSResult, bool) {
	vxC03HostCalls++
	return nil, vxC03HostVerdict
}

func vxC03ClientID(s *Server, pctx *proxy.DNSContext) (string, error) {
	switch pctx.Proto {
	case proxy.ProtoTLS, proxy.ProtoQUIC, proxy.ProtoHTTPS:
		return vxC03ID, nil
	}
	return "", nil
}

func vxC03NewDNSEngine(s *filterlist.RuleStorage) *urlfilter.DNSEngine { return &urlfilter.DNSEngine{} }

func vxC03NewRuleStorage(l []filterlist.RuleList) (*filterlist.RuleStorage, error) { return nil, nil }

type vxC03Cache struct{}

func (vxC03Cache) Set(key, val []byte) bool { vxC03CacheSets++; return false }
func (vxC03Cache) Get(key []byte) []byte   { return nil }
func (vxC03Cache) Del(key []byte)          {}
func (vxC03Cache) Clear()                  {}
func (vxC03Cache) Stats() (s cache.Stats) { return s }

func vxC03Addr(name string, kind int) netip.Addr {
	switch kind {
	case 0:
		var b [4]byte
		copy(b[:], vx.Bytes(name, 4))
		return netip.AddrFrom4(b)
	default:
		var b [16]byte
		copy(b[:], vx.Bytes(name, 16))
		a := netip.AddrFrom16(b)
		return a
	}
}

func vxC03Protos() proxy.Proto {
	protos := []proxy.Proto{proxy.ProtoUDP, proxy.ProtoTCP, proxy.ProtoTLS, proxy.ProtoHTTPS, proxy.ProtoQUIC, proxy.ProtoDNSCrypt}
	return protos[vx.Choice("proto", len(protos))]
}

// vxC03Run drives HandleBefore and classifies the outcome the way dnsproxy's
// handleBefore does: 0 served, 1 dropped (no reply), 2 replied with rcode.
func vxC03Run(s *Server, pctx *proxy.DNSContext) (outcome int, rcode int) {
	err := s.HandleBefore(nil, pctx)
	if err == nil {
		return 0, 0
	}
	befErr := &proxy.BeforeRequestError{}
	if errors.As(err, &befErr) {
		if befErr.Response == nil {
			return 2, -1
		}
		return 2, befErr.Response.Rcode
	}
	return 1, 0
}

func vxC03Req(nq int) *dns.Msg {
	req := &dns.Msg{}
	req.Id = 7
	for i := 0; i < nq; i++ {
		req.Question = append(req.Question, dns.Question{Name: "example.org.", Qtype: vx.Uint16("qtype"), Qclass: dns.ClassINET})
	}
	return req
}

func vxC03Decision() {
	a := &accessManager{
		allowedIPs:       container.NewMapSet[netip.Addr](),
		blockedIPs:       container.NewMapSet[netip.Addr](),
		allowedClientIDs: container.NewMapSet[string](),
		blockedClientIDs: container.NewMapSet[string](),
		blockedHostsEng:  &urlfilter.DNSEngine{},
	}
	// Six sets, each empty or with one symbolic element.
	var allowIP, blockIP []netip.Addr
	var allowNet, blockNet []netip.Prefix
	var allowID, blockID []string
	// kAllowIP .. kBlockID: 0 = empty, 1 = v4 (IDs: 1 byte), 2 = v6 (IDs: 2 bytes)
	var kAllowIP, kAllowNet, kAllowID, kBlockIP, kBlockNet, kBlockID int
	if vx.Thorough() {
		kAllowIP, kAllowNet, kAllowID = vx.Choice("allowIP", 3), vx.Choice("allowNet", 3), vx.Choice("allowID", 3)
		kBlockIP, kBlockNet, kBlockID = vx.Choice("blockIP", 3), vx.Choice("blockNet", 3), vx.Choice("blockID", 3)
	} else if vx.Bool("allowmode") {
		// allow-list mode: every non-empty allowed side; the disallowed side
		// (which must be ignored) empty or fully populated
		kAllowIP, kAllowNet, kAllowID = vx.Choice("allowIP", 3), vx.Choice("allowNet", 3), vx.Choice("allowID", 2)
		vx.Assume(kAllowIP+kAllowNet+kAllowID > 0)
		if f := vx.Choice("blockall", 3); f > 0 {
			kBlockIP, kBlockNet, kBlockID = f, f, 1
		}
	} else {
		kBlockIP, kBlockNet, kBlockID = vx.Choice("blockIP", 3), vx.Choice("blockNet", 3), vx.Choice("blockID", 2)
	}
	if k := kAllowIP; k > 0 {
		allowIP = append(allowIP, vxC03Addr("aip", k-1))
		a.allowedIPs.Add(allowIP[0])
	}
	if k := kBlockIP; k > 0 {
		blockIP = append(blockIP, vxC03Addr("bip", k-1))
		a.blockedIPs.Add(blockIP[0])
	}
	if k := kAllowNet; k > 0 {
		allowNet = append(allowNet, netip.PrefixFrom(vxC03Addr("anet", k-1), int(int8(vx.Byte("abits")))))
		a.allowedNets = allowNet
	}
	if k := kBlockNet; k > 0 {
		blockNet = append(blockNet, netip.PrefixFrom(vxC03Addr("bnet", k-1), int(int8(vx.Byte("bbits")))))
		a.blockedNets = blockNet
	}
	if k := kAllowID; k > 0 {
		allowID = append(allowID, vx.String("aid", k))
		a.allowedClientIDs.Add(allowID[0])
	}
	if k := kBlockID; k > 0 {
		blockID = append(blockID, vx.String("bid", k))
		a.blockedClientIDs.Add(blockID[0])
	}

	// The client.
	var ip netip.Addr
	switch 1 + vx.Choice("cli", 4) {
	case 1:
		ip = vxC03Addr("cip", 0)
	case 2:
		ip = vxC03Addr("cip", 1)
	case 3:
		var b [16]byte
		copy(b[12:], vx.Bytes("cip", 4))
		b[10], b[11] = 0xff, 0xff
		ip = netip.AddrFrom16(b)
	default:
		ip = vxC03Addr("cip", 1).WithZone("eth0")
		// exact-address entries are compared including the zone; the statement
		// leaves zoned clients vs. unzoned entries open: keep them different
		for _, e := range allowIP {
			vx.Assume(e != ip.WithZone(""))
		}
		for _, e := range blockIP {
			vx.Assume(e != ip.WithZone(""))
		}
	}
	proto := vxC03Protos()
	idlens, nqs := 2, 2
	if vx.Thorough() {
		idlens, nqs = 3, 3
	}
	vxC03ID = vx.String("id", vx.Choice("idlen", idlens))
	vxC03HostVerdict = vx.Bool("hostblocked")
	nq := 2 - vx.Choice("nq", nqs)

	s := &Server{access: a, clientIDCache: vxC03Cache{}}
	s.conf.TLSConf = &TLSConfig{}
	pctx := &proxy.DNSContext{Proto: proto, Addr: netip.AddrPortFrom(ip, 53), Req: vxC03Req(nq), RequestID: 1}
	outcome, rcode := vxC03Run(s, pctx)
	vx.Note(outcome)
	vx.Note(rcode)

	// Reference, from the statement.
	id := ""
	if proto == proxy.ProtoTLS || proto == proxy.ProtoQUIC || proto == proxy.ProtoHTTPS {
		id = vxC03ID
	}
	member := func(ips []netip.Addr, nets []netip.Prefix, ids []string) bool {
		for _, e := range ips {
			if ip.IsValid() && e == ip {
				return true
			}
		}
		for _, n := range nets {
			if ip.IsValid() && n.Contains(ip.WithZone("")) {
				return true
			}
		}
		for _, e := range ids {
			if id != "" && e == id {
				return true
			}
		}
		return false
	}
	allowMode := len(allowIP)+len(allowNet)+len(allowID) > 0
	var excluded bool
	if allowMode {
		vx.Reach("allow-mode")
		excluded = !member(allowIP, allowNet, allowID)
	} else {
		vx.Reach("block-mode")
		excluded = member(blockIP, blockNet, blockID)
	}
	hostBlocked := !excluded && nq == 1 && vxC03HostVerdict
	if excluded || hostBlocked {
		if hostBlocked {
			vx.Reach("host-blocked")
		}
		if proto == proxy.ProtoUDP || proto == proxy.ProtoDNSCrypt {
			vx.Reach("dropped")
			vx.Assert(outcome == 1, "excluded client / blocked name over UDP or DNSCrypt gets no reply at all")
		} else {
			vx.Reach("refused")
			vx.Assert(outcome == 2 && rcode == dns.RcodeRefused, "excluded client / blocked name over other transports gets only REFUSED")
		}
		vx.Assert(vxC03CacheSets == 0, "no ClientID is cached for a request that is not served")
		if excluded {
			vx.Assert(vxC03HostCalls == 0, "an excluded client's question is not even matched")
		}
	} else {
		vx.Reach("served")
		vx.Assert(outcome == 0, "all other requests are served")
		vx.Assert((vxC03CacheSets == 1) == (id != ""), "ClientID handed to the processing stage exactly when present")
	}
}

// ---- list parsing ----

func vxC03Itoa(n int) string {
	if n == 0 {
		return "0"
	}
	s := ""
	for n > 0 {
		s = string(rune('0'+n%10)) + s
		n /= 10
	}
	return s
}

// vxC03Entry returns a list entry of the chosen kind and a predicate telling
// whether (client address bytes, ClientID) is covered by it.
func vxC03Entry(tag string) (entry string, covers func(v6 bool, b []byte, id string) bool) {
	base4 := []byte{10, 77, 129, 5}
	base6 := []byte{0x20, 0x01, 0x0d, 0xb8, 0, 0, 0, 0x81, 0, 0, 0, 0, 0, 0, 0, 1}
	prefixEq := func(a, b []byte, bits int) bool {
		var diff byte
		for i := 0; i < bits; i++ {
			diff |= (a[i/8] ^ b[i/8]) & (byte(0x80) >> (i % 8))
		}
		return diff == 0
	}
	switch vx.Choice(tag+"kind", 5) {
	case 0:
		return "10.77.129.5", func(v6 bool, b []byte, id string) bool { return !v6 && prefixEq(b, base4, 32) }
	case 1:
		bits := vx.Choice(tag+"bits4", 33)
		return "10.77.129.5/" + vxC03Itoa(bits), func(v6 bool, b []byte, id string) bool { return !v6 && prefixEq(b, base4, bits) }
	case 2:
		return "2001:db8:0:81::1", func(v6 bool, b []byte, id string) bool { return v6 && prefixEq(b, base6, 128) }
	case 3:
		bits := vx.Choice(tag+"bits6", 129)
		return "2001:db8:0:81::1/" + vxC03Itoa(bits), func(v6 bool, b []byte, id string) bool { return v6 && prefixEq(b, base6, bits) }
	default:
		return "cli", func(v6 bool, b []byte, id string) bool { return id == "cli" }
	}
}

func vxC03Lists() {
	inAllowed := vx.Bool("inAllowed")
	entry, covers := vxC03Entry("e")
	var allowed, disallowed []string
	if inAllowed {
		allowed = []string{entry}
	} else {
		disallowed = []string{entry}
	}
	a, err := newAccessCtx(allowed, disallowed, nil)
	vx.Assert(err == nil, "a well-formed access list is accepted")
	s := &Server{access: a, clientIDCache: vxC03Cache{}}
	s.conf.TLSConf = &TLSConfig{}

	v6 := vx.Bool("v6")
	var ip netip.Addr
	var raw []byte
	if v6 {
		raw = vx.Bytes("cip", 16)
		var b [16]byte
		copy(b[:], raw)
		// keep it a plain IPv6 address (4-in-6 is covered by the decision entry)
		vx.Assume(!(b[10] == 0xff && b[11] == 0xff && b[0]|b[1]|b[2]|b[3]|b[4]|b[5]|b[6]|b[7]|b[8]|b[9] == 0))
		ip = netip.AddrFrom16(b)
	} else {
		raw = vx.Bytes("cip", 4)
		var b [4]byte
		copy(b[:], raw)
		ip = netip.AddrFrom4(b)
	}
	id := ""
	if vx.Bool("hasid") {
		id = "cli"
		if vx.Bool("otherid") {
			id = "clj"
		}
	}
	blocked, _ := s.IsBlockedClient(ip, id)
	vx.Note(blocked)
	cov := covers(v6, raw, id)
	if inAllowed {
		vx.Reach("list-allowed")
		vx.Assert(blocked == !cov, "allow-list mode: admitted exactly when address or ClientID is allowed")
	} else {
		vx.Reach("list-disallowed")
		vx.Assert(blocked == cov, "block-list mode: excluded exactly when address or ClientID is disallowed")
	}
}
