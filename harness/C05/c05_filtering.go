//go:build verif

package filtering

// C05 (restricted) — lock discipline of filtering.DNSFilter.
//
//vx:overlay internal/filtering/zz_vx_c05.go
//vx:entry vxC05Filter reach=guarded-access
//vx:stub (*github.com/AdguardTeam/urlfilter.DNSEngine).MatchRequest vxC05FMatchRequest
//vx:stub github.com/AdguardTeam/urlfilter.NewDNSEngine vxC05NewDNSEngine
//vx:stub github.com/AdguardTeam/urlfilter/filterlist.NewRuleStorage vxC05NewRuleStorage
//vx:stub (*github.com/AdguardTeam/urlfilter/filterlist.RuleStorage).Close vxC05StorageClose
//vx:stub (*github.com/AdguardTeam/AdGuardHome/internal/schedule.Weekly).Contains vxC05Contains
//vx:stub runtime/debug.FreeOSMemory vxC05Free

import (
	"sync"
	"time"

	"github.com/AdguardTeam/AdGuardHome/internal/schedule"
	"github.com/AdguardTeam/AdGuardHome/internal/vx"
	"github.com/AdguardTeam/urlfilter"
	"github.com/AdguardTeam/urlfilter/filterlist"
	"github.com/miekg/dns"
)

var vxC05Filt *DNSFilter

func vxC05FMatchRequest(e *urlfilter.DNSEngine, r *urlfilter.DNSRequest) (*urlfilter.DNSResult, bool) {
	// using an engine means reading the rule storage behind it
	if vxC05Filt != nil {
		if e == vxC05Filt.filteringEngine {
			_ = vxC05Filt.rulesStorage
		}
	}
	return &urlfilter.DNSResult{}, false
}

func vxC05NewDNSEngine(s *filterlist.RuleStorage) *urlfilter.DNSEngine { return &urlfilter.DNSEngine{} }
func vxC05NewRuleStorage(l []filterlist.RuleList) (*filterlist.RuleStorage, error) {
	return &filterlist.RuleStorage{}, nil
}

// vxC05StorageClose: closing a rule storage invalidates it for every engine
// still using it, so it counts as a write to the state engineLock protects.
func vxC05StorageClose(s *filterlist.RuleStorage) error {
	if vxC05Filt != nil && vx.Held(&vxC05Filt.engineLock) != 2 {
		vx.Fail("a rule storage still reachable by in-flight matches is closed without engineLock write-locked")
	}
	return nil
}

func vxC05Contains(w *schedule.Weekly, t time.Time) bool { return false }
func vxC05Free()                                        {}

// VxC05NewFilter builds a minimal filter (used by the dnsforward entries too).
func VxC05NewFilter(c *Config) *DNSFilter {
	d := &DNSFilter{confMu: &sync.RWMutex{}, conf: c, refreshLock: &sync.Mutex{}}
	d.conf.filtersMu = &sync.RWMutex{}
	d.filteringEngine = &urlfilter.DNSEngine{}
	d.filteringEngineAllow = &urlfilter.DNSEngine{}
	d.rulesStorage = &filterlist.RuleStorage{}
	d.rulesStorageAllow = &filterlist.RuleStorage{}
	return d
}

func vxC05Filter() {
	c := &Config{ProtectionEnabled: true, FilteringEnabled: true, BlockedServices: &BlockedServices{Schedule: schedule.EmptyWeekly()},
		Rewrites: []*LegacyRewrite{{Domain: "a.b", Answer: "1.2.3.4"}}}
	d := VxC05NewFilter(c)
	_ = d.prepareRewrites()
	vxC05Filt = d
	vx.Guard(&d.filteringEngine, &d.engineLock, "DNSFilter.filteringEngine")
	vx.Guard(&d.filteringEngineAllow, &d.engineLock, "DNSFilter.filteringEngineAllow")
	vx.Guard(&d.rulesStorage, &d.engineLock, "DNSFilter.rulesStorage")
	vx.Guard(&d.rulesStorageAllow, &d.engineLock, "DNSFilter.rulesStorageAllow")
	vx.Guard(&d.conf.Rewrites, d.confMu, "DNSFilter.conf.Rewrites")
	vx.Guard(&d.conf.BlockedServices, d.confMu, "DNSFilter.conf.BlockedServices")
	vx.Guard(&d.conf.ProtectionEnabled, d.confMu, "DNSFilter.conf.ProtectionEnabled")
	vx.Guard(&d.conf.ProtectionDisabledUntil, d.confMu, "DNSFilter.conf.ProtectionDisabledUntil")
	vx.Guard(&d.conf.BlockingMode, d.confMu, "DNSFilter.conf.BlockingMode")

	setts := &Settings{ProtectionEnabled: true, FilteringEnabled: true}
	switch vx.Choice("op", 9) {
	case 0: // request path
		_, _ = d.matchHost("example.org", dns.TypeA, setts)
	case 1:
		_ = d.processRewrites("a.b", dns.TypeA)
	case 2:
		d.ApplyBlockedServices(setts)
	case 3:
		d.BlockingMode()
	case 4:
		d.ProtectionStatus()
	case 5: // admin path
		d.SetProtectionStatus(false, nil)
	case 6:
		d.SetBlockingMode(BlockingModeNullIP, d.conf.BlockingIPv4, d.conf.BlockingIPv6)
	case 7: // engine swap (filter refresh / rule change)
		_ = d.initFiltering(nil, nil)
	default:
		d.Settings()
	}
	if vx.GuardHits() > 0 {
		vx.Reach("guarded-access")
	}
	vx.Assert(vx.Held(&d.engineLock) == 0 && vx.Held(d.confMu) == 0, "locks are released on return")
}
