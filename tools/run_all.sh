#!/bin/bash
# usage: tools/run_all.sh quick|thorough [ID ...] — runs the registered check of every (or the given) property
# against /repo's working tree, one after the other, and prints one summary line per property
cd /verif
TIER=${1:-quick}; shift
IDS="$@"
[ -z "$IDS" ] && IDS=$(python3 -c "import json;print(' '.join(c['property_id'] for c in json.load(open('MANIFEST.json'))['checks']))")
for ID in $IDS; do
  T0=$(date +%s)
  bin/vchk run $ID --tier $TIER > /tmp/run_all.$ID.$TIER.log 2>&1
  RC=$?
  T1=$(date +%s)
  echo "$ID $TIER exit=$RC $((T1-T0))s $(grep -c '^entry' /tmp/run_all.$ID.$TIER.log) entries; $(grep -E '^(VIOLATION|INCONCLUSIVE|KNOWN-FINDING|UNCONFIRMED)' /tmp/run_all.$ID.$TIER.log | head -3 | cut -c1-200 | tr '\n' ';')"
done
