#!/bin/sh
# usage: tools/try_seed.sh <ID> <patch.diff> [extra vchk args]  — applies a seeded change to /repo, runs the quick check, reverts.
ID=$1; PATCH=$2; shift 2
cd /repo || exit 3
git diff --quiet || { echo "repo dirty"; exit 3; }
git apply "$PATCH" || { echo "patch does not apply"; exit 3; }
cd /verif
bin/vchk run "$ID" --no-evidence "$@" > /tmp/try_seed.$$.log 2>&1
rc=$?
git -C /repo checkout -- .
grep -E "^(VIOLATION|INCONCLUSIVE|KNOWN|UNCONFIRMED|entry)|label=" /tmp/try_seed.$$.log | head -20
rm -f /tmp/try_seed.$$.log
echo "exit=$rc"
exit $rc
