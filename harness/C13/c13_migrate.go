//go:build verif

package configmigrate

// C13 — config upgrade never panics and reaches the schema it stamps.
//
//vx:overlay internal/configmigrate/zz_vx_c13.go
//vx:entry vxC13Step reach=stamped,step-error
//vx:entry vxC13Migrate reach=upgraded,untouched,failed
//vx:entry vxC13Chain reach=chain-ok,chain-error
//vx:stub os.Remove vxC13Remove
//vx:opaque (net/netip.AddrPort).String
//vx:opaque (github.com/AdguardTeam/golibs/timeutil.Duration).String
//vx:opaque (time.Duration).String
//vx:stub golang.org/x/crypto/bcrypt.GenerateFromPassword vxC13Bcrypt
//vx:stub gopkg.in/yaml.v3.Unmarshal vxC13Unmarshal
//vx:stub (*gopkg.in/yaml.v3.Encoder).Encode vxC13Encode
//vx:stub (*gopkg.in/yaml.v3.Encoder).SetIndent vxC13SetIndent
//vx:stub gopkg.in/yaml.v3.NewEncoder vxC13NewEncoder
//vx:note the document is an arbitrary untyped tree (lazy): the presence of a key is decided at its first lookup, nil-ness and dynamic type of a value at the first nil test / type assertion (so keys present / absent / null / of unexpected type all arise); bounds: at most 2 (quick) / 3 (thorough) of the keys a step looks at are present per map, strings 0..2 bytes, lists 0..2 elements, nesting depth 3
//vx:note Step entry: each of the 29 steps is run alone through the real step table on an arbitrary document (so every chain of steps is panic-free); Migrate entry: the real Migrate with the last 1..2 steps
//vx:note Chain entry: every window of 2..4 (quick) / 2..6 (thorough) consecutive steps (at most one inspected key present per map; thorough: two for windows of 2..3 steps) run in one go through the real table: a chain must not fail with a type error on a value that an earlier step of the same run stored (the one-run vs several-runs clause, as far as it is visible without a YAML round trip)
//vx:note outside: YAML text <-> value mapping (yaml.v3 is reflection driven), hence one-run vs split-run equality and acceptance by the current loader are not claimed

import (
	"io"

	"github.com/AdguardTeam/AdGuardHome/internal/vx"
	"gopkg.in/yaml.v3"
)

func vxC13Remove(name string) error { return nil }

// vxC13Bcrypt: an arbitrary hash or an error (e.g. password too long).
func vxC13Bcrypt(password []byte, cost int) ([]byte, error) {
	if vx.Bool("bcryptFails") {
		return nil, io.ErrShortBuffer
	}
	return vx.Bytes("hash", 4), nil
}

var (
	vxC13Doc      yobj
	vxC13ParseErr bool
	vxC13Encoded  any
)

func vxC13Unmarshal(in []byte, out any) error {
	if vxC13ParseErr {
		return io.ErrUnexpectedEOF
	}
	*(out.(*yobj)) = vxC13Doc
	return nil
}

func vxC13NewEncoder(w io.Writer) *yaml.Encoder { return &yaml.Encoder{} }
func vxC13SetIndent(e *yaml.Encoder, n int)    {}
func vxC13Encode(e *yaml.Encoder, v any) error {
	vxC13Encoded = v
	return nil
}

func vxC13MaxKeys() int {
	if vx.Thorough() {
		return 3
	}
	return 2
}

// vxC13Step runs exactly one step of the real table on an arbitrary document.
func vxC13Step() {
	step := 1 + vx.Choice("step", int(LastSchemaVersion))
	doc := vx.LazyObject(vxC13MaxKeys())
	marker := []string{"keep"}
	doc["zz_unrelated_setting"] = marker
	m := &Migrator{workingDir: "/w", dataDir: "/w/data"}

	err := m.upgradeConfigSchema(uint(step-1), uint(step), doc)
	if err != nil {
		vx.Reach("step-error")
		return
	}
	vx.Reach("stamped")
	v, ok := doc["schema_version"]
	vx.Assert(ok, "a successful step stamps the document")
	if ok {
		n, isInt := v.(int)
		vx.Assert(isInt && n == step, "the stamp is the step's schema version")
	}
	kept, ok := doc["zz_unrelated_setting"]
	vx.Assert(ok, "a setting the step does not concern is preserved")
	if ok {
		k, isList := kept.([]string)
		vx.Assert(isList && len(k) == 1 && &k[0] == &marker[0], "preserved unchanged")
	}
}

// vxC13Migrate: the whole Migrate function with an arbitrary version stamp.
func vxC13Migrate() {
	doc := vx.LazyObject(vxC13MaxKeys())
	vxC13Doc = doc
	vxC13ParseErr = vx.Bool("yamlParseError")
	vxC13Encoded = nil
	var target uint
	if vx.Bool("lazyVersion") {
		// arbitrary stamp (absent, null, wrong type, any integer) against an
		// early target, so that at most two trivial steps run
		target = 1 + uint(vx.Choice("earlyTarget", 2))
	} else {
		// the last steps: stamp = target-2 (thorough) .. target+1
		target = LastSchemaVersion - uint(vx.Choice("targetBelowLast", 2))
		back := 2
		if vx.Thorough() {
			back = 3
		}
		doc["schema_version"] = int(target) + 1 - vx.Choice("stampBelowTargetPlus1", back+1)
	}
	body := []byte("schema_version: x\n")
	m := New(&Config{WorkingDir: "/w", DataDir: "/w/data"})

	newBody, upgraded, err := m.Migrate(body, target)
	if err != nil {
		vx.Reach("failed")
		vx.Assert(!upgraded, "a failed upgrade reports upgraded == false")
		vx.Assert(len(newBody) == len(body) && (len(body) == 0 || &newBody[0] == &body[0]), "a failed upgrade returns the original body")
		return
	}
	if !upgraded {
		vx.Reach("untouched")
		vx.Assert(len(newBody) == len(body) && &newBody[0] == &body[0], "an already current file is returned untouched")
		vx.Assert(vxC13Encoded == nil, "nothing is re-encoded for a current file")
		return
	}
	vx.Reach("upgraded")
	v, ok := doc["schema_version"]
	n, isInt := v.(int)
	vx.Assert(ok && isInt && uint(n) == target, "an upgraded document is stamped with the target schema version")
}

// vxC13Chain runs several consecutive steps in one run.  A failure with the
// "unexpected type" error although no value of the input document had an
// unexpected type means that a step cannot read what an earlier step of the
// same run wrote (in a run split by a serialisation it could): the result
// would depend on how the upgrade is split.
func vxC13Chain() {
	n := int(LastSchemaVersion)
	maxLen := 4
	if vx.Thorough() {
		maxLen = 6
	}
	from := vx.Choice("from", n-1)
	length := 2 + vx.Choice("len", maxLen-1)
	if from+length > n {
		length = n - from
	}
	// chains multiply the per-step cases: at most 1 of the inspected keys
	// present per map
	keys := 1
	if vx.Thorough() && length <= 3 {
		// short windows: two of the inspected keys present per map
		keys = 2
	}
	doc := vx.LazyObject(keys)
	m := &Migrator{workingDir: "/w", dataDir: "/w/data"}
	err := m.upgradeConfigSchema(uint(from), uint(from+length), doc)
	if err == nil {
		vx.Reach("chain-ok")
		v, ok := doc["schema_version"]
		k, isInt := v.(int)
		vx.Assert(ok && isInt && k == from+length, "the chain stamps the last version")
		return
	}
	vx.Reach("chain-error")
	if vx.LazyTypeMismatches() == 0 {
		msg := err.Error()
		typeErr := false
		const pat = "unexpected type of"
		for i := 0; i+len(pat) <= len(msg); i++ {
			if msg[i:i+len(pat)] == pat {
				typeErr = true
			}
		}
		vx.Assert(!typeErr, "no step fails with a type error on a value that an earlier step of the same run wrote")
	}
}
