// Package vx is the harness API of the /verif symbolic checker.
//
// Under the engine (bin/vchk) every function here is an intrinsic: the bodies
// below are ignored.  Natively (go test -overlay …) the bodies replay one
// counterexample read from the JSON file named by $VX_REPLAY: nondeterministic
// values come from the solver's model, Assume/Assert evaluate concretely.
package vx

import (
	"fmt"
	"runtime"
	"strings"
	"sync"
	"syscall"
)

func caller() string {
	_, f, l, _ := runtime.Caller(2)
	return fmt.Sprintf("%s:%d", f, l)
}

type replayFile struct {
	Model map[string]uint64
}

var (
	replay   *replayFile
	counts   = map[string]int{}
	Failures []string
	Notes    []string
)

// AssumeFailed is panicked when a replayed input does not satisfy an
// assumption (the counterexample does not apply natively).
type AssumeFailed struct{ Where string }

// load reads the model from $VX_MODEL ("name\x1fvalue\x1ename\x1fvalue...").
// It deliberately uses nothing but package syscall: harnesses stub functions
// of os, encoding/json, strconv ... and those stubs are active natively too.
func load() {
	if replay != nil {
		return
	}
	replay = &replayFile{Model: map[string]uint64{}}
	env, _ := syscall.Getenv("VX_MODEL")
	start := 0
	for i := 0; i <= len(env); i++ {
		if i < len(env) && env[i] != 0x1e {
			continue
		}
		rec := env[start:i]
		start = i + 1
		for j := 0; j < len(rec); j++ {
			if rec[j] == 0x1f {
				var v uint64
				for _, c := range []byte(rec[j+1:]) {
					if c >= '0' && c <= '9' {
						v = v*10 + uint64(c-'0')
					}
				}
				replay.Model[rec[:j]] = v
				break
			}
		}
	}
}

// Reset clears replay counters (call at the start of a native replay).
func Reset() {
	counts = map[string]int{}
	Failures = nil
	Notes = nil
}

func sanitize(n string) string {
	return strings.Map(func(r rune) rune {
		if r == '|' || r == '\\' || r < 32 || r > 126 {
			return '_'
		}
		return r
	}, n)
}

func val(name string) uint64 {
	load()
	name = sanitize(name)
	k := counts[name]
	counts[name] = k + 1
	if k > 0 {
		name = fmt.Sprintf("%s#%d", name, k)
	}
	return replay.Model[name]
}

func Bool(name string) bool     { return val(name) != 0 }
func Byte(name string) byte     { return byte(val(name)) }
func Uint16(name string) uint16 { return uint16(val(name)) }
func Uint32(name string) uint32 { return uint32(val(name)) }
func Int32(name string) int32   { return int32(val(name)) }
func Int(name string) int       { return int(val(name)) }
func Int64(name string) int64   { return int64(val(name)) }
func Uint64(name string) uint64 { return val(name) }

// Bytes returns n fresh symbolic bytes.
func Bytes(name string, n int) []byte {
	b := make([]byte, n)
	for i := range b {
		b[i] = byte(val(fmt.Sprintf("%s[%d]", name, i)))
	}
	return b
}

// String returns a string of exactly n fresh symbolic bytes.
func String(name string, n int) string { return string(Bytes(name, n)) }

// Choice returns a value in [0,n); the engine explores every one.
func Choice(name string, n int) int {
	v := int(val(name))
	if v < 0 || v >= n {
		panic(AssumeFailed{caller()})
	}
	return v
}

// Concrete fixes a symbolic integer to each of its feasible values (forking).
func Concrete(x int) int { return x }

func Assume(b bool) {
	if !b {
		panic(AssumeFailed{caller()})
	}
}

func Assert(b bool, label string) {
	if !b {
		Failures = append(Failures, label)
	}
}

func Fail(label string) { Failures = append(Failures, label) }

func Reach(label string) {}

// Known declares the input class of a recorded known finding.
func Known(id string, cond bool) {}

// Note records an observable value (bool, any integer kind as its unsigned
// bit pattern, string, []byte; nil).  The engine and the native run render it
// identically, which is what `vchk selftest` compares.
func Note(v any) {
	var s string
	switch x := v.(type) {
	case nil:
		s = "nil"
	case bool:
		s = fmt.Sprint(x)
	case int:
		s = fmt.Sprint(uint64(x))
	case int64:
		s = fmt.Sprint(uint64(x))
	case int32:
		s = fmt.Sprint(uint32(x))
	case int16:
		s = fmt.Sprint(uint16(x))
	case int8:
		s = fmt.Sprint(uint8(x))
	case uint, uint64, uint32, uint16, uint8:
		s = fmt.Sprint(x)
	case string:
		s = fmt.Sprintf("%q", x)
	case []byte:
		s = fmt.Sprintf("%q", string(x))
	default:
		s = "?"
	}
	Notes = append(Notes, s)
}

// MaxSteps bounds the number of interpreted instructions from here on; when
// label is non-empty exceeding it is a violation (termination properties).
func MaxSteps(n int, label string) {}

// Unwind sets the per-loop bound on symbolic iterations.
func Unwind(n int) {}

// And, Or, Implies are non-short-circuit connectives (no path fork under the engine).
func And(a, b bool) bool     { return a && b }
func Or(a, b bool) bool      { return a || b }
func Implies(a, b bool) bool { return !a || b }

// LazyObject returns an arbitrary untyped document: presence of a key is
// decided at its first lookup (at most maxKeys keys per map are present), the
// dynamic type of a value at its first type assertion.  Engine only.
func LazyObject(maxKeys int) map[string]any { return map[string]any{} }

// LazyTypeMismatches is the number of decisions "this document value is NOT
// of the type the code asks for" taken on the current path.
func LazyTypeMismatches() int { return 0 }

// LazyAny returns an arbitrary value of unknown dynamic type.  Engine only.
func LazyAny(maxKeys int) any { return nil }

// Thorough reports whether the thorough tier is running.
func Thorough() bool { t, _ := syscall.Getenv("VERIF_TIER"); return t == "thorough" }

// Symbolic reports whether the harness runs under the engine.
func Symbolic() bool { return false }

func IsConcrete(v any) bool { return true }

// SameByte reports whether a and b are the same value on every path that
// continues from here for a syntactic reason: under the engine the two are the
// identical (hash-consed) term; it never asks the solver and never forks.
// false only means "not known to be the same".  Natively a == b.
func SameByte(a, b byte) bool { return a == b }

// Held reports the lock state of *sync.Mutex / *sync.RWMutex mu as tracked by
// the engine: 0 free, 1 read-locked, 2 write-locked.  Natively the state is
// probed with TryLock/TryRLock (single-threaded replay).
func Held(mu any) int {
	switch m := mu.(type) {
	case *sync.Mutex:
		if m.TryLock() {
			m.Unlock()
			return 0
		}
		return 2
	case *sync.RWMutex:
		if m.TryLock() {
			m.Unlock()
			return 0
		}
		if m.TryRLock() {
			m.RUnlock()
			return 1
		}
		return 2
	}
	return -1
}

// Guard declares that state (pointer to a struct or field, map, slice; the
// fields and maps it directly contains included) is protected by the mutex mu:
// under the engine every read then requires mu to be read- or write-locked by
// the executing thread and every write requires the write lock.
func Guard(state any, mu any, label string) {}

// GuardHits is the number of guarded accesses checked so far.
func GuardHits() int { return 0 }

func Goroutines() int { return 0 }

func RunGoroutine(i int) {}
