package main

// Engine-native models of functions that have no interpretable body (assembly,
// runtime, unsafe tricks) or whose real body is irrelevant and expensive
// (formatting, logging).  The fixed list is reported in the evidence.

import (
	"fmt"
	"go/types"
	"math"
	"strconv"
	"strings"
	"unsafe"

	"golang.org/x/tools/go/ssa"
)

type intrinsicFn func(in *Interp, caller *frame, fn *ssa.Function, args []Value) Value

var intrinsics map[string]intrinsicFn

func init() {
	intrinsics = map[string]intrinsicFn{
		// ---- sync ----
		"(*sync.Mutex).Lock":      ixLock,
		"(*sync.Mutex).Unlock":    ixUnlock,
		"(*sync.Mutex).TryLock":   ixTryLock,
		"(*sync.RWMutex).Lock":    ixLock,
		"(*sync.RWMutex).Unlock":  ixUnlock,
		"(*sync.RWMutex).RLock":   ixRLock,
		"(*sync.RWMutex).RUnlock": ixRUnlock,
		"(*sync.RWMutex).TryLock": ixTryLock,
		"(*sync.Once).Do":         ixOnceDo,
		"(*sync.WaitGroup).Add":   ixNop,
		"(*sync.WaitGroup).Done":  ixNop,
		"(*sync.WaitGroup).Wait":  ixNop,
		"(*sync.Pool).Get":        ixPoolGet,
		"(*sync.Pool).Put":        ixNop,
		"(*sync.Cond).Broadcast":  ixNop,
		"(*sync.Cond).Signal":     ixNop,

		// ---- runtime / misc ----
		"runtime.GC":                 ixNop,
		"runtime.Gosched":            ixNop,
		"runtime.KeepAlive":          ixNop,
		"runtime.SetFinalizer":       ixNop,
		"runtime/debug.FreeOSMemory": ixNop,
		"runtime/debug.Stack":        func(in *Interp, c *frame, fn *ssa.Function, a []Value) Value { return Slice{} },
		"internal/abi.NoEscape":      func(in *Interp, c *frame, fn *ssa.Function, a []Value) Value { return a[0] },
		"internal/abi.Escape":        func(in *Interp, c *frame, fn *ssa.Function, a []Value) Value { return a[0] },
		"internal/godebug.(*Setting).Value": func(in *Interp, c *frame, fn *ssa.Function, a []Value) Value {
			return ""
		},
		"internal/godebug.(*Setting).IncNonDefault": ixNop,
		"internal/race.Enabled":                     ixNop,
		"os.Getenv":                                 func(in *Interp, c *frame, fn *ssa.Function, a []Value) Value { return "" },
		"internal/stringslite.Clone":                func(in *Interp, c *frame, fn *ssa.Function, a []Value) Value { return a[0] },
		"strings.Clone":                             func(in *Interp, c *frame, fn *ssa.Function, a []Value) Value { return a[0] },
		"bytes.Clone":                               ixBytesClone,
		// slices.overlaps compares addresses with unsafe arithmetic; engine slices
		// share Go backing arrays exactly as the modelled ones do, so the same
		// comparison on the engine's own storage answers it.
		"slices.overlaps": func(in *Interp, c *frame, fn *ssa.Function, a []Value) Value {
			x, _ := a[0].(Slice)
			y, _ := a[1].(Slice)
			if len(x) == 0 || len(y) == 0 {
				return mkBool(false)
			}
			x0, x1 := uintptr(unsafe.Pointer(&x[0])), uintptr(unsafe.Pointer(&x[len(x)-1]))
			y0, y1 := uintptr(unsafe.Pointer(&y[0])), uintptr(unsafe.Pointer(&y[len(y)-1]))
			return mkBool(x0 <= y1 && y0 <= x1)
		},

		// ---- internal/bytealg (assembly) ----
		"internal/bytealg.IndexByte":           ixIndexByte,
		"internal/bytealg.IndexByteString":     ixIndexByte,
		"internal/bytealg.CountString":         ixCount,
		"internal/bytealg.Count":               ixCount,
		"internal/bytealg.Equal":               ixBytesEqual,
		"internal/bytealg.Compare":             ixBytesCompare,
		"internal/bytealg.CompareString":       ixBytesCompare,
		"internal/bytealg.Index":               ixIndex,
		"internal/bytealg.IndexString":         ixIndex,
		"internal/bytealg.MakeNoZero":          ixMakeNoZero,
		"internal/bytealg.LastIndexByte":       ixLastIndexByte,
		"internal/bytealg.LastIndexByteString": ixLastIndexByte,
		"bytes.Equal":                          ixBytesEqual,
		"bytes.Compare":                        ixBytesCompare,
		"strings.Compare":                      ixBytesCompare,

		// ---- strings.Builder ----
		"(*strings.Builder).String":      ixBuilderString,
		"(*strings.Builder).Len":         ixBuilderLen,
		"(*strings.Builder).Cap":         ixBuilderLen,
		"(*strings.Builder).Reset":       ixBuilderReset,
		"(*strings.Builder).Grow":        ixNop,
		"(*strings.Builder).Write":       ixBuilderWrite,
		"(*strings.Builder).WriteByte":   ixBuilderWriteByte,
		"(*strings.Builder).WriteRune":   ixBuilderWriteRune,
		"(*strings.Builder).WriteString": ixBuilderWrite,
		"(*strings.Builder).copyCheck":   ixNop,

		// ---- fmt / errors ----
		"fmt.Sprintf":  ixSprintf,
		"fmt.Sprint":   ixSprint,
		"fmt.Sprintln": ixSprint,
		"fmt.Errorf":   ixErrorf,
		"fmt.Fprintf":  ixFprintf,
		"fmt.Fprint":   ixFprintf,
		"fmt.Fprintln": ixFprintf,
		"fmt.Printf":   ixNop,
		"fmt.Println":  ixNop,
		"fmt.Print":    ixNop,
		"errors.Is":    ixErrorsIs,
		"errors.As":    ixErrorsAs,
		"github.com/AdguardTeam/golibs/errors.Is": ixErrorsIs,
		"github.com/AdguardTeam/golibs/errors.As": ixErrorsAs,

		// ---- math bit casts (concrete floats only) ----
		"math.Float64bits": func(in *Interp, c *frame, fn *ssa.Function, a []Value) Value {
			return mkConst(math.Float64bits(a[0].(float64)), 64)
		},
		"math.Float64frombits": func(in *Interp, c *frame, fn *ssa.Function, a []Value) Value {
			t := a[0].(*Term)
			if !t.IsConst() {
				panic(unsupported{"math.Float64frombits of a symbolic value"})
			}
			return math.Float64frombits(t.val)
		},
		"math.Float32bits": func(in *Interp, c *frame, fn *ssa.Function, a []Value) Value {
			return mkConst(uint64(math.Float32bits(float32(a[0].(float64)))), 32)
		},
		"math.Float32frombits": func(in *Interp, c *frame, fn *ssa.Function, a []Value) Value {
			t := a[0].(*Term)
			if !t.IsConst() {
				panic(unsupported{"math.Float32frombits of a symbolic value"})
			}
			return float64(math.Float32frombits(uint32(t.val)))
		},
		// the local time zone is UTC (no $TZ, no zone files in the model)
		"time.initLocal": ixNop,

		// ---- strconv fast paths (concrete) ----
		"strconv.Itoa": ixItoa,

		// ---- unique ----
		"unique.Make": ixUniqueMake,
		"unique.Handle.Value": func(in *Interp, c *frame, fn *ssa.Function, a []Value) Value {
			h := a[0].(Struct)
			return in.loadPtr(c, h[0])
		},
	}
	for _, k := range []string{"Int32", "Int64", "Uint32", "Uint64", "Uintptr", "Pointer"} {
		intrinsics["sync/atomic.Load"+k] = ixAtomicLoad
		intrinsics["sync/atomic.Store"+k] = ixAtomicStore
		intrinsics["sync/atomic.Swap"+k] = ixAtomicSwap
		intrinsics["sync/atomic.CompareAndSwap"+k] = ixAtomicCAS
		intrinsics["internal/runtime/atomic.Load"+k] = ixAtomicLoad
		if k != "Pointer" {
			intrinsics["sync/atomic.Add"+k] = ixAtomicAdd
			intrinsics["sync/atomic.And"+k] = ixAtomicAndOr
			intrinsics["sync/atomic.Or"+k] = ixAtomicAndOr
		}
	}
	intrinsics["(*sync/atomic.Value).Load"] = ixAtomicValueLoad
	intrinsics["(*sync/atomic.Value).Store"] = ixAtomicValueStore
	intrinsics["(*sync/atomic.Value).Swap"] = ixAtomicValueSwap
	intrinsics["(*sync/atomic.Value).CompareAndSwap"] = func(in *Interp, c *frame, fn *ssa.Function, a []Value) Value {
		panic(unsupported{"atomic.Value.CompareAndSwap"})
	}
	registerVX()
}

// prefixIntrinsic handles whole families (logging).
func prefixIntrinsic(name string) intrinsicFn {
	switch {
	case strings.HasPrefix(name, "(*log/slog.Logger)."):
		if strings.HasSuffix(name, ".With") || strings.HasSuffix(name, ".WithGroup") {
			return func(in *Interp, c *frame, fn *ssa.Function, a []Value) Value { return a[0] }
		}
		if strings.HasSuffix(name, ".Enabled") {
			return func(in *Interp, c *frame, fn *ssa.Function, a []Value) Value { return falseT }
		}
		if strings.HasSuffix(name, ".Handler") {
			return nil
		}
		return ixNop
	case strings.HasPrefix(name, "log/slog.") && isLogLevelFunc(name[len("log/slog."):]):
		return ixNop
	case strings.HasPrefix(name, "github.com/AdguardTeam/golibs/log."):
		rest := name[len("github.com/AdguardTeam/golibs/log."):]
		switch rest {
		case "Debug", "Info", "Error", "Printf", "Println", "Print", "Tracef", "Fatal", "Fatalf", "Panic", "Panicf", "OnPanic", "OnPanicAndExit", "OnCloserError":
			if strings.HasPrefix(rest, "Fatal") || strings.HasPrefix(rest, "Panic") {
				return func(in *Interp, c *frame, fn *ssa.Function, a []Value) Value {
					panic(&goPanic{v: in.mkRuntimeError("log." + rest + " called"), where: in.where()})
				}
			}
			return ixNop
		}
	case strings.HasPrefix(name, "log.Print") || name == "log.Printf" || name == "log.Println":
		return ixNop
	case strings.HasPrefix(name, "github.com/AdguardTeam/golibs/logutil/slogutil.") && !strings.Contains(name, "New"):
		rest := name[len("github.com/AdguardTeam/golibs/logutil/slogutil."):]
		switch rest {
		case "RecoverAndLog", "PrintStack", "CloseAndLog", "PrintRecovered":
			if rest == "RecoverAndLog" {
				return nil
			}
			return ixNop
		}
	}
	return nil
}

func isLogLevelFunc(s string) bool {
	switch s {
	case "Debug", "Info", "Warn", "Error", "DebugContext", "InfoContext", "WarnContext", "ErrorContext", "Log", "LogAttrs":
		return true
	}
	return false
}

func ixNop(in *Interp, c *frame, fn *ssa.Function, a []Value) Value {
	res := fn.Signature.Results()
	switch res.Len() {
	case 0:
		return nil
	}
	return zero(res)
}

// ---- sync ----

func (in *Interp) mu(p Value) *mutexState {
	k := p.(*Value)
	if k == nil {
		in.throw("invalid memory address or nil pointer dereference (nil mutex)")
	}
	st := in.mutexes[k]
	if st == nil {
		st = &mutexState{}
		in.mutexes[k] = st
	}
	return st
}

func ixLock(in *Interp, c *frame, fn *ssa.Function, a []Value) Value {
	st := in.mu(a[0])
	if st.writer || st.readers > 0 {
		in.p.PathViolation("self-deadlock: Lock of a mutex already held by this thread at " + in.where())
	}
	st.writer = true
	return nil
}

func ixTryLock(in *Interp, c *frame, fn *ssa.Function, a []Value) Value {
	st := in.mu(a[0])
	if st.writer || st.readers > 0 {
		return falseT
	}
	st.writer = true
	return trueT
}

func ixUnlock(in *Interp, c *frame, fn *ssa.Function, a []Value) Value {
	st := in.mu(a[0])
	if !st.writer {
		in.p.PathViolation("fatal error: sync: unlock of unlocked mutex at " + in.where())
	}
	st.writer = false
	return nil
}

func ixRLock(in *Interp, c *frame, fn *ssa.Function, a []Value) Value {
	st := in.mu(a[0])
	if st.writer {
		in.p.PathViolation("self-deadlock: RLock of a mutex write-locked by this thread at " + in.where())
	}
	st.readers++
	return nil
}

func ixRUnlock(in *Interp, c *frame, fn *ssa.Function, a []Value) Value {
	st := in.mu(a[0])
	if st.readers <= 0 {
		in.p.PathViolation("fatal error: sync: RUnlock of unlocked RWMutex at " + in.where())
	}
	st.readers--
	return nil
}

func ixOnceDo(in *Interp, c *frame, fn *ssa.Function, a []Value) Value {
	k := a[0].(*Value)
	if !in.onceDone[k] {
		in.onceDone[k] = true
		in.call(c, a[1], nil)
	}
	return nil
}

func ixPoolGet(in *Interp, c *frame, fn *ssa.Function, a []Value) Value {
	p := a[0].(*Value)
	st := (*p).(Struct)
	newFn := st[len(st)-1]
	if isNilFunc(newFn) {
		return Iface{}
	}
	return in.call(c, newFn, nil)
}

// ---- atomics ----

func ixAtomicLoad(in *Interp, c *frame, fn *ssa.Function, a []Value) Value {
	return in.loadPtr(c, a[0])
}

func ixAtomicStore(in *Interp, c *frame, fn *ssa.Function, a []Value) Value {
	in.storePtr(a[0], a[1])
	return nil
}

func ixAtomicSwap(in *Interp, c *frame, fn *ssa.Function, a []Value) Value {
	old := in.loadPtr(c, a[0])
	in.storePtr(a[0], a[1])
	return old
}

func ixAtomicCAS(in *Interp, c *frame, fn *ssa.Function, a []Value) Value {
	cur := in.loadPtr(c, a[0])
	eq := in.equals(cur, a[1])
	if in.p.Branch(eq) {
		in.storePtr(a[0], a[2])
		return trueT
	}
	return falseT
}

func ixAtomicAdd(in *Interp, c *frame, fn *ssa.Function, a []Value) Value {
	cur := in.loadPtr(c, a[0]).(*Term)
	n := in.f.Bin(OpAdd, cur, a[1].(*Term))
	in.storePtr(a[0], n)
	return n
}

func ixAtomicAndOr(in *Interp, c *frame, fn *ssa.Function, a []Value) Value {
	cur := in.loadPtr(c, a[0]).(*Term)
	op := OpAnd
	if strings.Contains(fn.Name(), "Or") {
		op = OpOr
	}
	in.storePtr(a[0], in.f.Bin(op, cur, a[1].(*Term)))
	return cur
}

// atomic.Value keeps its content in field 0 (declared `v any`).
func ixAtomicValueLoad(in *Interp, c *frame, fn *ssa.Function, a []Value) Value {
	p := a[0].(*Value)
	return (*p).(Struct)[0]
}

func ixAtomicValueStore(in *Interp, c *frame, fn *ssa.Function, a []Value) Value {
	p := a[0].(*Value)
	v := a[1].(Iface)
	if v.t == nil {
		in.throw("sync/atomic: store of nil value into Value")
	}
	(*p).(Struct)[0] = v
	return nil
}

func ixAtomicValueSwap(in *Interp, c *frame, fn *ssa.Function, a []Value) Value {
	p := a[0].(*Value)
	old := (*p).(Struct)[0]
	(*p).(Struct)[0] = a[1]
	return old
}

// ---- bytealg ----

func bytesOf(v Value) []*Term {
	switch x := v.(type) {
	case string, *SymStr:
		return strBytes(x)
	case Slice:
		r := make([]*Term, len(x))
		for i, e := range x {
			r[i] = e.(*Term)
		}
		return r
	}
	panic(fmt.Sprintf("bytesOf %T", v))
}

func ixIndexByte(in *Interp, c *frame, fn *ssa.Function, a []Value) Value {
	b := bytesOf(a[0])
	ch := a[1].(*Term)
	for i, x := range b {
		if in.p.Branch(in.f.Eq(x, ch)) {
			return mkConst(uint64(i), 64)
		}
	}
	return mkConst(^uint64(0), 64)
}

func ixLastIndexByte(in *Interp, c *frame, fn *ssa.Function, a []Value) Value {
	b := bytesOf(a[0])
	ch := a[1].(*Term)
	for i := len(b) - 1; i >= 0; i-- {
		if in.p.Branch(in.f.Eq(b[i], ch)) {
			return mkConst(uint64(i), 64)
		}
	}
	return mkConst(^uint64(0), 64)
}

func ixCount(in *Interp, c *frame, fn *ssa.Function, a []Value) Value {
	b := bytesOf(a[0])
	ch := a[1].(*Term)
	n := mkConst(0, 64)
	for _, x := range b {
		n = in.f.Bin(OpAdd, n, in.f.BoolToBV(in.f.Eq(x, ch), 64))
	}
	return n
}

func ixBytesEqual(in *Interp, c *frame, fn *ssa.Function, a []Value) Value {
	x, y := bytesOf(a[0]), bytesOf(a[1])
	if len(x) != len(y) {
		return falseT
	}
	res := trueT
	for i := range x {
		res = in.f.And(res, in.f.Eq(x[i], y[i]))
	}
	return res
}

func ixBytesCompare(in *Interp, c *frame, fn *ssa.Function, a []Value) Value {
	x, y := mkStr(bytesOf(a[0])), mkStr(bytesOf(a[1]))
	lt := in.strLess(x, y)
	gt := in.strLess(y, x)
	return in.f.Ite(lt, mkConst(^uint64(0), 64), in.f.Ite(gt, mkConst(1, 64), mkConst(0, 64)))
}

func ixIndex(in *Interp, c *frame, fn *ssa.Function, a []Value) Value {
	h, n := bytesOf(a[0]), bytesOf(a[1])
	for i := 0; i+len(n) <= len(h); i++ {
		eq := trueT
		for j := range n {
			eq = in.f.And(eq, in.f.Eq(h[i+j], n[j]))
		}
		if in.p.Branch(eq) {
			return mkConst(uint64(i), 64)
		}
	}
	return mkConst(^uint64(0), 64)
}

func ixMakeNoZero(in *Interp, c *frame, fn *ssa.Function, a []Value) Value {
	n := in.concInt(a[0])
	s := make(Slice, n)
	for i := range s {
		s[i] = mkConst(0, 8)
	}
	return s
}

func ixBytesClone(in *Interp, c *frame, fn *ssa.Function, a []Value) Value {
	s := a[0].(Slice)
	if s == nil {
		return Slice(nil)
	}
	r := make(Slice, len(s))
	copy(r, s)
	return r
}

// ---- strings.Builder: struct{addr *Builder; buf []byte} ----

func builderBuf(in *Interp, p Value) *Value {
	pp := p.(*Value)
	if pp == nil {
		in.throw("nil *strings.Builder")
	}
	st := (*pp).(Struct)
	return &st[len(st)-1]
}

func ixBuilderString(in *Interp, c *frame, fn *ssa.Function, a []Value) Value {
	b := builderBuf(in, a[0])
	s, _ := (*b).(Slice)
	return mkStr(bytesOf(s))
}

func ixBuilderLen(in *Interp, c *frame, fn *ssa.Function, a []Value) Value {
	b := builderBuf(in, a[0])
	s, _ := (*b).(Slice)
	return mkConst(uint64(len(s)), 64)
}

func ixBuilderReset(in *Interp, c *frame, fn *ssa.Function, a []Value) Value {
	b := builderBuf(in, a[0])
	*b = Slice(nil)
	return nil
}

func ixBuilderWrite(in *Interp, c *frame, fn *ssa.Function, a []Value) Value {
	b := builderBuf(in, a[0])
	s, _ := (*b).(Slice)
	add := bytesOf(a[1])
	for _, t := range add {
		s = append(s, t)
	}
	*b = s
	return Tuple{mkConst(uint64(len(add)), 64), Iface{}}
}

func ixBuilderWriteByte(in *Interp, c *frame, fn *ssa.Function, a []Value) Value {
	b := builderBuf(in, a[0])
	s, _ := (*b).(Slice)
	*b = append(s, a[1])
	return Iface{}
}

func ixBuilderWriteRune(in *Interp, c *frame, fn *ssa.Function, a []Value) Value {
	b := builderBuf(in, a[0])
	s, _ := (*b).(Slice)
	r := a[1].(*Term)
	if !r.IsConst() {
		if in.p.Branch(in.f.Cmp(OpUlt, r, mkConst(0x80, 32))) {
			*b = append(s, in.f.Extract(r, 7, 0))
			return Tuple{mkConst(1, 64), Iface{}}
		}
		k := in.p.Concretize(r)
		r = mkConst(k, 32)
	}
	enc := string(rune(sext(r.val, 32)))
	for i := 0; i < len(enc); i++ {
		s = append(s, mkConst(uint64(enc[i]), 8))
	}
	*b = s
	return Tuple{mkConst(uint64(len(enc)), 64), Iface{}}
}

// ---- fmt ----

// formatArgs renders a format string with arguments.  Symbolic string
// arguments are spliced byte-exactly; other symbolic scalars render as "?"
// and set *lossy.
func (in *Interp) formatArgs(c *frame, format string, args Slice, lossy *bool) []*Term {
	var out []*Term
	emit := func(s string) {
		for i := 0; i < len(s); i++ {
			out = append(out, mkConst(uint64(s[i]), 8))
		}
	}
	ai := 0
	for i := 0; i < len(format); i++ {
		ch := format[i]
		if ch != '%' {
			out = append(out, mkConst(uint64(ch), 8))
			continue
		}
		j := i + 1
		for j < len(format) && strings.IndexByte("+-# 0123456789.*[]", format[j]) >= 0 {
			j++
		}
		if j >= len(format) {
			emit("%!(NOVERB)")
			break
		}
		verb := format[j]
		flags := format[i+1 : j]
		i = j
		if verb == '%' {
			emit("%")
			continue
		}
		if ai >= len(args) {
			emit("%!" + string(verb) + "(MISSING)")
			continue
		}
		arg := args[ai]
		ai++
		out = append(out, in.formatOne(c, verb, flags, arg, lossy)...)
	}
	return out
}

func (in *Interp) formatOne(c *frame, verb byte, flags string, arg Value, lossy *bool) []*Term {
	str := func(s string) []*Term { return strBytes(s) }
	ifc, ok := arg.(Iface)
	if !ok {
		ifc = Iface{t: nil, v: arg}
	}
	if ifc.t == nil && ok {
		return str("<nil>")
	}
	if ifc.t == lazyType || ifc.t == lazyOtherType {
		*lossy = true
		return str("?")
	}
	// error / Stringer
	if ifc.t != nil && (verb == 'v' || verb == 's' || verb == 'q' || verb == 'w') {
		for _, mname := range []string{"Error", "String"} {
			if m := in.findMethod(ifc.t, mname); m != nil && m.Signature.Params().Len() == 0 && m.Signature.Results().Len() == 1 {
				if b, isB := m.Signature.Results().At(0).Type().Underlying().(*types.Basic); isB && b.Kind() == types.String {
					if p, isPtr := ifc.v.(*Value); isPtr && p == nil {
						return str("<nil>")
					}
					if mname == "String" && !isConcrete(ifc.v) {
						// do not interpret a Stringer over symbolic data (digit
						// loops fork per value); formatting is not the subject
						*lossy = true
						return str("?")
					}
					var res Value
					func() {
						defer func() {
							if r := recover(); r != nil {
								if _, isUns := r.(unsupported); isUns {
									res = "?"
									*lossy = true
									in.cur = c
									return
								}
								panic(r)
							}
						}()
						res = in.callSSA(c, m, []Value{ifc.v}, nil)
					}()
					in.cur = c
					b := strBytes(res)
					if verb == 'q' {
						b = append(append(str("\""), b...), str("\"")...)
					}
					return b
				}
			}
		}
	}
	switch v := ifc.v.(type) {
	case string:
		if verb == 'q' {
			return str(strconv.Quote(v))
		}
		if verb == 'x' {
			return str(fmt.Sprintf("%x", v))
		}
		return str(v)
	case *SymStr:
		if verb == 'q' {
			return append(append(str("\""), v.b...), str("\"")...)
		}
		return v.b
	case *Term:
		if !v.IsConst() {
			*lossy = true
			return str("?")
		}
		if v.w == 0 {
			return str(strconv.FormatBool(v.val != 0))
		}
		signed := true
		if b := basicOf(ifc.t); b != nil {
			signed = isSigned(b)
		}
		f := "%" + flags + string(verb)
		switch verb {
		case 'd', 'v', 'x', 'X', 'o', 'b', 'c', 'q', 'U':
			if verb == 'v' {
				f = "%" + flags + "d"
			}
			if signed {
				return str(fmt.Sprintf(f, sext(v.val, v.w)))
			}
			return str(fmt.Sprintf(f, v.val))
		case 's':
			return str(fmt.Sprintf("%%!s(int=%d)", sext(v.val, v.w)))
		}
		return str(fmt.Sprint(v.val))
	case float64:
		return str(fmt.Sprintf("%"+flags+string(verb), v))
	case Slice:
		if verb == 's' || verb == 'q' || verb == 'x' {
			if len(v) == 0 {
				return nil
			}
			if _, isT := v[0].(*Term); isT {
				if tb, isSl := ifc.t.Underlying().(*types.Slice); isSl {
					if eb, isB := tb.Elem().Underlying().(*types.Basic); isB && eb.Kind() == types.Uint8 {
						if verb == 's' {
							return bytesOf(v)
						}
					}
				}
			}
		}
		var out []*Term
		out = append(out, str("[")...)
		for i, e := range v {
			if i > 0 {
				out = append(out, str(" ")...)
			}
			et := types.Type(nil)
			if tb, isSl := ifc.t.Underlying().(*types.Slice); isSl {
				et = tb.Elem()
			}
			ev := e
			if _, isI := e.(Iface); !isI {
				ev = Iface{t: et, v: e}
			}
			out = append(out, in.formatOne(c, verb, flags, ev, lossy)...)
		}
		return append(out, str("]")...)
	case *Value:
		if v == nil {
			return str("<nil>")
		}
		return str("0xc000000000")
	}
	*lossy = true
	return str("?")
}

func (in *Interp) findMethod(t types.Type, name string) *ssa.Function {
	ms := in.prog.MethodSets.MethodSet(t)
	for i := 0; i < ms.Len(); i++ {
		sel := ms.At(i)
		if sel.Obj().Name() == name {
			return in.prog.MethodValue(sel)
		}
	}
	return nil
}

func ixSprintf(in *Interp, c *frame, fn *ssa.Function, a []Value) Value {
	format, ok := a[0].(string)
	if !ok {
		panic(unsupported{"fmt.Sprintf with symbolic format"})
	}
	lossy := false
	args, _ := a[1].(Slice)
	b := in.formatArgs(c, format, args, &lossy)
	if lossy {
		in.p.notes = append(in.p.notes, "fmt.Sprintf rendered a symbolic scalar as '?' at "+in.where())
		if in.cfg.StrictFmt {
			panic(unsupported{"fmt.Sprintf of symbolic scalar at " + in.where()})
		}
	}
	return mkStr(b)
}

func ixSprint(in *Interp, c *frame, fn *ssa.Function, a []Value) Value {
	args, _ := a[0].(Slice)
	lossy := false
	var out []*Term
	for i, arg := range args {
		if i > 0 && fn.Name() == "Sprintln" {
			out = append(out, mkConst(' ', 8))
		}
		out = append(out, in.formatOne(c, 'v', "", arg, &lossy)...)
	}
	if fn.Name() == "Sprintln" {
		out = append(out, mkConst('\n', 8))
	}
	if lossy && in.cfg.StrictFmt {
		panic(unsupported{"fmt.Sprint of symbolic scalar at " + in.where()})
	}
	return mkStr(out)
}

func ixFprintf(in *Interp, c *frame, fn *ssa.Function, a []Value) Value {
	// rendered and handed to the writer's Write method
	w := a[0].(Iface)
	lossy := false
	var b []*Term
	if fn.Name() == "Fprintf" {
		format, ok := a[1].(string)
		if !ok {
			panic(unsupported{"fmt.Fprintf with symbolic format"})
		}
		args, _ := a[2].(Slice)
		b = in.formatArgs(c, format, args, &lossy)
	} else {
		args, _ := a[1].(Slice)
		for i, arg := range args {
			if i > 0 && fn.Name() == "Fprintln" {
				b = append(b, mkConst(' ', 8))
			}
			b = append(b, in.formatOne(c, 'v', "", arg, &lossy)...)
		}
		if fn.Name() == "Fprintln" {
			b = append(b, mkConst('\n', 8))
		}
	}
	if w.t == nil {
		in.throw("nil io.Writer")
	}
	m := in.findMethod(w.t, "Write")
	buf := make(Slice, len(b))
	for i, t := range b {
		buf[i] = t
	}
	res := in.callSSA(c, m, []Value{w.v, buf}, nil)
	in.cur = c
	return res
}

func (in *Interp) newErrorString(msg Value) Value {
	var cell Value = Struct{msg}
	return Iface{t: in.cfg.errorStringPtr, v: &cell}
}

func ixErrorf(in *Interp, c *frame, fn *ssa.Function, a []Value) Value {
	format, ok := a[0].(string)
	if !ok {
		panic(unsupported{"fmt.Errorf with symbolic format"})
	}
	args, _ := a[1].(Slice)
	lossy := false
	msg := mkStr(in.formatArgs(c, format, args, &lossy))
	// find %w operands
	var wrapped []Value
	ai := 0
	for i := 0; i < len(format); i++ {
		if format[i] != '%' {
			continue
		}
		j := i + 1
		for j < len(format) && strings.IndexByte("+-# 0123456789.*[]", format[j]) >= 0 {
			j++
		}
		if j >= len(format) {
			break
		}
		if format[j] == '%' {
			i = j
			continue
		}
		if format[j] == 'w' && ai < len(args) {
			if e, isI := args[ai].(Iface); isI && e.t != nil {
				wrapped = append(wrapped, e)
			}
		}
		ai++
		i = j
	}
	switch len(wrapped) {
	case 0:
		return in.newErrorString(msg)
	case 1:
		if in.cfg.wrapErrorPtr == nil {
			panic(unsupported{"fmt.wrapError type not loaded"})
		}
		var cell Value = Struct{msg, wrapped[0]}
		return Iface{t: in.cfg.wrapErrorPtr, v: &cell}
	default:
		if in.cfg.wrapErrorsPtr == nil {
			panic(unsupported{"fmt.wrapErrors type not loaded"})
		}
		var cell Value = Struct{msg, Slice(wrapped)}
		return Iface{t: in.cfg.wrapErrorsPtr, v: &cell}
	}
}

// errors.Is without reflectlite.
func ixErrorsIs(in *Interp, c *frame, fn *ssa.Function, a []Value) Value {
	err := a[0].(Iface)
	target := a[1].(Iface)
	if err.t == nil || target.t == nil {
		return mkBool(err.t == nil && target.t == nil)
	}
	return mkBool(in.errorsIs(c, err, target, 0))
}

func (in *Interp) errorsIs(c *frame, err, target Iface, depth int) bool {
	if depth > 50 {
		panic(unsupported{"errors.Is: chain too deep"})
	}
	for {
		if types.Comparable(target.t) && types.Identical(err.t, target.t) {
			eq := in.equals(err.v, target.v)
			if in.p.Branch(eq) {
				return true
			}
		}
		if m := in.findMethod(err.t, "Is"); m != nil && m.Signature.Params().Len() == 1 {
			r := in.callSSA(c, m, []Value{err.v, target}, nil)
			in.cur = c
			if in.p.Branch(r.(*Term)) {
				return true
			}
		}
		m := in.findMethod(err.t, "Unwrap")
		if m == nil {
			return false
		}
		r := in.callSSA(c, m, []Value{err.v}, nil)
		in.cur = c
		switch r := r.(type) {
		case Iface:
			if r.t == nil {
				return false
			}
			err = r
		case Slice:
			for _, e := range r {
				ei := e.(Iface)
				if ei.t == nil {
					continue
				}
				if in.errorsIs(c, ei, target, depth+1) {
					return true
				}
			}
			return false
		default:
			return false
		}
	}
}

// errors.As without reflect: target is *T (T interface or concrete).
func ixErrorsAs(in *Interp, c *frame, fn *ssa.Function, a []Value) Value {
	err := a[0].(Iface)
	target := a[1].(Iface)
	if target.t == nil {
		in.throw("errors: target cannot be nil")
	}
	pt, ok := target.t.Underlying().(*types.Pointer)
	if !ok {
		in.throw("errors: target must be a non-nil pointer")
	}
	tt := pt.Elem()
	cell := target.v.(*Value)
	return mkBool(in.errorsAs(c, err, tt, cell, 0))
}

func (in *Interp) errorsAs(c *frame, err Iface, tt types.Type, cell *Value, depth int) bool {
	if depth > 50 {
		panic(unsupported{"errors.As: chain too deep"})
	}
	for err.t != nil {
		if it, isI := tt.Underlying().(*types.Interface); isI {
			if meth, _ := types.MissingMethod(err.t, it, true); meth == nil {
				*cell = err
				return true
			}
		} else if types.Identical(err.t, tt) {
			*cell = copyVal(err.v)
			return true
		}
		if m := in.findMethod(err.t, "As"); m != nil && m.Signature.Params().Len() == 1 {
			r := in.callSSA(c, m, []Value{err.v, Iface{t: types.NewPointer(tt), v: cell}}, nil)
			in.cur = c
			if in.p.Branch(r.(*Term)) {
				return true
			}
		}
		m := in.findMethod(err.t, "Unwrap")
		if m == nil {
			return false
		}
		r := in.callSSA(c, m, []Value{err.v}, nil)
		in.cur = c
		switch r := r.(type) {
		case Iface:
			err = r
		case Slice:
			for _, e := range r {
				ei := e.(Iface)
				if ei.t != nil && in.errorsAs(c, ei, tt, cell, depth+1) {
					return true
				}
			}
			return false
		default:
			return false
		}
	}
	return false
}

func ixItoa(in *Interp, c *frame, fn *ssa.Function, a []Value) Value {
	t := a[0].(*Term)
	if !t.IsConst() {
		k := in.p.Concretize(t)
		return strconv.Itoa(int(int64(k)))
	}
	return strconv.Itoa(int(int64(t.val)))
}

// unique.Make[T]: canonical pointer per (type, concrete value).
func ixUniqueMake(in *Interp, c *frame, fn *ssa.Function, a []Value) Value {
	v := a[0]
	if !isConcrete(v) {
		panic(unsupported{"unique.Make of symbolic value"})
	}
	key := fn.Signature.Params().At(0).Type().String() + "|" + hashKey(v)
	p, ok := in.uniq[key]
	if !ok {
		p = new(Value)
		*p = copyVal(v)
		in.uniq[key] = p
	}
	return Struct{p}
}
