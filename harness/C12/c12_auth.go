//go:build verif

package home

// C12 — login throttling stops guessing; sessions valid only until expiry or
// logout.
//
//vx:overlay internal/home/zz_vx_c12.go
//vx:entry vxC12Throttle reach=blocked,blocked-right-password,failed,success,reset-by-success,block-elapsed,window-expired,second-address
//vx:entry vxC12Sessions reach=login,accepted,rejected-expired,rejected-logged-out,rejected-unknown,restart,refreshed
//vx:entry vxC12LogoutRace reach=interleaved,race-probed
//vx:entry vxC12Record reach=roundtrip,garbled-accepted,garbled-rejected
//vx:stub time.runtimeNow vxC12now
//vx:stub time.runtimeNano vxC12RuntimeNano
//vx:stub time.initLocal vxC12InitLocal
//vx:stub (*encoding/json.Decoder).Decode vxC12Decode
//vx:stub golang.org/x/crypto/bcrypt.CompareHashAndPassword vxC12Compare
//vx:stub crypto/rand.Read vxC12Rand
//vx:stub net/http.SetCookie vxC12SetCookie
//vx:stub (time.Duration).Seconds vxC12Seconds
//vx:stub go.etcd.io/bbolt.Open vxC12Open
//vx:stub (*go.etcd.io/bbolt.DB).Close vxC12Close
//vx:stub (*go.etcd.io/bbolt.DB).Begin vxC12Begin
//vx:stub (*go.etcd.io/bbolt.Tx).Rollback vxC12Rollback
//vx:stub (*go.etcd.io/bbolt.Tx).Commit vxC12Commit
//vx:stub (*go.etcd.io/bbolt.Tx).Bucket vxC12TxBucket
//vx:stub (*go.etcd.io/bbolt.Tx).CreateBucketIfNotExists vxC12CreateBucket
//vx:stub (*go.etcd.io/bbolt.Tx).DeleteBucket vxC12DeleteBucket
//vx:stub (*go.etcd.io/bbolt.Bucket).Put vxC12Put
//vx:stub (*go.etcd.io/bbolt.Bucket).Delete vxC12Delete
//vx:stub (*go.etcd.io/bbolt.Bucket).ForEach vxC12ForEach
//vx:note Throttle entry: real handleLogin -> authRateLimiter -> newCookie on 4 (quick) / 5 (thorough) login attempts; per attempt a symbolic password verdict and a symbolic monotonic instant (non-decreasing, nanosecond resolution, < 95 years), arbitrary wall-clock reading; attempt limit symbolic over all of uint >= 1; block duration 15 min (quick) / {1, 15} min (thorough) - concrete because a symbolic Duration stalls the solver in time.Add (d/1e9); two peer addresses (IPv4, IPv6), every attempt from a different port and with a different spoofed X-Real-IP inside trusted_proxies; at most one attempt comes from the second address (any position but the first)
//vx:note Throttle reference (written from the statement): per address a run of failures that starts with the first failure and is forgotten one minute later or on success; the run reaching the limit starts a block of the configured length; blocked <=> 429, no password evaluation, no session.  Open corners, not asserted: the state after a failed attempt exactly one minute after the first failure or exactly at the end of the block
//vx:note Sessions entry: real handleLogin / optionalAuth(checkSession) / handleLogout / InitAuth(loadSessions) over login followed by 2 (quick) / 3 (thorough) steps from {request, logout, restart; thorough: second login} and a final request per token plus a never-issued token; instants symbolic seconds, non-decreasing, in a window of 8 days (quick) / 70 days (thorough) starting 2023-11-14T22:13:20Z+30000s; TTL symbolic 0..3 days (quick) / 0..31 days (thorough)
//vx:note Sessions reference: refused if never issued, logged out, refused before, or now >= (login or last authenticated use) + TTL; served if now < login + TTL or now < last use + TTL - 86399 s; in between (the "once a day" refresh granularity) either answer is accepted
//vx:note LogoutRace entry: one request with the same token runs to completion at the end of a database operation of the logout handler if the Auth lock is free there (cooperative interleaving at I/O points only); then request, restart, request must all be refused
//vx:note outside: bcrypt (verdict is an input bit), JSON body decoding, crypto/rand (tokens are 0x11.., 0x22..), bbolt (transactional key-value model: writes visible after Commit only, ForEach over a snapshot, no I/O errors), Retry-After value ((time.Duration).Seconds stubbed to 0), Set-Cookie formatting (http.SetCookie records the cookie), wall clock going backwards for sessions, 32-bit wrap of expire in 2106, preemptive concurrency other than the single overtaking request, gl-inet mode

import (
	"encoding/json"
	"net/http"
	"net/netip"
	"net/url"
	"os"
	"time"

	"github.com/AdguardTeam/AdGuardHome/internal/vx"
	"github.com/AdguardTeam/golibs/errors"
	"github.com/AdguardTeam/golibs/netutil"
	"go.etcd.io/bbolt"
)

// ---- environment: clock, request body, password hash, randomness, cookies ----

// vxC12T is a reading of the clocks: wall seconds and nanoseconds since the
// epoch, and the monotonic clock in nanoseconds since process start.
type vxC12T struct{ s, ns, mono int64 }

var (
	vxC12Clock    vxC12T
	vxC12Body     loginJSON
	vxC12PwOK     bool
	vxC12CmpCalls int
	vxC12Tokens   int
)

// vxC12now replaces the runtime clock behind time.Now (the real time.Now body
// runs, so instants carry a monotonic reading as in production).  The process
// start is monotonic instant 0.
func vxC12now() (sec int64, nsec int32, mono int64) {
	c := vxC12Clock
	return c.s, int32(c.ns), c.mono + 1
}

func vxC12RuntimeNano() int64 { return 1 }

// vxC12InitLocal replaces time.initLocal (reads $TZ and the zone files): the
// local zone is UTC.
func vxC12InitLocal() {}

// vxC12Seconds replaces the float conversion that feeds the Retry-After header
// (symbolic floats are not supported; the header value is outside the claim).
func vxC12Seconds(d time.Duration) float64 { return 0 }

// vxC12Decode replaces the JSON body decoder: the decoded login request is
// whatever the harness chose.
func vxC12Decode(d *json.Decoder, v any) error {
	*(v.(*loginJSON)) = vxC12Body
	return nil
}

// vxC12Compare replaces bcrypt: the verdict is an input bit and every call is
// a "password evaluated" event.
func vxC12Compare(hash, password []byte) error {
	vxC12CmpCalls++
	if vxC12PwOK {
		return nil
	}
	return errors.Error("vx: hash mismatch")
}

// vxC12Rand replaces crypto/rand.Read: the k-th token is 16 bytes 0x11*k.
func vxC12Rand(b []byte) (int, error) {
	vxC12Tokens++
	for i := range b {
		b[i] = byte(0x11 * vxC12Tokens)
	}
	return len(b), nil
}

// vxC12Rec is the response recorder.
type vxC12Rec struct {
	hdr    http.Header
	code   int
	cookie *http.Cookie
}

func (r *vxC12Rec) Header() http.Header { return r.hdr }

func (r *vxC12Rec) Write(b []byte) (int, error) {
	if r.code == 0 {
		r.code = http.StatusOK
	}
	return len(b), nil
}

func (r *vxC12Rec) WriteHeader(c int) {
	if r.code == 0 {
		r.code = c
	}
}

func vxC12SetCookie(w http.ResponseWriter, c *http.Cookie) { w.(*vxC12Rec).cookie = c }

// ---- environment: bbolt as a transactional key-value model ----

type vxC12Bkt struct {
	has        bool
	keys, vals [][]byte
}

func (b vxC12Bkt) clone() (c vxC12Bkt) {
	c.has = b.has
	c.keys = append([][]byte(nil), b.keys...)
	c.vals = append([][]byte(nil), b.vals...)
	return c
}

func (b *vxC12Bkt) find(k []byte) int {
	for i := range b.keys {
		if string(b.keys[i]) == string(k) {
			return i
		}
	}
	return -1
}

var (
	// vxC12Disk is the committed state of the "sessions-2" bucket.
	vxC12Disk vxC12Bkt
	// vxC12Work is the state seen by the open transaction.
	vxC12Work   vxC12Bkt
	vxC12TxOpen bool
	vxC12TheBkt = &bbolt.Bucket{FillPercent: 0.5}
)

const vxC12ErrClosed errors.Error = "vx: tx closed"

func vxC12Open(path string, mode os.FileMode, o *bbolt.Options) (*bbolt.DB, error) {
	return &bbolt.DB{}, nil
}

func vxC12Close(db *bbolt.DB) error { return nil }

// Interleaving points.  The end of a database operation is where the handler
// goroutine can be overtaken by another request: when enabled, one request
// carrying vxC12YieldTok runs to completion at the chosen point, provided it
// could take the Auth lock there (otherwise it would wait for the next point).
var (
	vxC12YieldOn     bool
	vxC12YieldAt     int
	vxC12YieldTok    string
	vxC12YieldServed bool
)

func vxC12Yield() {
	if !vxC12YieldOn || vxC12TxOpen {
		return
	}
	if vx.Held(&globalContext.auth.lock) != 0 {
		return
	}
	if vxC12YieldAt > 0 {
		vxC12YieldAt--
		return
	}
	vxC12YieldOn = false
	vx.Reach("interleaved")
	vxC12YieldServed, _ = vxC12Request(vxC12YieldTok)
}

func vxC12Begin(db *bbolt.DB, writable bool) (*bbolt.Tx, error) {
	if vxC12TxOpen {
		vx.Fail("second write transaction while one is open (bbolt would block forever)")
	}
	vxC12TxOpen = true
	vxC12Work = vxC12Disk.clone()
	return &bbolt.Tx{WriteFlag: 1}, nil
}

// vxC12Rollback also hosts the interleaving point "a database operation of the
// handler has just finished".  (The engine does not redirect the overtaking
// request's own Rollback calls while this stub is active; the real Rollback of
// the model's zero Tx returns ErrTxClosed, which is what it returns after the
// Commit that precedes it on all those paths.)
func vxC12Rollback(tx *bbolt.Tx) error {
	if !vxC12TxOpen {
		vxC12Yield()
		return vxC12ErrClosed
	}
	vxC12TxOpen = false
	vxC12Yield()
	return nil
}

func vxC12Commit(tx *bbolt.Tx) error {
	if !vxC12TxOpen {
		return vxC12ErrClosed
	}
	vxC12TxOpen = false
	vxC12Disk = vxC12Work.clone()
	return nil
}

func vxC12TxBucket(tx *bbolt.Tx, name []byte) *bbolt.Bucket {
	if string(name) == "sessions-2" && vxC12Work.has {
		return vxC12TheBkt
	}
	return nil
}

func vxC12CreateBucket(tx *bbolt.Tx, name []byte) (*bbolt.Bucket, error) {
	if string(name) != "sessions-2" {
		return nil, errors.Error("vx: unexpected bucket")
	}
	vxC12Work.has = true
	return vxC12TheBkt, nil
}

func vxC12DeleteBucket(tx *bbolt.Tx, name []byte) error {
	if string(name) == "sessions-2" {
		vxC12Work = vxC12Bkt{}
	}
	return nil
}

func vxC12Put(b *bbolt.Bucket, key, val []byte) error {
	if len(key) == 0 {
		return errors.Error("vx: key required")
	}
	k := append([]byte(nil), key...)
	v := append([]byte(nil), val...)
	if i := vxC12Work.find(k); i >= 0 {
		vxC12Work.vals[i] = v
		return nil
	}
	vxC12Work.keys = append(vxC12Work.keys, k)
	vxC12Work.vals = append(vxC12Work.vals, v)
	return nil
}

func vxC12Delete(b *bbolt.Bucket, key []byte) error {
	i := vxC12Work.find(key)
	if i < 0 {
		return nil
	}
	n := len(vxC12Work.keys) - 1
	vxC12Work.keys[i], vxC12Work.vals[i] = vxC12Work.keys[n], vxC12Work.vals[n]
	vxC12Work.keys, vxC12Work.vals = vxC12Work.keys[:n], vxC12Work.vals[:n]
	return nil
}

// vxC12ForEach iterates over a snapshot: deleting the current pair inside the
// callback (as loadSessions does) is tolerated.
func vxC12ForEach(b *bbolt.Bucket, fn func(k, v []byte) error) error {
	snap := vxC12Work.clone()
	for i := range snap.keys {
		if err := fn(snap.keys[i], snap.vals[i]); err != nil {
			return err
		}
	}
	return nil
}

// ---- helpers ----

var vxC12Called bool

func vxC12Protected(w http.ResponseWriter, r *http.Request) { vxC12Called = true }

func vxC12NewAuth(ttl uint32, rl *authRateLimiter) *Auth {
	users := []webUser{{Name: "u", PasswordHash: "h"}}
	tp := netutil.SliceSubnetSet{netip.MustParsePrefix("198.51.100.0/24")}
	a := InitAuth("sessions.db", users, ttl, rl, tp)
	globalContext.auth = a
	return a
}

// vxC12Login drives POST /control/login.
func vxC12Login(remoteAddr, realIPHdr, name string, pwOK bool) *vxC12Rec {
	vxC12Body = loginJSON{Name: name, Password: "p"}
	vxC12PwOK = pwOK
	w := &vxC12Rec{hdr: http.Header{}}
	r := &http.Request{
		Method:     http.MethodPost,
		Host:       "agh.example",
		URL:        &url.URL{Path: "/control/login"},
		Header:     http.Header{},
		RemoteAddr: remoteAddr,
	}
	if realIPHdr != "" {
		r.Header.Set("X-Real-IP", realIPHdr)
	}
	handleLogin(w, r)
	return w
}

// vxC12Request sends a request for a protected resource carrying the cookie
// value tok and reports whether the protected handler ran.
func vxC12Request(tok string) (served bool, w *vxC12Rec) {
	w = &vxC12Rec{hdr: http.Header{}}
	r := &http.Request{
		Method:     http.MethodGet,
		Host:       "agh.example",
		URL:        &url.URL{Path: "/control/status"},
		Header:     http.Header{},
		RemoteAddr: "192.0.2.7:4000",
	}
	r.Header.Set("Cookie", sessionCookieName+"="+tok)
	vxC12Called = false
	optionalAuth(vxC12Protected)(w, r)
	return vxC12Called, w
}

func vxC12Logout(tok string) *vxC12Rec {
	w := &vxC12Rec{hdr: http.Header{}}
	r := &http.Request{
		Method:     http.MethodGet,
		Host:       "agh.example",
		URL:        &url.URL{Path: "/control/logout"},
		Header:     http.Header{},
		RemoteAddr: "192.0.2.7:4000",
	}
	r.Header.Set("Cookie", sessionCookieName+"="+tok)
	handleLogout(w, r)
	return w
}

// ---- (a) throttling ----

// vxC12Ref is the reference state of one address: the current run of failed
// logins (n of them, the first at first) or, once the run reached the limit,
// the block that it caused (until).
type vxC12Ref struct {
	n       uint
	first   int64
	blocked bool
	until   int64
}

func vxC12Throttle() {
	k := 4
	if vx.Thorough() {
		k = 5
	}
	maxAttempts := uint(vx.Uint64("maxAttempts"))
	vx.Assume(maxAttempts >= 1)
	// concrete set: a symbolic duration stalls the solver in time.Add (d / 1e9)
	mins := []int64{15}
	if vx.Thorough() {
		mins = []int64{1, 15}
	}
	blockMin := mins[vx.Choice("blockMin", len(mins))]
	blockNs := blockMin * 60_000_000_000

	vxC12Disk, vxC12TxOpen, vxC12CmpCalls, vxC12Tokens = vxC12Bkt{}, false, 0, 0
	vxC12Clock = vxC12T{1_000_000_000, 0, 1}
	rl := newAuthRateLimiter(time.Duration(blockMin)*time.Minute, maxAttempts)
	a := vxC12NewAuth(3600, rl)

	ips := []string{"192.0.2.1", "[2001:db8::1]"}
	ports := []string{":1001", ":1002", ":1003", ":1004", ":1005", ":1006"}
	spoof := []string{"198.51.100.1", "198.51.100.2", "198.51.100.3", "198.51.100.4", "198.51.100.5", "198.51.100.6"}
	var ref [2]vxC12Ref
	prev := int64(1)

	// at most one attempt comes from the second address (any position but the
	// first)
	bpos := vx.Choice("bpos", k)
	for i := 0; i < k; i++ {
		x := 0
		if bpos > 0 && i == bpos {
			x = 1
		}
		if x == 1 {
			vx.Reach("second-address")
		}
		pwOK := vx.Bool("pwOK")
		// monotonic nanoseconds since start, non-decreasing, < 100 years; the
		// wall clock reading is arbitrary (it may jump between attempts)
		t := vx.Int64("t")
		vx.Assume(prev <= t)
		vx.Assume(t <= 3_000_000_000_000_000_000)
		prev = t
		wall := vxC12T{s: vx.Int64("wallsec"), ns: vx.Int64("wallns"), mono: t}
		vx.Assume(0 <= wall.ns)
		vx.Assume(wall.ns < 1_000_000_000)
		vx.Assume(1_000_000_000 <= wall.s)
		vx.Assume(wall.s <= 4_000_000_000)
		vxC12Clock = wall

		// Reference: first forget what has elapsed ...
		st := &ref[x]
		corner := false
		if st.blocked {
			if st.until <= t {
				// "until the block period has elapsed"; whether an attempt
				// exactly at the end still belongs to the old run is open
				corner = st.until == t
				*st = vxC12Ref{}
				vx.Reach("block-elapsed")
			}
		} else if st.n > 0 {
			end := st.first + 60_000_000_000
			if end < t {
				*st = vxC12Ref{}
				vx.Reach("window-expired")
			} else {
				// exactly one minute after the first failure: open
				corner = end == t
			}
		}

		cmp0, nsess0 := vxC12CmpCalls, len(a.sessions)
		w := vxC12Login(ips[x]+ports[i], spoof[i], "u", pwOK)

		// ... then decide.
		switch {
		case st.blocked:
			vx.Reach("blocked")
			if pwOK {
				vx.Reach("blocked-right-password")
			}
			vx.Assert(w.code == http.StatusTooManyRequests, "attempt from a blocked address is rejected with 429 (right password included)")
			vx.Assert(vxC12CmpCalls == cmp0, "password is not evaluated for a blocked address")
			vx.Assert(w.cookie == nil && len(a.sessions) == nsess0, "no session is created for a blocked address")
		case pwOK:
			vx.Reach("success")
			if st.n > 0 {
				vx.Reach("reset-by-success")
			}
			vx.Assert(w.code != http.StatusTooManyRequests, "no lock-out without the configured number of failures")
			vx.Assert(w.code == http.StatusOK && w.cookie != nil, "right password before the limit logs in")
			vx.Assert(vxC12CmpCalls == cmp0+1, "password evaluated once")
			if w.cookie != nil {
				vx.Assert(a.sessions[w.cookie.Value] != nil && len(a.sessions) == nsess0+1, "a session is created for the issued cookie")
			}
			*st = vxC12Ref{}
		default:
			vx.Reach("failed")
			vx.Assert(w.code != http.StatusTooManyRequests, "no lock-out without the configured number of failures")
			vx.Assert(w.code == http.StatusForbidden && w.cookie == nil && len(a.sessions) == nsess0, "wrong password is refused with 403 and creates no session")
			vx.Assert(vxC12CmpCalls == cmp0+1, "password evaluated once")
			if st.n == 0 {
				st.first = t
			}
			st.n++
			if st.n >= maxAttempts {
				st.blocked = true
				st.until = t + blockNs
			}
			if corner {
				// the state after a failure at an open boundary instant is
				// not fixed by the statement
				return
			}
		}
	}
}

// ---- (b) sessions ----

// vxC12Sess is the reference state of one issued token.  The expiry moves
// forward when the token is used ("update expiration time once a day"), so
// after a use it is known only up to one day:
//   - the token must be refused from (last authenticated use or login) + TTL on;
//   - it must be accepted before login + TTL and before (last use) + TTL - 1 day;
//   - once refused it stays refused (the clock does not go back).
type vxC12Sess struct {
	tok       string
	loggedOut bool
	dead      bool
	orig      int64 // login + TTL
	last      int64 // last authenticated use (or login)
}

func vxC12Sessions() {
	k := 2
	if vx.Thorough() {
		k = 3
	}
	// window of instants and TTL range: the day arithmetic of the refresh
	// (x / 86400 on symbolic x) is only tractable for the solver over a few
	// days; the window starts at an arbitrary (not day-aligned) instant
	const t0 = 1_700_000_000 + 30_000
	span, maxTTL := int64(8*86400), uint32(3*86400)
	if vx.Thorough() {
		span, maxTTL = 70*86400, 31*86400
	}
	ttl := vx.Uint32("ttl")
	vx.Assume(ttl <= maxTTL)
	ttl64 := int64(ttl)
	now := vx.Int64("now")
	vx.Assume(t0 <= now)
	ns := vx.Int64("ns")
	vx.Assume(0 <= ns)
	vx.Assume(ns < 1_000_000_000)

	vxC12Disk, vxC12TxOpen, vxC12CmpCalls, vxC12Tokens = vxC12Bkt{}, false, 0, 0
	vxC12Clock = vxC12T{now, ns, 1}
	vxC12NewAuth(ttl, nil)

	var sess []*vxC12Sess
	const bogus = "00000000000000000000000000000000"

	advance := func() {
		t := vx.Int64("now")
		vx.Assume(now <= t)
		vx.Assume(t <= t0+span)
		now = t
		vxC12Clock = vxC12T{now, ns, vxC12Clock.mono + 1}
	}
	login := func() {
		vx.Reach("login")
		w := vxC12Login("192.0.2.7:4000", "", "u", true)
		vx.Assert(w.code == http.StatusOK && w.cookie != nil, "login without rate limiter succeeds")
		if w.cookie == nil {
			return
		}
		sess = append(sess, &vxC12Sess{tok: w.cookie.Value, orig: now + ttl64, last: now})
	}
	pick := func() (tok string, s *vxC12Sess) {
		i := vx.Choice("tok", len(sess))
		return sess[i].tok, sess[i]
	}
	request := func(tok string, s *vxC12Sess, final bool) {
		served, w := vxC12Request(tok)
		if !served {
			vx.Assert(w.code == http.StatusForbidden, "an unauthenticated request is answered 403")
		}
		switch {
		case s == nil:
			vx.Reach("rejected-unknown")
			vx.Assert(!served, "a token that was never issued does not authenticate")
		case s.loggedOut:
			vx.Reach("rejected-logged-out")
			vx.Assert(!served, "a token does not authenticate after logout")
		case s.dead:
			vx.Assert(!served, "a token refused as expired stays refused")
		case served:
			vx.Reach("accepted")
			vx.Assert(now < s.last+ttl64, "a token does not authenticate at or after its expiry")
			if final && now >= s.orig {
				// still valid after the expiry it was created with
				vx.Reach("refreshed")
			}
			s.last = now
		default:
			vx.Reach("rejected-expired")
			vx.Assert(vx.And(now >= s.orig, now >= s.last+ttl64-86399), "a token authenticates between login and expiry/logout")
			s.dead = true
		}
	}
	restart := func() {
		vx.Reach("restart")
		globalContext.auth.Close()
		vxC12NewAuth(ttl, nil)
	}

	advance()
	login()
	for i := 0; i < k; i++ {
		advance()
		// a second login (second token) only in the thorough tier
		nops := 3
		if vx.Thorough() {
			nops = 4
		}
		switch vx.Choice("op", nops) {
		case 0:
			tok, s := pick()
			request(tok, s, false)
		case 1:
			tok, s := pick()
			w := vxC12Logout(tok)
			vx.Assert(w.code == http.StatusFound, "logout redirects to the login page")
			if s != nil {
				s.loggedOut = true
			}
		case 2:
			restart()
		default:
			if len(sess) >= 2 {
				return
			}
			login()
		}
	}
	advance()
	for _, s := range sess {
		request(s.tok, s, true)
		if s.loggedOut {
			vx.Assert(vxC12Disk.find(vxC12TokKey(s.tok)) < 0, "logout removes the session record from the file")
		}
	}
	request(bogus, nil, true)
}

// vxC12LogoutRace: one request with the same token overtakes the logout
// handler at one of its database calls.  Whatever that request saw, after the
// logout has returned the token is dead, also across a restart.
func vxC12LogoutRace() {
	const t0 = 1_700_000_000 + 30_000
	span, maxTTL := int64(8*86400), uint32(3*86400)
	ttl := vx.Uint32("ttl")
	vx.Assume(ttl <= maxTTL)
	now := vx.Int64("now")
	vx.Assume(t0 <= now)
	vx.Assume(now <= t0+span)

	vxC12Disk, vxC12TxOpen, vxC12CmpCalls, vxC12Tokens = vxC12Bkt{}, false, 0, 0
	vxC12Clock = vxC12T{now, 0, 1}
	vxC12NewAuth(ttl, nil)
	w := vxC12Login("192.0.2.7:4000", "", "u", true)
	vx.Assert(w.code == http.StatusOK && w.cookie != nil, "login without rate limiter succeeds")
	if w.cookie == nil {
		return
	}
	tok := w.cookie.Value

	t := vx.Int64("now")
	vx.Assume(now <= t)
	vx.Assume(t <= t0+span)
	vxC12Clock = vxC12T{t, 0, 2}

	vxC12YieldOn, vxC12YieldAt, vxC12YieldTok = true, vx.Choice("yieldAt", 2), tok
	vxC12Logout(tok)
	vxC12YieldOn = false

	vx.Reach("race-probed")
	served, _ := vxC12Request(tok)
	vx.Assert(!served, "a token does not authenticate after logout (a request raced with the logout)")
	globalContext.auth.Close()
	vxC12NewAuth(ttl, nil)
	served, _ = vxC12Request(tok)
	vx.Assert(!served, "a token does not authenticate after logout and restart (a request raced with the logout)")
	vx.Assert(vxC12Disk.find(vxC12TokKey(tok)) < 0, "no record of a logged-out session is left in the file (a request raced with the logout)")
}

func vxC12TokKey(tok string) []byte {
	b := make([]byte, len(tok)/2)
	for i := range b {
		b[i] = vxC12Nib(tok[2*i])<<4 | vxC12Nib(tok[2*i+1])
	}
	return b
}

func vxC12Nib(c byte) byte {
	if c >= 'a' {
		return c - 'a' + 10
	}
	return c - '0'
}

// ---- (c) session records ----

func vxC12Record() {
	if vx.Choice("mode", 2) == 0 {
		vx.Reach("roundtrip")
		n := vx.Choice("namelen", 5)
		in := session{userName: vx.String("name", n), expire: vx.Uint32("expire")}
		var out session
		ok := out.deserialize(in.serialize())
		vx.Assert(ok, "a serialized session is accepted")
		vx.Assert(out.expire == in.expire, "expiry survives the record round trip")
		vx.Assert(out.userName == in.userName, "user name survives the record round trip")
		return
	}
	n := vx.Choice("len", 11)
	data := vx.Bytes("rec", n)
	var out session
	ok := out.deserialize(data)
	if ok {
		vx.Reach("garbled-accepted")
		vx.Assert(n >= 6, "a record shorter than its header is refused")
		if n >= 6 {
			nameLen := int(data[4])<<8 | int(data[5])
			vx.Assert(n-6 >= nameLen, "a record shorter than its declared name is refused")
		}
	} else {
		vx.Reach("garbled-rejected")
	}
}
