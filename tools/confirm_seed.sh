#!/bin/bash
# usage: tools/confirm_seed.sh <ID> <A|B>   — independently confirms a seeded change in a scratch worktree and files it under /verif/seeded/<ID>/<V>/
set -u
ID=$1; V=$2
SRC=/tmp/seeded/$ID/$V
DST=/verif/seeded/$ID/$V
WT=/tmp/cs-$ID-$V
export PATH=/root/go/pkg/mod/golang.org/toolchain@v0.0.1-go1.24.2.linux-amd64/bin:$PATH GOTOOLCHAIN=local GOFLAGS=-mod=mod GOPROXY=off GOSUMDB=off
[ -f $SRC/patch.diff ] || { echo "no patch for $ID $V"; exit 2; }
git -C /repo worktree remove --force $WT 2>/dev/null
git -C /repo worktree add --detach $WT HEAD >/dev/null 2>&1 || exit 2
cd $WT
DEMO=$(cat $SRC/demo_path.txt | tr -d '\n ')
DEMOFILE=$SRC/$(basename $DEMO)
PKGDIR=./$(dirname $DEMO)
TESTS=$(grep -oE "^func (Test[A-Za-z0-9_]+)" $DEMOFILE | awk '{print $2}' | paste -sd'|')
# packages touched by the patch
PKGS=$(grep -E "^\+\+\+ b/" $SRC/patch.diff | sed 's|+++ b/||' | xargs -n1 dirname | sort -u | sed 's|^|./|' | paste -sd' ')
res() { echo "$1" >> $WT/.confirm.log; }
: > $WT/.confirm.log
# 1. demo passes without patch
cp $DEMOFILE $DEMO
if go test -vet=off -count=1 -run "^($TESTS)\$" $PKGDIR > $WT/.o1 2>&1; then P0=true; else P0=false; fi
# 2. apply patch, build
git apply $SRC/patch.diff || { echo "patch does not apply"; git -C /repo worktree remove --force $WT; exit 2; }
if go build ./... > $WT/.o2 2>&1; then B=true; else B=false; fi
# 3. demo fails with patch
if go test -vet=off -count=1 -timeout 120s -run "^($TESTS)\$" $PKGDIR > $WT/.o3 2>&1; then F1=false; else F1=true; fi
# 4. existing tests pass with patch (demo removed): touched packages + main dependents
rm -f $DEMO
DEPS="$PKGS ./internal/home/... ./internal/dnsforward/... ./internal/filtering/... ./internal/querylog/... ./internal/stats/... ./internal/client/... ./internal/dhcpd/..."
if go test -vet=off -count=1 -timeout 20m $DEPS > $WT/.o4 2>&1; then T=true; else T=false; fi
mkdir -p $DST
cp $SRC/patch.diff $DST/patch.diff
cp $DEMOFILE $DST/
cp $SRC/demo_path.txt $DST/
python3 - "$SRC/meta.json" "$DST/meta.json" "$ID" "$P0" "$B" "$F1" "$T" "$DEMO" "$TESTS" <<'PY'
import json,sys
src,dst,id,p0,b,f1,t,demo,tests=sys.argv[1:]
try: m=json.load(open(src))
except Exception: m={}
out={"property":id,"summary":m.get("summary",""),"needs":m.get("needs",""),
 "demo":demo,"demo_tests":tests,
 "confirmed":{"builds_with_patch":b=="true","demo_passes_without_patch":p0=="true","demo_fails_with_patch":f1=="true","existing_tests_pass_with_patch":t=="true"},
 "ran":["git worktree add (scratch, outside /repo and /verif)","go test -run '^(%s)$' %s  (unchanged tree)"%(tests,demo.rsplit('/',1)[0]),"git apply patch.diff; go build ./...","go test -run demo (patched tree)","go test -vet=off -count=1 touched packages + internal/{home,dnsforward,filtering,querylog,stats,client,dhcpd}/... (patched tree, demo removed)"],
 "author_meta":m}
json.dump(out,open(dst,'w'),indent=1)
print(id, "builds",b,"demo_ok_clean",p0,"demo_fails_patched",f1,"suite_ok_patched",t)
PY
[ "$T" = false ] && tail -30 $WT/.o4 | grep -E "FAIL|panic" | head -5
cd /
git -C /repo worktree remove --force $WT
