//go:build verif

package schedule

// C18 — Weekly.Contains follows local wall-clock time.
//
//vx:overlay internal/schedule/zz_vx_c18.go
//vx:entry vxC18Contains reach=inside,outside first_ms=1500
//vx:stub (*time.Location).lookup vxC18Lookup
//vx:inverse time.dateToAbsDays (time.absDays).date
//vx:note zone = symbolic offset function with <=2 transitions (offsets within +-15h); instant window 2019-01-01..2030-01-01 (quick) / 1970..2170 (thorough)

import (
	"time"

	"github.com/AdguardTeam/AdGuardHome/internal/vx"
)

// vxC18Zone is the symbolic zone: offset o0 before t1, o1 in [t1,t2), o2 after.
var vxC18Zone struct {
	o0, o1, o2 int64
	t1, t2     int64
}

// vxC18Lookup replaces (*time.Location).lookup, the only access path of the
// time package to the zone database.
func vxC18Lookup(l *time.Location, sec int64) (name string, offset int, start, end int64, isDST bool) {
	const alpha, omega = -1 << 63, 1<<63 - 1
	z := &vxC18Zone
	switch {
	case sec < z.t1:
		return "Z0", int(z.o0), alpha, z.t1, false
	case sec < z.t2:
		return "Z1", int(z.o1), z.t1, z.t2, true
	default:
		return "Z2", int(z.o2), z.t2, omega, false
	}
}

func vxC18Offset(sec int64) int64 {
	z := &vxC18Zone
	switch {
	case sec < z.t1:
		return z.o0
	case sec < z.t2:
		return z.o1
	default:
		return z.o2
	}
}

func vxC18Contains() {
	lo, hi := int64(1708905600), int64(1709683200) // 2024-02-26 .. 2024-03-06 (leap day inside)
	if vx.Thorough() {
		lo, hi = 0, 6311433600 // 1970 .. 2170
	}
	unix := vx.Int64("unix")
	vx.Assume(lo <= unix)
	vx.Assume(unix < hi)
	ns := vx.Int64("ns")
	vx.Assume(0 <= ns)
	vx.Assume(ns < 1_000_000_000)

	z := &vxC18Zone
	const maxOff = 15 * 3600
	z.o0, z.o1, z.o2 = vx.Int64("o0"), vx.Int64("o1"), vx.Int64("o2")
	for _, o := range []int64{z.o0, z.o1, z.o2} {
		vx.Assume(-maxOff <= o)
		vx.Assume(o <= maxOff)
	}
	z.t1, z.t2 = vx.Int64("t1"), vx.Int64("t2")
	vx.Assume(z.t1 <= z.t2)
	vx.Assume(lo-10*86400 <= z.t1)
	vx.Assume(z.t2 <= hi+10*86400)

	w := &Weekly{location: new(time.Location)}
	for i := range w.days {
		s, e := vx.Int64("start"), vx.Int64("end")
		// what validation accepts (minute granularity is irrelevant to Contains)
		vx.Assume(vx.Or(vx.And(s == 0, e == 0), vx.And(vx.And(0 <= s, s < e), e <= int64(maxDayRange))))
		w.days[i] = dayRange{start: time.Duration(s), end: time.Duration(e)}
	}

	t := time.Unix(unix, ns)
	got := w.Contains(t)

	// Oracle: wall clock = UTC + offset in force at that instant.
	local := unix + vxC18Offset(unix)
	days, tod := vx.Int64("q.days"), vx.Int64("q.tod")
	vx.Assume(0 <= tod)
	vx.Assume(tod < 86400)
	vx.Assume(-100000 <= days)
	vx.Assume(days < 100000)
	vx.Assume(local == days*86400+tod)
	k, wd := vx.Int64("q.k"), vx.Int64("q.wd")
	vx.Assume(0 <= wd)
	vx.Assume(wd < 7)
	vx.Assume(-20000 <= k)
	vx.Assume(k < 20000)
	vx.Assume(days+4 == 7*k+wd) // 1970-01-01 was a Thursday
	wdi := vx.Concrete(int(wd))
	dr := w.days[wdi]
	todNs := tod*1_000_000_000 + ns
	want := vx.And(int64(dr.start) <= todNs, todNs < int64(dr.end))
	if want {
		vx.Reach("inside")
	} else {
		vx.Reach("outside")
	}
	vx.Assert(got == want, "Contains(t) == (start <= wall-clock time of day < end) on t's local weekday")
	if dr.start == 0 && dr.end == maxDayRange {
		vx.Assert(got, "full-day range covers every instant of the local day")
	}
	if dr.start == 0 && dr.end == 0 {
		vx.Assert(!got, "empty range covers no instant")
	}
}
