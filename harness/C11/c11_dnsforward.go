//go:build verif

package dnsforward

// C11 — registration helper: runs the real (*Server).registerHandlers with the
// registration callback supplied by the home harness.
//
//vx:overlay internal/dnsforward/zz_vx_c11.go

import "github.com/AdguardTeam/AdGuardHome/internal/aghhttp"

// VxC11Register registers the DNS server's HTTP API through reg.
func VxC11Register(reg aghhttp.RegisterFunc) {
	webRegistered = false
	s := &Server{}
	s.conf.HTTPRegister = reg
	s.registerHandlers()
}
