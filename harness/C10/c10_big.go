//go:build verif

package dhcpd

// C10 — reference implementation of the math/big.Int methods used by ipRange
// (the assembly kernels of math/big are not interpretable).
//
//vx:overlay internal/dhcpd/zz_vx_c10_big.go
//vx:stub (*math/big.Int).SetBytes vxC10BigSetBytes
//vx:stub (*math/big.Int).Sub vxC10BigSub
//vx:stub (*math/big.Int).Add vxC10BigAdd
//vx:stub (*math/big.Int).Set vxC10BigSet
//vx:stub (*math/big.Int).Cmp vxC10BigCmp
//vx:stub (*math/big.Int).Sign vxC10BigSign
//vx:stub (*math/big.Int).IsUint64 vxC10BigIsUint64
//vx:stub (*math/big.Int).Uint64 vxC10BigUint64
//vx:stub (*math/big.Int).FillBytes vxC10BigFillBytes
//vx:stub math/big.NewInt vxC10BigNewInt

import (
	"math/big"

	"github.com/AdguardTeam/AdGuardHome/internal/vx"
)

// ---- math/big reference (assembly kernels are not interpretable) ----
//
// Values are non-negative 128-bit numbers plus a sign, kept in a side table
// keyed by the *big.Int.

type vxC10Num struct {
	hi, lo uint64
	neg    bool
}

var vxC10Nums = map[*big.Int]vxC10Num{}

func vxC10BigSetBytes(z *big.Int, b []byte) *big.Int {
	if len(b) > 16 {
		vx.Fail("big reference: more than 16 bytes")
	}
	var n vxC10Num
	for i := 0; i < len(b); i++ {
		pos := len(b) - 1 - i // significance in bytes
		if pos >= 8 {
			n.hi |= uint64(b[i]) << (8 * uint(pos-8))
		} else {
			n.lo |= uint64(b[i]) << (8 * uint(pos))
		}
	}
	vxC10Nums[z] = n
	return z
}

// vxC10Less reports |a| < |b|.
func vxC10Less(a, b vxC10Num) bool {
	return vx.Or(a.hi < b.hi, vx.And(a.hi == b.hi, a.lo < b.lo))
}

func vxC10AbsSub(a, b vxC10Num) (r vxC10Num) {
	r.lo = a.lo - b.lo
	r.hi = a.hi - b.hi
	if a.lo < b.lo {
		r.hi--
	}
	return r
}

func vxC10AbsAdd(a, b vxC10Num) (r vxC10Num) {
	r.lo = a.lo + b.lo
	r.hi = a.hi + b.hi
	if r.lo < a.lo {
		r.hi++
	}
	return r
}

func vxC10BigSub(z, x, y *big.Int) *big.Int {
	a, b := vxC10Nums[x], vxC10Nums[y]
	if a.neg || b.neg {
		vx.Fail("big reference: negative operand")
	}
	var r vxC10Num
	if vxC10Less(a, b) {
		r = vxC10AbsSub(b, a)
		r.neg = true
	} else {
		r = vxC10AbsSub(a, b)
	}
	vxC10Nums[z] = r
	return z
}

func vxC10BigAdd(z, x, y *big.Int) *big.Int {
	a, b := vxC10Nums[x], vxC10Nums[y]
	if a.neg || b.neg {
		vx.Fail("big reference: negative operand")
	}
	vxC10Nums[z] = vxC10AbsAdd(a, b)
	return z
}

func vxC10BigSet(z, x *big.Int) *big.Int {
	vxC10Nums[z] = vxC10Nums[x]
	return z
}

func vxC10BigCmp(x, y *big.Int) int {
	a, b := vxC10Nums[x], vxC10Nums[y]
	if a.neg || b.neg {
		vx.Fail("big reference: negative operand")
	}
	if vxC10Less(a, b) {
		return -1
	}
	if vxC10Less(b, a) {
		return 1
	}
	return 0
}

func vxC10BigSign(x *big.Int) int {
	a := vxC10Nums[x]
	if vx.And(a.hi == 0, a.lo == 0) {
		return 0
	}
	if a.neg {
		return -1
	}
	return 1
}

func vxC10BigIsUint64(x *big.Int) bool {
	a := vxC10Nums[x]
	return !a.neg && a.hi == 0
}

func vxC10BigUint64(x *big.Int) uint64 { return vxC10Nums[x].lo }

func vxC10BigFillBytes(x *big.Int, buf []byte) []byte {
	a := vxC10Nums[x]
	for i := range buf {
		pos := len(buf) - 1 - i
		switch {
		case pos >= 16:
			buf[i] = 0
		case pos >= 8:
			buf[i] = byte(a.hi >> (8 * uint(pos-8)))
		default:
			buf[i] = byte(a.lo >> (8 * uint(pos)))
		}
	}
	return buf
}

func vxC10BigNewInt(v int64) *big.Int {
	z := &big.Int{}
	if v < 0 {
		vx.Fail("big reference: negative constant")
	}
	vxC10Nums[z] = vxC10Num{lo: uint64(v)}
	return z
}

