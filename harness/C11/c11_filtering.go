//go:build verif

package filtering

// C11 — registration helper: runs the real
// (*DNSFilter).RegisterFilteringHandlers (filtering, rewrites, safe search,
// safe browsing, parental, blocked services) with the registration callback
// supplied by the home harness.
//
//vx:overlay internal/filtering/zz_vx_c11.go

import "github.com/AdguardTeam/AdGuardHome/internal/aghhttp"

// VxC11Register registers the filtering HTTP API through reg.
func VxC11Register(reg aghhttp.RegisterFunc) {
	d := &DNSFilter{conf: &Config{HTTPRegister: reg}}
	d.RegisterFilteringHandlers()
}
