//go:build verif

package client

// C04 — requests map to one persistent client by fixed precedence; the
// registry stays consistent under add/update/remove.
//
//vx:native
//vx:overlay internal/client/zz_vx_c04.go
//vx:entry vxC04Lookup reach=by-clientid,by-ip,by-cidr,by-cidr-nested,by-mac,no-client,upstream-attributed
//vx:entry vxC04Settings reach=own-settings,global-settings,own-services,global-services,no-client
//vx:entry vxC04History reach=add-ok,add-clash,update-ok,update-clash,update-missing,remove-ok,remove-missing,probe-owner,probe-none,name-found,name-missing
//vx:stub (*github.com/AdguardTeam/AdGuardHome/internal/client.upstreamManager).customUpstreamConfig vxC04CustomConf
//vx:note Lookup entry: registry of 0..3 clients built by the real Add (assumed accepted), each with one ClientID (1 byte; thorough 1..2), one IP, one CIDR (thorough: client 0 two when <=2 clients) and one MAC (6, 8 and 20 bytes), all bytes and prefix lengths symbolic, so equal, overlapping and nested CIDRs arise; IPv4 (quick), plus in quick a small IPv6 registry (<=2 clients with zoned/unzoned IP and CIDR, zoned/unzoned request), thorough: all-IPv6 and mixed v4/v6 registries of <=2 full clients too; request = (ClientID absent or symbolic, symbolic address, DHCP answer chosen when asked: none or a symbolic MAC of 6/8/20 bytes). Reference = decision table ClientID > exact IP > containing CIDR of maximal length (ties between equally long prefixes left open) > leased MAC; identifier equality and CIDR containment (first <length> bits equal, zone ignored) computed over the raw bytes. CustomUpstreamConfig is checked against the same table without the DHCP stage (the implementation does not consult DHCP there; statement leaves it open).
//vx:note Settings entry: one client reachable by one identifier kind, all per-client and global switches symbolic: own switches/safe-search/blocked services applied exactly when UseOwnSettings / UseOwnBlockedServices, everything else (protection switch, address, service rules) untouched.
//vx:note History entry: 3 operations forked over Add / Update(target, new version) / RemoveByName(target) on clients with all four identifier kinds or a partial set ({ClientID,CIDR} or {IP,MAC}; thorough also each single kind) so that updates drop and gain identifiers. One identifier kind (or the names) is "in focus" per run: its values are symbolic in every client (equal/overlapping/nested in all ways, incl. an update keeping its own identifiers), the other kinds are fixed and distinct (nested CIDRs 10/8 > 10.1/16 > 10.1.1/24 > 10.1.1.16/28 with the IPs inside); (So two DIFFERENT kinds never clash within one history.) Reference registry = slice of clients; operation accepted iff target exists and no OTHER client shares the name or an identifier. After the history: index sizes equal the reference (no stale entries), every fixed identifier ever mentioned (also of rejected, replaced and removed clients) is looked up through ApplyClientFiltering (ClientID / address / DHCP MAC) and must resolve to the reference owner or nobody, and an arbitrary request (or FindByName with an arbitrary name, whose result must carry the current identifiers) probes the kind in focus. Quick: the history ends at the first rejected operation (the checks follow immediately); thorough: two slices - (a) 3 operations going on after rejections with all partial shapes, (b) 4 operations ending at the first rejected one.
//vx:note stubs: (*upstreamManager).customUpstreamConfig records the UID instead of building dnsproxy upstream objects; slices.overlaps (unsafe pointer arithmetic inside slices.Insert) is an engine intrinsic (same address comparison on the engine's own backing arrays); DHCP is a harness fake whose MACByIP answer is arbitrary per request (models lease changes) and which checks it is asked about the request's source address.
//vx:note outside: histories longer than the bounds; more than one identifier of a kind per client (except 2 CIDRs in thorough lookup); Storage.Find/FindLoose (string parsing of ids, zone-less matching) and SetIDs parsing; runtime clients; concurrency of ApplyClientFiltering with updates (lock discipline is C05); tags/upstream validation in Persistent.validate (valid clients only); UID clashes.
//vx:opaque (net/netip.Addr).String
//vx:opaque (net/netip.Prefix).String
//vx:opaque (net.HardwareAddr).String

import (
	"context"
	"log/slog"
	"net"
	"net/netip"
	"sync"

	"github.com/AdguardTeam/AdGuardHome/internal/dhcpsvc"
	"github.com/AdguardTeam/AdGuardHome/internal/filtering"
	"github.com/AdguardTeam/AdGuardHome/internal/vx"
	"github.com/AdguardTeam/dnsproxy/proxy"
)

// ---- environment fakes ----

// vxC04DHCP is the DHCP server seen by the storage: for every call it answers
// with whatever the harness put into vxC04Lease (nil = no lease).
type vxC04DHCP struct{}

var (
	// vxC04Lease is the DHCP answer; when vxC04LeaseLazy is set it is chosen
	// (nil or a symbolic MAC of one of the first vxC04LeaseLens lengths) at the
	// moment the storage asks.
	vxC04Lease     net.HardwareAddr
	vxC04LeaseLazy bool
	vxC04LeaseLens = 3
	vxC04LeaseArgs []netip.Addr
	vxC04UpsUIDs   []UID
)

func (vxC04DHCP) Leases() (leases []*dhcpsvc.Lease)   { return nil }
func (vxC04DHCP) HostByIP(_ netip.Addr) (host string) { return "" }
func (vxC04DHCP) MACByIP(ip netip.Addr) (mac net.HardwareAddr) {
	vxC04LeaseArgs = append(vxC04LeaseArgs, ip)
	if vxC04LeaseLazy {
		// the lease table is arbitrary: decide the answer when it is asked for
		vxC04LeaseLazy = false
		vxC04Lease = nil
		if l := vx.Choice("lease", 1+vxC04LeaseLens); l > 0 {
			vxC04Lease = net.HardwareAddr(vx.Bytes("leasemac", vxC04MacLens[l-1]))
		}
	}
	return vxC04Lease
}

// vxC04CustomConf replaces the construction of the dnsproxy upstream objects:
// it only records for which client the configuration was requested.
func vxC04CustomConf(m *upstreamManager, uid UID) (proxyConf *proxy.CustomUpstreamConfig) {
	vxC04UpsUIDs = append(vxC04UpsUIDs, uid)
	return nil
}

// vxC04SS is a client's own safe-search object (identity is what matters).
type vxC04SS struct {
	filtering.SafeSearch
	owner int
}

func vxC04Storage() *Storage {
	return &Storage{
		logger:          slog.New(slog.DiscardHandler),
		mu:              &sync.Mutex{},
		index:           newIndex(),
		runtimeIndex:    newRuntimeIndex(),
		upstreamManager: newUpstreamManager(slog.New(slog.DiscardHandler), nil),
		dhcp:            vxC04DHCP{},
		allowedTags:     []string{"device_audio", "device_camera", "device_nas", "device_pc", "device_tv"},
	}
}

// ---- reference model ----

// vxC04A is an address with its reference representation next to the netip one.
type vxC04A struct {
	a      netip.Addr
	v6     bool
	hi, lo uint64
	zone   string
}

func vxC04Addr(name string, v6 bool, zone string) (r vxC04A) {
	n := 4
	if v6 {
		n = 16
	}
	return vxC04AddrOf(vx.Bytes(name, n), zone)
}

// vxC04AddrOf: 4 bytes = IPv4, 16 bytes = IPv6.
func vxC04AddrOf(raw []byte, zone string) (r vxC04A) {
	v6 := len(raw) == 16
	r.v6, r.zone = v6, zone
	if !v6 {
		var b [4]byte
		copy(b[:], raw)
		r.a = netip.AddrFrom4(b)
		r.lo = uint64(b[0])<<24 | uint64(b[1])<<16 | uint64(b[2])<<8 | uint64(b[3])
		return r
	}
	var b [16]byte
	copy(b[:], raw)
	r.a = netip.AddrFrom16(b)
	if zone != "" {
		r.a = r.a.WithZone(zone)
	}
	for i := 0; i < 8; i++ {
		r.hi = r.hi<<8 | uint64(b[i])
		r.lo = r.lo<<8 | uint64(b[8+i])
	}
	return r
}

// same: identical address identifiers (family, bits and zone).
func (x vxC04A) same(y vxC04A) bool {
	if !x.a.IsValid() || !y.a.IsValid() || x.v6 != y.v6 || x.zone != y.zone {
		return false
	}
	return vx.And(x.hi == y.hi, x.lo == y.lo)
}

type vxC04P struct {
	base vxC04A
	bits int
	p    netip.Prefix
}

func vxC04Prefix(name string, v6 bool) (r vxC04P) {
	bits := int(vx.Byte(name + ".bits"))
	max := 32
	if v6 {
		max = 128
	}
	vx.Assume(bits <= max)
	return vxC04PrefixOf(vxC04Addr(name, v6, ""), bits)
}

func vxC04PrefixOf(base vxC04A, bits int) (r vxC04P) {
	r.base, r.bits = base, bits
	r.p = netip.PrefixFrom(base.a, bits)
	return r
}

func (x vxC04P) same(y vxC04P) bool {
	return vx.And(x.base.same(y.base), x.bits == y.bits)
}

// contains: the first bits bits of ip equal those of the prefix base; the zone
// of ip does not matter; families must agree.
func (x vxC04P) contains(ip vxC04A) bool {
	if !ip.a.IsValid() || x.base.v6 != ip.v6 {
		return false
	}
	if !x.base.v6 {
		d := uint32(x.base.lo ^ ip.lo)
		// keep the top bits bits: d >> (32-bits) is zero; bits == 0 keeps nothing
		return (uint64(d) >> uint(32-x.bits)) == 0
	}
	dh, dl := x.base.hi^ip.hi, x.base.lo^ip.lo
	if x.bits <= 64 {
		return vx.Or(x.bits == 0, (dh>>uint(64-x.bits)) == 0)
	}
	return vx.And(dh == 0, (dl>>uint(128-x.bits)) == 0)
}

// vxC04C is a reference client.
type vxC04C struct {
	p    *Persistent
	tag  int
	name string
	cids []string
	ips  []vxC04A
	nets []vxC04P
	macs [][]byte
}

func vxC04BytesEq(a, b []byte) bool {
	if len(a) != len(b) {
		return false
	}
	var d byte
	for i := range a {
		d |= a[i] ^ b[i]
	}
	return d == 0
}

// vxC04Want is the reference attribution: for the registry regs and the
// request (id, addr, lease MAC) it returns, per client, the condition under
// which the request belongs to that client, and the condition for "nobody".
// stages: how many precedence stages are consulted (4 = all, 3 = no DHCP).
func vxC04Want(regs []*vxC04C, id string, addr vxC04A, lease []byte, stages int) (want []bool, none bool) {
	n := len(regs)
	m1, m2, m3, m4 := make([]bool, n), make([]bool, n), make([]bool, n), make([]bool, n)
	any1, any2, any3, any4 := false, false, false, false
	for i, c := range regs {
		for _, cid := range c.cids {
			if id != "" && len(cid) == len(id) {
				m1[i] = vx.Or(m1[i], cid == id)
			}
		}
		for _, ip := range c.ips {
			m2[i] = vx.Or(m2[i], ip.same(addr))
		}
		for _, pf := range c.nets {
			// pf contains addr and no registered prefix containing addr is longer
			t := pf.contains(addr)
			for _, d := range regs {
				for _, q := range d.nets {
					t = vx.And(t, vx.Implies(q.contains(addr), q.bits <= pf.bits))
				}
			}
			m3[i] = vx.Or(m3[i], t)
			any3 = vx.Or(any3, pf.contains(addr))
		}
		if lease != nil && stages >= 4 {
			for _, mac := range c.macs {
				m4[i] = vx.Or(m4[i], vxC04BytesEq(mac, lease))
			}
		}
		any1, any2, any4 = vx.Or(any1, m1[i]), vx.Or(any2, m2[i]), vx.Or(any4, m4[i])
	}
	want = make([]bool, n)
	for i := range regs {
		w := vx.And(!any3, m4[i])
		w = vx.And(!any2, vx.Or(m3[i], w))
		w = vx.And(!any1, vx.Or(m2[i], w))
		want[i] = vx.Or(m1[i], w)
	}
	none = vx.And(vx.And(!any1, !any2), vx.And(!any3, !any4))
	return want, none
}

var vxC04MacLens = []int{6, 8, 20}
var vxC04Tags = []string{"device_audio", "device_camera", "device_nas", "device_pc", "device_tv"}
var vxC04Svcs = []string{"svc0", "svc1", "svc2", "svc3", "svc4"}

// vxC04Client builds client number k.  mask: bit0 ClientID, bit1 IP, bit2
// CIDR, bit3 MAC, bit4 a second CIDR.  symFlags: the per-client switches are
// symbolic (otherwise the client uses the global settings).
func vxC04Client(k int, name string, mask int, v6 bool, zone string, cidLen, macLen int, symFlags bool) *vxC04C {
	sfx := string(rune('0' + k))
	c := &vxC04C{tag: k, name: name}
	p := &Persistent{
		Name:            name,
		UID:             UID{15: byte(k + 1)},
		Tags:            []string{vxC04Tags[k]},
		SafeSearch:      &vxC04SS{owner: k},
		BlockedServices: &filtering.BlockedServices{IDs: []string{vxC04Svcs[k]}},
	}
	if symFlags {
		p.UseOwnSettings = vx.Bool("own" + sfx)
		p.UseOwnBlockedServices = vx.Bool("ownsvc" + sfx)
		p.FilteringEnabled = vx.Bool("filt" + sfx)
		p.SafeBrowsingEnabled = vx.Bool("sb" + sfx)
		p.ParentalEnabled = vx.Bool("par" + sfx)
		p.SafeSearchConf.Enabled = vx.Bool("ss" + sfx)
	}
	if mask&1 != 0 {
		c.cids = append(c.cids, vx.String("cid"+sfx, cidLen))
	}
	if mask&2 != 0 {
		c.ips = append(c.ips, vxC04Addr("ip"+sfx, v6, zone))
	}
	if mask&4 != 0 {
		c.nets = append(c.nets, vxC04Prefix("net"+sfx, v6))
	}
	if mask&16 != 0 {
		c.nets = append(c.nets, vxC04Prefix("net"+sfx+"b", v6))
	}
	if mask&8 != 0 {
		c.macs = append(c.macs, vx.Bytes("mac"+sfx, macLen))
	}
	c.p = p
	c.fill()
	return c
}

// fill copies the reference identifiers into the Persistent.
func (c *vxC04C) fill() {
	p := c.p
	p.ClientIDs, p.IPs, p.Subnets, p.MACs = nil, nil, nil, nil
	for _, x := range c.cids {
		p.ClientIDs = append(p.ClientIDs, x)
	}
	for _, x := range c.ips {
		p.IPs = append(p.IPs, x.a)
	}
	for _, x := range c.nets {
		p.Subnets = append(p.Subnets, x.p)
	}
	for _, x := range c.macs {
		p.MACs = append(p.MACs, net.HardwareAddr(x))
	}
}

// vxC04Request issues one request against the storage and checks that it is
// attributed according to the reference; it returns the index in regs of the
// chosen client (-1 = nobody) and the settings.
// fixed: the DHCP answer; lazy: instead let the DHCP answer be arbitrary.
func vxC04Request(s *Storage, regs []*vxC04C, id string, addr vxC04A, pre filtering.Settings, lazy bool, fixed []byte) (got int, setts filtering.Settings) {
	vxC04LeaseLazy, vxC04Lease, vxC04LeaseArgs = lazy, nil, nil
	if fixed != nil {
		vxC04Lease = net.HardwareAddr(fixed)
	}
	setts = pre
	s.ApplyClientFiltering(id, addr.a, &setts)
	vxC04LeaseLazy = false
	lease := []byte(vxC04Lease)
	if vxC04Lease == nil {
		lease = nil
	}
	for _, a := range vxC04LeaseArgs {
		vx.Assert(a == addr.a, "the DHCP lease is looked up for the request's source address")
	}

	got = -1
	if len(setts.ClientTags) > 0 {
		for i, c := range regs {
			if setts.ClientTags[0] == vxC04Tags[c.tag] {
				got = i
			}
		}
		vx.Assert(got >= 0 && len(setts.ClientTags) == 1, "request attributed to a client that is not registered")
		vx.Assert(setts.ClientName == regs[got].name, "name of the chosen client")
	} else {
		vx.Assert(setts.ClientName == "", "no attribution without a matching client")
	}
	want, none := vxC04Want(regs, id, addr, lease, 4)
	if got < 0 {
		vx.Assert(none, "a request matching a ClientID, IP, CIDR or leased MAC is attributed to its client")
	} else {
		vx.Assert(want[got], "client chosen by precedence ClientID > IP > most specific CIDR > leased MAC")
	}
	return got, setts
}

func vxC04Pre(sym bool) filtering.Settings {
	pre := filtering.Settings{
		ClientSafeSearch: &vxC04SS{owner: -1},
		BlockedServices:  &filtering.BlockedServices{IDs: []string{"global"}},
	}
	if sym {
		pre.ProtectionEnabled = vx.Bool("g.prot")
		pre.FilteringEnabled = vx.Bool("g.filt")
		pre.SafeSearchEnabled = vx.Bool("g.ss")
		pre.SafeBrowsingEnabled = vx.Bool("g.sb")
		pre.ParentalEnabled = vx.Bool("g.par")
	}
	return pre
}

func vxC04Unchanged(setts, pre *filtering.Settings) bool {
	sw := setts.FilteringEnabled == pre.FilteringEnabled && setts.SafeSearchEnabled == pre.SafeSearchEnabled &&
		setts.SafeBrowsingEnabled == pre.SafeBrowsingEnabled && setts.ParentalEnabled == pre.ParentalEnabled
	return vx.And(sw, setts.ClientSafeSearch == pre.ClientSafeSearch)
}

// ---- Part A: lookup precedence ----

func vxC04Lookup() {
	ctx := context.Background()
	s := vxC04Storage()

	// Address families: everything v4, everything v6, or mixed (thorough).  In
	// the quick tier the v6 registry is small: up to 2 clients with an address
	// and a CIDR each, request without ClientID.
	nfam := 2
	if vx.Thorough() {
		nfam = 3
	}
	fam := vx.Choice("fam", nfam)
	small := fam == 1 && !vx.Thorough()
	nmax := 3
	if fam != 0 {
		// 128-bit addresses are expensive for the solver
		nmax = 2
	}
	n := vx.Choice("n", nmax+1)
	var regs []*vxC04C
	for k := 0; k < n; k++ {
		v6 := fam == 1 || (fam == 2 && k%2 == 1)
		mask := 1 | 2 | 4 | 8
		if k == 0 && vx.Thorough() && n <= 2 {
			mask |= 16
		}
		if small {
			mask = 2 | 4
		}
		// the first v6 client's address is a zoned one
		czone := ""
		if v6 && k == 0 {
			czone = "eth0"
		}
		cidLen := 1
		if vx.Thorough() && fam == 0 {
			cidLen = 1 + k%2
		}
		c := vxC04Client(k, "cli"+string(rune('0'+k)), mask, v6, czone, cidLen, vxC04MacLens[(k+fam)%3], false)
		err := s.Add(ctx, c.p)
		// pre-state: a registry the real Add accepted
		vx.Assume(err == nil)
		regs = append(regs, c)
	}

	// The request.
	nid := 2
	if vx.Thorough() && fam == 0 {
		nid = 3
	}
	if small {
		nid = 1
	}
	id := vx.String("rid", vx.Choice("ridlen", nid))
	rv6 := fam == 1
	if fam == 2 {
		rv6 = vx.Bool("rv6")
	}
	zone := ""
	if rv6 && vx.Bool("rzone") {
		zone = "eth0"
	}
	addr := vxC04Addr("raddr", rv6, zone)
	pre := vxC04Pre(false)
	got, setts := vxC04Request(s, regs, id, addr, pre, true, nil)
	vx.Assert(vxC04Unchanged(&setts, &pre) && setts.BlockedServices == pre.BlockedServices,
		"global settings stay for clients without own settings and for unknown clients")

	// Custom upstreams: same attribution; the implementation does not consult
	// DHCP there (left open by the statement: either nobody or the MAC owner).
	vxC04UpsUIDs = nil
	s.CustomUpstreamConfig(id, addr.a)
	want, _ := vxC04Want(regs, id, addr, []byte(vxC04Lease), 4)
	want3, none3 := vxC04Want(regs, id, addr, nil, 3)
	if len(vxC04UpsUIDs) == 0 {
		vx.Assert(none3, "custom upstreams: a request matching ClientID/IP/CIDR is attributed")
	} else {
		vx.Reach("upstream-attributed")
		u := int(vxC04UpsUIDs[0][15]) - 1
		vx.Assert(len(vxC04UpsUIDs) == 1 && u >= 0 && u < len(regs), "one existing client")
		vx.Assert(vx.Or(want3[u], vx.And(none3, want[u])), "custom upstreams follow the same precedence")
	}

	if got < 0 {
		vx.Reach("no-client")
	} else {
		vxC04Stage(regs, got, id, addr)
	}
}

// vxC04Stage marks which stage decided (vacuity markers only).
func vxC04Stage(regs []*vxC04C, got int, id string, addr vxC04A) {
	c := regs[got]
	for _, cid := range c.cids {
		if cid == id {
			vx.Reach("by-clientid")
			return
		}
	}
	for _, ip := range c.ips {
		if ip.same(addr) {
			vx.Reach("by-ip")
			return
		}
	}
	for _, pf := range c.nets {
		if pf.contains(addr) {
			vx.Reach("by-cidr")
			for _, d := range regs {
				for _, q := range d.nets {
					if d != c && q.contains(addr) {
						vx.Reach("by-cidr-nested")
						return
					}
				}
			}
			return
		}
	}
	vx.Reach("by-mac")
}

// ---- Part A': the chosen client's switches ----

func vxC04Settings() {
	ctx := context.Background()
	s := vxC04Storage()
	kind := vx.Choice("kind", 4)
	c := vxC04Client(0, "kid", 1<<kind, false, "", 2, 6, true)
	err := s.Add(ctx, c.p)
	vx.Assert(err == nil, "a valid first client is accepted")
	regs := []*vxC04C{c}

	id := vx.String("rid", 2)
	addr := vxC04Addr("raddr", false, "")
	pre := vxC04Pre(true)
	got, setts := vxC04Request(s, regs, id, addr, pre, true, nil)
	vx.Assert(setts.ProtectionEnabled == pre.ProtectionEnabled, "the protection switch is not a client setting")
	vx.Assert(setts.ClientIP == pre.ClientIP && len(setts.ServicesRules) == 0, "other fields untouched")
	if got < 0 {
		vx.Reach("no-client")
		vx.Assert(vxC04Unchanged(&setts, &pre) && setts.BlockedServices == pre.BlockedServices,
			"global settings stay when no client matches")
		return
	}
	p := c.p
	if p.UseOwnSettings {
		vx.Reach("own-settings")
		vx.Assert(setts.FilteringEnabled == p.FilteringEnabled, "own filtering switch applied")
		vx.Assert(setts.SafeBrowsingEnabled == p.SafeBrowsingEnabled, "own safe-browsing switch applied")
		vx.Assert(setts.ParentalEnabled == p.ParentalEnabled, "own parental switch applied")
		vx.Assert(setts.SafeSearchEnabled == p.SafeSearchConf.Enabled, "own safe-search switch applied")
		vx.Assert(setts.ClientSafeSearch == p.SafeSearch, "own safe-search engine applied")
	} else {
		vx.Reach("global-settings")
		vx.Assert(vxC04Unchanged(&setts, &pre), "global switches and safe search stay for a client using global settings")
	}
	if p.UseOwnBlockedServices {
		vx.Reach("own-services")
		bs := setts.BlockedServices
		vx.Assert(bs != nil && len(bs.IDs) == 1 && bs.IDs[0] == vxC04Svcs[0], "own blocked services applied")
	} else {
		vx.Reach("global-services")
		vx.Assert(setts.BlockedServices == pre.BlockedServices, "global blocked services stay")
	}
}

// ---- Part B: histories ----

func vxC04Share(r, c *vxC04C) bool {
	sh := false
	for _, x := range r.cids {
		for _, y := range c.cids {
			if len(x) == len(y) {
				sh = vx.Or(sh, x == y)
			}
		}
	}
	for _, x := range r.ips {
		for _, y := range c.ips {
			sh = vx.Or(sh, x.same(y))
		}
	}
	for _, x := range r.nets {
		for _, y := range c.nets {
			sh = vx.Or(sh, x.same(y))
		}
	}
	for _, x := range r.macs {
		for _, y := range c.macs {
			sh = vx.Or(sh, vxC04BytesEq(x, y))
		}
	}
	return sh
}

// vxC04Clash: another registered client (other than index skip) has c's name
// or one of its identifiers.
func vxC04Clash(regs []*vxC04C, skip int, c *vxC04C) bool {
	clash := false
	for i, r := range regs {
		if i == skip {
			continue
		}
		clash = vx.Or(clash, vx.Or(r.name == c.name, vxC04Share(r, c)))
	}
	return clash
}

func vxC04ByName(regs []*vxC04C, name string) int {
	for i, r := range regs {
		if r.name == name {
			return i
		}
	}
	return -1
}

// vxC04HClient builds the client of operation k of a history.  Identifiers of
// the kind in focus (1 ClientID, 2 IP, 3 CIDR, 4 MAC; 5 = all kinds) are
// symbolic, so they may equal or overlap each other in every way; those of
// the other kinds are fixed and distinct per operation: nested CIDRs
// 10.0.0.0/8 > 10.1.0.0/16 > 10.1.1.0/24 > 10.1.1.16/28 with the addresses
// 10.1.1.17.. inside all of them.
func vxC04HClient(k, focus, mask int, name string) *vxC04C {
	sfx := string(rune('0' + k))
	c := vxC04Client(k, name, 0, false, "", 0, 0, false)
	sym := func(kind int) bool { return focus == kind || focus == 5 }
	if mask&1 != 0 {
		cid := "id" + sfx
		if sym(1) {
			cid = vx.String("cid"+sfx, 1)
		}
		c.cids = append(c.cids, cid)
	}
	if mask&2 != 0 {
		ip := vxC04AddrOf([]byte{10, 1, 1, byte(17 + k)}, "")
		if sym(2) {
			ip = vxC04Addr("ip"+sfx, false, "")
		}
		c.ips = append(c.ips, ip)
	}
	if mask&4 != 0 {
		bases := [][]byte{{10, 0, 0, 0}, {10, 1, 0, 0}, {10, 1, 1, 0}, {10, 1, 1, 16}}
		pf := vxC04PrefixOf(vxC04AddrOf(bases[k], ""), []int{8, 16, 24, 28}[k])
		if sym(3) {
			pf = vxC04Prefix("net"+sfx, false)
		}
		c.nets = append(c.nets, pf)
	}
	if mask&8 != 0 {
		mac := []byte{2, 0, 0, 0, 0, byte(k)}
		if sym(4) {
			mac = vx.Bytes("mac"+sfx, 6)
		}
		c.macs = append(c.macs, mac)
	}
	c.fill()
	return c
}

func vxC04History() {
	ctx := context.Background()
	s := vxC04Storage()
	// all MACs have 6 bytes here, and so has a lease, if any
	vxC04LeaseLens = 1
	// focus: the kind of identifier that is symbolic (0 = the names).
	// quick: 3 operations, the history ends at the first rejected one (the
	// checks follow at once); thorough: the history goes on after rejected
	// operations.
	K, nfocus, nx, goOn := 3, 5, 2, false
	if vx.Thorough() {
		if vx.Choice("deep", 2) == 1 {
			// a second slice: four operations, ending at the first rejected one
			K = 4
		} else {
			nx, goOn = 6, true
		}
	}
	focus := vx.Choice("focus", nfocus)
	symNames := focus == 0 || focus == 5
	// (focus 5 = every kind and the names symbolic at once is implemented below
	// but not run: two operations already cost 39k paths, three do not finish.)
	// A "partial" client has only some kinds of identifiers (so that updates
	// drop and gain identifiers): {ClientID, CIDR} or {IP, MAC}; thorough: or
	// any single kind.
	pmask := []int{1 | 4, 2 | 8, 1, 2, 4, 8}[vx.Choice("x", nx)]

	var regs, all []*vxC04C
	// target picks the client an update/remove is aimed at: any name.
	target := func(sfx string) (old string, t int) {
		if symNames {
			old = vx.String("old"+sfx, 1)
			return old, vxC04ByName(regs, old)
		}
		t = vx.Choice("target"+sfx, len(regs)+1) - 1
		if t < 0 {
			return "nobody", t
		}
		return regs[t].name, t
	}
	rejected := false
	for k := 0; k < K && !rejected; k++ {
		sfx := string(rune('0' + k))
		kind := vx.Choice("op"+sfx, 3)
		mask := 1 | 2 | 4 | 8
		if kind != 2 && vx.Choice("partial"+sfx, 2) == 1 {
			mask = pmask
		}
		switch kind {
		case 0:
			name := "n" + sfx
			if symNames {
				name = vx.String("name"+sfx, 1)
			}
			c := vxC04HClient(k, focus, mask, name)
			all = append(all, c)
			clash := vxC04Clash(regs, -1, c)
			err := s.Add(ctx, c.p)
			if err != nil {
				vx.Reach("add-clash")
				vx.Assert(clash, "a client that shares neither name nor identifier with another one is accepted")
				rejected = true
			} else {
				vx.Reach("add-ok")
				vx.Assert(!clash, "adding a client that shares a name or identifier with another one is rejected")
				regs = append(regs, c)
			}
		case 1:
			old, t := target(sfx)
			// the new version keeps the name unless names are in focus
			name := old
			if symNames {
				name = vx.String("name"+sfx, 1)
			}
			c := vxC04HClient(k, focus, mask, name)
			all = append(all, c)
			err := s.Update(ctx, old, c.p)
			if t < 0 {
				vx.Reach("update-missing")
				vx.Assert(err != nil, "updating an unknown client is rejected")
				rejected = true
				break
			}
			clash := vxC04Clash(regs, t, c)
			if err != nil {
				vx.Reach("update-clash")
				vx.Assert(clash, "an update that shares neither name nor identifier with another client is accepted")
				rejected = true
			} else {
				vx.Reach("update-ok")
				vx.Assert(!clash, "an update that takes another client's name or identifier is rejected")
				regs[t] = c
			}
		default:
			old, t := target(sfx)
			ok := s.RemoveByName(ctx, old)
			if t < 0 {
				vx.Reach("remove-missing")
				vx.Assert(!ok, "removing an unknown client reports failure")
				rejected = true
				break
			}
			vx.Reach("remove-ok")
			vx.Assert(ok, "removing a registered client succeeds")
			regs = append(regs[:t:t], regs[t+1:]...)
		}
		if goOn {
			rejected = false
		}
	}

	// The registry holds exactly the current clients and their identifiers.
	ncid, nip, nnet, nmac := 0, 0, 0, 0
	for _, r := range regs {
		ncid, nip, nnet, nmac = ncid+len(r.cids), nip+len(r.ips), nnet+len(r.nets), nmac+len(r.macs)
	}
	vx.Assert(s.Size() == len(regs), "number of registered clients")
	ix := s.index
	vx.Assert(len(ix.nameToUID) == len(regs) && len(ix.clientIDToUID) == ncid && len(ix.ipToUID) == nip && len(ix.macToUID) == nmac,
		"the index holds exactly the identifiers of the registered clients (no stale entries)")
	nkeys := 0
	ix.subnetToUID.Range(func(_ netip.Prefix, _ UID) bool { nkeys++; return true })
	vx.Assert(nkeys == nnet, "the CIDR index holds exactly the CIDRs of the registered clients")

	// Every identifier ever mentioned (also by rejected operations and by
	// replaced or removed clients) resolves to its current owner or to nobody.
	// Fixed identifiers are looked up one by one ...
	pre := vxC04Pre(false)
	var nobody vxC04A
	for _, c := range all {
		if focus != 1 && focus != 5 {
			for _, cid := range c.cids {
				vxC04Request(s, regs, cid, nobody, pre, false, nil)
			}
		}
		if focus != 2 && focus != 3 && focus != 5 {
			for _, ip := range c.ips {
				vxC04Request(s, regs, "", ip, pre, false, nil)
			}
			for _, pf := range c.nets {
				vxC04Request(s, regs, "", pf.base, pre, false, nil)
			}
		}
		if focus != 4 && focus != 5 {
			for _, mac := range c.macs {
				vxC04Request(s, regs, "", nobody, pre, false, mac)
			}
		}
	}
	// ... and for the kind in focus an arbitrary request is made: its ClientID,
	// address or leased MAC may equal or be covered by any identifier.
	probe := focus
	if focus == 5 {
		probe = vx.Choice("probe", 5)
	}
	got := -1
	switch probe {
	case 0:
		vxC04ProbeName(s, regs)
		return
	case 1:
		got, _ = vxC04Request(s, regs, vx.String("rid", 1), nobody, pre, false, nil)
	case 2, 3:
		got, _ = vxC04Request(s, regs, "", vxC04Addr("raddr", false, ""), pre, false, nil)
	default:
		got, _ = vxC04Request(s, regs, "", nobody, pre, true, nil)
	}
	if got >= 0 {
		vx.Reach("probe-owner")
	} else {
		vx.Reach("probe-none")
	}
}

func vxC04ProbeName(s *Storage, regs []*vxC04C) {
	name := vx.String("pname", 1)
	t := vxC04ByName(regs, name)
	p, ok := s.FindByName(name)
	if t < 0 {
		vx.Reach("name-missing")
		vx.Assert(!ok && p == nil, "a name nobody has resolves to nobody")
		return
	}
	vx.Reach("name-found")
	vx.Assert(ok && p != nil, "a registered name resolves")
	r := regs[t]
	vx.Assert(len(p.Tags) == 1 && p.Tags[0] == vxC04Tags[r.tag] && p.Name == r.name, "name resolves to the client that currently has it")
	vx.Assert(len(p.ClientIDs) == len(r.cids) && len(p.IPs) == len(r.ips) && len(p.Subnets) == len(r.nets) && len(p.MACs) == len(r.macs),
		"the client found by name has its current identifiers")
	same := true
	for i := range r.cids {
		same = vx.And(same, p.ClientIDs[i] == r.cids[i])
	}
	for i := range r.ips {
		same = vx.And(same, p.IPs[i] == r.ips[i].a)
	}
	for i := range r.nets {
		same = vx.And(same, p.Subnets[i] == r.nets[i].p)
	}
	for i := range r.macs {
		same = vx.And(same, vxC04BytesEq(p.MACs[i], r.macs[i]))
	}
	vx.Assert(same, "the client found by name has its current identifiers (values)")
}
