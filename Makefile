TC := /root/go/pkg/mod/golang.org/toolchain@v0.0.1-go1.24.2.linux-amd64/bin
export PATH := $(TC):$(PATH)
export GOTOOLCHAIN := local
export GOFLAGS := -mod=mod
export GOPROXY := off
export GOSUMDB := off
export CGO_ENABLED := 0

.PHONY: build
build:
	cd engine && go build -o ../bin/vchk.bin .
	chmod +x bin/vchk
