package main

// Interval pre-solver: sound unsigned/signed range analysis over terms, refined
// by the comparisons asserted on the path.  It decides many branch and
// assertion queries (range checks, normalisation loops of the calendar code)
// without the SMT solver and supplies bounds for division witnesses.
// VX_CHECK_IV=1 double-checks every interval decision with the solver.

import (
	"math/bits"
)

type Interval struct {
	ulo, uhi uint64
	slo, shi int64
}

func topIv(w uint16) Interval {
	if w == 0 {
		return Interval{0, 1, 0, 1}
	}
	m := mask(w)
	return Interval{0, m, sext(uint64(1)<<(w-1), w), int64(m >> 1)}
}

func constIv(v uint64, w uint16) Interval {
	if w == 0 {
		return Interval{v, v, int64(v), int64(v)}
	}
	return Interval{v, v, sext(v, w), sext(v, w)}
}

// norm reconciles the unsigned and the signed view (each may sharpen the other).
func (iv Interval) norm(w uint16) Interval {
	if w == 0 {
		return iv
	}
	top := topIv(w)
	half := uint64(1) << (w - 1)
	// unsigned -> signed
	if iv.uhi < half {
		if int64(iv.ulo) > iv.slo {
			iv.slo = int64(iv.ulo)
		}
		if int64(iv.uhi) < iv.shi {
			iv.shi = int64(iv.uhi)
		}
	} else if iv.ulo >= half {
		lo, hi := sext(iv.ulo, w), sext(iv.uhi, w)
		if lo > iv.slo {
			iv.slo = lo
		}
		if hi < iv.shi {
			iv.shi = hi
		}
	}
	// signed -> unsigned
	if iv.slo >= 0 {
		if uint64(iv.slo) > iv.ulo {
			iv.ulo = uint64(iv.slo)
		}
		if uint64(iv.shi) < iv.uhi {
			iv.uhi = uint64(iv.shi)
		}
	} else if iv.shi < 0 {
		lo, hi := uint64(iv.slo)&mask(w), uint64(iv.shi)&mask(w)
		if lo > iv.ulo {
			iv.ulo = lo
		}
		if hi < iv.uhi {
			iv.uhi = hi
		}
	}
	_ = top
	return iv
}

func (iv Interval) empty() bool { return iv.ulo > iv.uhi || iv.slo > iv.shi }

func (iv Interval) meet(o Interval, w uint16) Interval {
	if o.ulo > iv.ulo {
		iv.ulo = o.ulo
	}
	if o.uhi < iv.uhi {
		iv.uhi = o.uhi
	}
	if o.slo > iv.slo {
		iv.slo = o.slo
	}
	if o.shi < iv.shi {
		iv.shi = o.shi
	}
	return iv.norm(w)
}

func (iv Interval) join(o Interval) Interval {
	if o.ulo < iv.ulo {
		iv.ulo = o.ulo
	}
	if o.uhi > iv.uhi {
		iv.uhi = o.uhi
	}
	if o.slo < iv.slo {
		iv.slo = o.slo
	}
	if o.shi > iv.shi {
		iv.shi = o.shi
	}
	return iv
}

func (iv Interval) isConst() bool { return iv.ulo == iv.uhi }

type ivState struct {
	ver    uint32
	refine map[*Term]Interval
	cache  map[*Term]ivCache
}

type ivCache struct {
	ver uint32
	iv  Interval
}

func newIvState() *ivState {
	return &ivState{ver: 1, refine: map[*Term]Interval{}, cache: map[*Term]ivCache{}}
}

func addS(a, b int64) (int64, bool) {
	c := a + b
	if (a >= 0 && b >= 0 && c < 0) || (a < 0 && b < 0 && c >= 0) {
		return 0, false
	}
	return c, true
}

func subS(a, b int64) (int64, bool) {
	c := a - b
	if (a >= 0 && b < 0 && c < 0) || (a < 0 && b >= 0 && c >= 0) {
		return 0, false
	}
	return c, true
}

func mulS(a, b int64) (int64, bool) {
	if a == 0 || b == 0 {
		return 0, true
	}
	c := a * b
	if c/b != a || (a == -1 && b == -1<<63) || (b == -1 && a == -1<<63) {
		return 0, false
	}
	return c, true
}

func fitsS(v int64, w uint16) bool {
	if w >= 64 {
		return true
	}
	lim := int64(1) << (w - 1)
	return v >= -lim && v < lim
}

func pow2ceilMask(v uint64) uint64 {
	if v == 0 {
		return 0
	}
	return ^uint64(0) >> uint(bits.LeadingZeros64(v))
}

// Iv computes the interval of t under the current refinements.
func (s *ivState) Iv(t *Term) Interval {
	if t.op == OpConst {
		return constIv(t.val, t.w)
	}
	if c, ok := s.cache[t]; ok && c.ver == s.ver {
		return c.iv
	}
	iv := s.compute(t)
	if r, ok := s.refine[t]; ok {
		iv = iv.meet(r, t.w)
	}
	s.cache[t] = ivCache{s.ver, iv}
	return iv
}

func (s *ivState) compute(t *Term) Interval {
	w := t.w
	top := topIv(w)
	m := mask(w)
	switch t.op {
	case OpVar:
		return top
	case OpAdd:
		a, b := s.Iv(t.a), s.Iv(t.b)
		r := top
		hi, c1 := bits.Add64(a.uhi, b.uhi, 0)
		if c1 == 0 && hi <= m {
			r.ulo, r.uhi = a.ulo+b.ulo, hi
		}
		lo, ok1 := addS(a.slo, b.slo)
		h2, ok2 := addS(a.shi, b.shi)
		if ok1 && ok2 && fitsS(lo, w) && fitsS(h2, w) {
			r.slo, r.shi = lo, h2
		}
		return r.norm(w)
	case OpSub:
		a, b := s.Iv(t.a), s.Iv(t.b)
		r := top
		if a.ulo >= b.uhi {
			r.ulo, r.uhi = a.ulo-b.uhi, a.uhi-b.ulo
		}
		lo, ok1 := subS(a.slo, b.shi)
		h2, ok2 := subS(a.shi, b.slo)
		if ok1 && ok2 && fitsS(lo, w) && fitsS(h2, w) {
			r.slo, r.shi = lo, h2
		}
		return r.norm(w)
	case OpMul:
		a, b := s.Iv(t.a), s.Iv(t.b)
		r := top
		hh, lo := bits.Mul64(a.uhi, b.uhi)
		if hh == 0 && lo <= m {
			r.ulo, r.uhi = a.ulo*b.ulo, lo
		}
		ok := true
		var mn, mx int64
		first := true
		for _, x := range []int64{a.slo, a.shi} {
			for _, y := range []int64{b.slo, b.shi} {
				p, o := mulS(x, y)
				if !o || !fitsS(p, w) {
					ok = false
				}
				if first || p < mn {
					mn = p
				}
				if first || p > mx {
					mx = p
				}
				first = false
			}
		}
		if ok {
			r.slo, r.shi = mn, mx
		}
		return r.norm(w)
	case OpUDiv:
		a, b := s.Iv(t.a), s.Iv(t.b)
		if b.ulo > 0 {
			r := top
			r.ulo, r.uhi = a.ulo/b.uhi, a.uhi/b.ulo
			return r.norm(w)
		}
		return top
	case OpURem:
		a, b := s.Iv(t.a), s.Iv(t.b)
		if b.ulo > 0 {
			r := top
			r.ulo = 0
			r.uhi = b.uhi - 1
			if a.uhi < r.uhi {
				r.uhi = a.uhi
			}
			return r.norm(w)
		}
		return top
	case OpSDiv:
		a, b := s.Iv(t.a), s.Iv(t.b)
		if b.slo > 0 {
			r := top
			c1, c2, c3, c4 := a.slo/b.slo, a.slo/b.shi, a.shi/b.slo, a.shi/b.shi
			r.slo = min(c1, c2, c3, c4)
			r.shi = max(c1, c2, c3, c4)
			return r.norm(w)
		}
		return top
	case OpSRem:
		a, b := s.Iv(t.a), s.Iv(t.b)
		if b.slo > 0 {
			r := top
			r.slo, r.shi = -(b.shi - 1), b.shi-1
			if a.slo >= 0 {
				r.slo = 0
				if a.shi < r.shi {
					r.shi = a.shi
				}
			} else if a.shi <= 0 {
				r.shi = 0
				if a.slo > r.slo {
					r.slo = a.slo
				}
			}
			return r.norm(w)
		}
		return top
	case OpAnd:
		a, b := s.Iv(t.a), s.Iv(t.b)
		r := top
		r.ulo = 0
		r.uhi = a.uhi
		if b.uhi < r.uhi {
			r.uhi = b.uhi
		}
		return r.norm(w)
	case OpOr:
		a, b := s.Iv(t.a), s.Iv(t.b)
		r := top
		r.ulo = a.ulo
		if b.ulo > r.ulo {
			r.ulo = b.ulo
		}
		r.uhi = pow2ceilMask(a.uhi | b.uhi)
		return r.norm(w)
	case OpXor:
		a, b := s.Iv(t.a), s.Iv(t.b)
		r := top
		r.ulo = 0
		r.uhi = pow2ceilMask(a.uhi | b.uhi)
		return r.norm(w)
	case OpShl:
		a, b := s.Iv(t.a), s.Iv(t.b)
		if b.isConst() && b.ulo < uint64(w) {
			k := uint(b.ulo)
			if a.uhi <= m>>k {
				r := top
				r.ulo, r.uhi = a.ulo<<k, a.uhi<<k
				return r.norm(w)
			}
		}
		return top
	case OpLShr:
		a, b := s.Iv(t.a), s.Iv(t.b)
		r := top
		if b.isConst() && b.ulo < uint64(w) {
			k := uint(b.ulo)
			r.ulo, r.uhi = a.ulo>>k, a.uhi>>k
		} else {
			r.ulo, r.uhi = 0, a.uhi
		}
		return r.norm(w)
	case OpAShr:
		a, b := s.Iv(t.a), s.Iv(t.b)
		if b.isConst() && b.ulo < uint64(w) {
			k := uint(b.ulo)
			r := top
			r.slo, r.shi = a.slo>>k, a.shi>>k
			return r.norm(w)
		}
		return top
	case OpNot:
		a := s.Iv(t.a)
		r := top
		r.ulo, r.uhi = m-a.uhi, m-a.ulo
		return r.norm(w)
	case OpNeg:
		a := s.Iv(t.a)
		r := top
		if fitsS(-a.shi, w) && fitsS(-a.slo, w) && a.slo != -1<<63 {
			r.slo, r.shi = -a.shi, -a.slo
		}
		return r.norm(w)
	case OpExtract:
		lo := uint16(t.val & 0xffff)
		a := s.Iv(t.a)
		r := top
		if lo == 0 {
			if a.uhi <= m {
				r.ulo, r.uhi = a.ulo, a.uhi
			} else if fitsS(a.slo, w) && fitsS(a.shi, w) {
				r.slo, r.shi = a.slo, a.shi
			}
		} else if (a.uhi >> lo) <= m {
			r.ulo, r.uhi = a.ulo>>lo, a.uhi>>lo
		}
		return r.norm(w)
	case OpZExt:
		a := s.Iv(t.a)
		r := top
		r.ulo, r.uhi = a.ulo, a.uhi
		return r.norm(w)
	case OpSExt:
		a := s.Iv(t.a)
		r := top
		r.slo, r.shi = a.slo, a.shi
		return r.norm(w)
	case OpConcat:
		a, b := s.Iv(t.a), s.Iv(t.b)
		r := top
		r.ulo, r.uhi = a.ulo<<t.b.w|b.ulo, a.uhi<<t.b.w|b.uhi
		if !b.isConst() {
			r.ulo = a.ulo << t.b.w
			r.uhi = a.uhi<<t.b.w | mask(t.b.w)
		}
		return r.norm(w)
	case OpIte:
		c := s.Iv(t.a)
		if c.isConst() {
			if c.ulo != 0 {
				return s.Iv(t.b)
			}
			return s.Iv(t.c)
		}
		return s.Iv(t.b).join(s.Iv(t.c))
	case OpEq:
		a, b := s.Iv(t.a), s.Iv(t.b)
		if a.isConst() && b.isConst() && a.ulo == b.ulo {
			return constIv(1, 0)
		}
		if a.uhi < b.ulo || b.uhi < a.ulo || a.shi < b.slo || b.shi < a.slo {
			return constIv(0, 0)
		}
		return top
	case OpUlt:
		a, b := s.Iv(t.a), s.Iv(t.b)
		if a.uhi < b.ulo {
			return constIv(1, 0)
		}
		if a.ulo >= b.uhi {
			return constIv(0, 0)
		}
		return top
	case OpUle:
		a, b := s.Iv(t.a), s.Iv(t.b)
		if a.uhi <= b.ulo {
			return constIv(1, 0)
		}
		if a.ulo > b.uhi {
			return constIv(0, 0)
		}
		return top
	case OpSlt:
		a, b := s.Iv(t.a), s.Iv(t.b)
		if a.shi < b.slo {
			return constIv(1, 0)
		}
		if a.slo >= b.shi {
			return constIv(0, 0)
		}
		return top
	case OpSle:
		a, b := s.Iv(t.a), s.Iv(t.b)
		if a.shi <= b.slo {
			return constIv(1, 0)
		}
		if a.slo > b.shi {
			return constIv(0, 0)
		}
		return top
	case OpBAnd:
		a, b := s.Iv(t.a), s.Iv(t.b)
		if a.isConst() && a.ulo == 0 || b.isConst() && b.ulo == 0 {
			return constIv(0, 0)
		}
		if a.isConst() && b.isConst() {
			return constIv(1, 0)
		}
		return top
	case OpBOr:
		a, b := s.Iv(t.a), s.Iv(t.b)
		if a.isConst() && a.ulo == 1 || b.isConst() && b.ulo == 1 {
			return constIv(1, 0)
		}
		if a.isConst() && b.isConst() {
			return constIv(0, 0)
		}
		return top
	case OpBNot:
		a := s.Iv(t.a)
		if a.isConst() {
			return constIv(1-a.ulo, 0)
		}
		return top
	}
	return top
}

// setRefine narrows the stored refinement of t.
func (s *ivState) setRefine(t *Term, iv Interval) {
	if t.op == OpConst {
		return
	}
	cur := s.Iv(t)
	n := cur.meet(iv, t.w)
	if n == cur {
		return
	}
	if n.empty() {
		// contradictory path condition: leave as is; the solver decides
		return
	}
	s.refine[t] = n
	s.ver++
	// propagate through simple wrappers
	switch t.op {
	case OpZExt:
		if n.uhi <= mask(t.a.w) {
			ch := topIv(t.a.w)
			ch.ulo, ch.uhi = n.ulo, n.uhi
			s.setRefine(t.a, ch.norm(t.a.w))
		}
	case OpSExt:
		if fitsS(n.slo, t.a.w) && fitsS(n.shi, t.a.w) {
			ch := topIv(t.a.w)
			ch.slo, ch.shi = n.slo, n.shi
			s.setRefine(t.a, ch.norm(t.a.w))
		}
	case OpAdd, OpSub:
		// x ± c with a signed non-wrapping view
		x, c := t.a, t.b
		if t.op == OpAdd && x.op == OpConst {
			x, c = c, x
		}
		if c.op == OpConst && x.op != OpConst {
			cv := sext(c.val, t.w)
			if t.op == OpSub {
				cv = -cv
			}
			xi := s.Iv(x)
			// only if x + cv cannot wrap in the signed view
			if lo, ok1 := addS(xi.slo, cv); ok1 && fitsS(lo, t.w) {
				if hi, ok2 := addS(xi.shi, cv); ok2 && fitsS(hi, t.w) {
					nlo, o1 := subS(n.slo, cv)
					nhi, o2 := subS(n.shi, cv)
					if o1 && o2 {
						ch := topIv(t.w)
						ch.slo, ch.shi = nlo, nhi
						s.setRefine(x, ch.norm(t.w))
					}
				}
			}
		}
	}
}

// assume records that the Bool term c has truth value val on this path.
func (s *ivState) assume(c *Term, val bool) {
	if c.op == OpConst {
		return
	}
	switch c.op {
	case OpBNot:
		s.assume(c.a, !val)
		return
	case OpBAnd:
		if val {
			s.assume(c.a, true)
			s.assume(c.b, true)
		}
	case OpBOr:
		if !val {
			s.assume(c.a, false)
			s.assume(c.b, false)
		}
	case OpEq:
		if c.a.w == 0 {
			break
		}
		a, b := s.Iv(c.a), s.Iv(c.b)
		if val {
			s.setRefine(c.a, b)
			s.setRefine(c.b, a)
		} else {
			// x != k at an edge of x's range
			for _, pr := range [][2]*Term{{c.a, c.b}, {c.b, c.a}} {
				x, k := pr[0], s.Iv(pr[1])
				if !k.isConst() {
					continue
				}
				xi := s.Iv(x)
				n := xi
				if xi.ulo == k.ulo && xi.ulo < xi.uhi {
					n.ulo++
				}
				if xi.uhi == k.ulo && xi.ulo < xi.uhi {
					n.uhi--
				}
				if xi.slo == k.slo && xi.slo < xi.shi {
					n.slo++
				}
				if xi.shi == k.slo && xi.slo < xi.shi {
					n.shi--
				}
				s.setRefine(x, n)
			}
		}
	case OpUlt, OpUle, OpSlt, OpSle:
		x, y := c.a, c.b
		op := c.op
		if !val {
			// !(x < y) == y <= x ; !(x <= y) == y < x
			x, y = y, x
			switch op {
			case OpUlt:
				op = OpUle
			case OpUle:
				op = OpUlt
			case OpSlt:
				op = OpSle
			case OpSle:
				op = OpSlt
			}
		}
		xi, yi := s.Iv(x), s.Iv(y)
		w := x.w
		switch op {
		case OpUlt:
			if yi.uhi > 0 {
				n := topIv(w)
				n.uhi = yi.uhi - 1
				s.setRefine(x, n.norm(w))
			}
			if xi.ulo < mask(w) {
				n := topIv(w)
				n.ulo = xi.ulo + 1
				s.setRefine(y, n.norm(w))
			}
		case OpUle:
			n := topIv(w)
			n.uhi = yi.uhi
			s.setRefine(x, n.norm(w))
			n = topIv(w)
			n.ulo = xi.ulo
			s.setRefine(y, n.norm(w))
		case OpSlt:
			if yi.shi > topIv(w).slo {
				n := topIv(w)
				n.shi = yi.shi - 1
				s.setRefine(x, n.norm(w))
			}
			if xi.slo < topIv(w).shi {
				n := topIv(w)
				n.slo = xi.slo + 1
				s.setRefine(y, n.norm(w))
			}
		case OpSle:
			n := topIv(w)
			n.shi = yi.shi
			s.setRefine(x, n.norm(w))
			n = topIv(w)
			n.slo = xi.slo
			s.setRefine(y, n.norm(w))
		}
	}
	// finally the Bool term itself
	v := uint64(0)
	if val {
		v = 1
	}
	s.refine[c] = constIv(v, 0)
	s.ver++
}

// decide returns (value, true) when intervals alone fix the Bool term c.
func (s *ivState) decide(c *Term) (bool, bool) {
	iv := s.Iv(c)
	if iv.isConst() {
		return iv.ulo != 0, true
	}
	return false, false
}
