//go:build verif

package aghrenameio

// C14 — file-system model at the os boundary, shared by the three save paths.
// Every mutating call is one step; a crash index and a fault index are
// symbolic.  Directory updates (create, rename, remove) are atomic and ordered
// (POSIX); data written to a file is only durable after Sync.
//
//vx:overlay internal/aghrenameio/zz_vx_c14.go
//vx:stub os.Lstat VxC14Lstat
//vx:stub os.Stat VxC14Lstat
//vx:stub os.TempDir VxC14TempDir
//vx:stub os.CreateTemp VxC14CreateTemp
//vx:stub os.Remove VxC14Remove
//vx:stub os.Rename VxC14Rename
//vx:stub os.OpenFile VxC14OpenFile
//vx:stub os.Chtimes VxC14Chtimes
//vx:stub (*os.File).Write VxC14Write
//vx:stub (*os.File).Sync VxC14Sync
//vx:stub (*os.File).Close VxC14Close
//vx:stub (*os.File).Name VxC14Name
//vx:stub (*os.File).Stat VxC14FStat
//vx:stub (*os.File).Chmod VxC14Chmod
//vx:stub math/rand.Int63 VxC14Rand

import (
	"io/fs"
	"os"
	"syscall"
	"time"

	"github.com/AdguardTeam/AdGuardHome/internal/vx"
)

type vxC14File struct {
	data    []byte
	durable int // length of the prefix that survives a crash for sure
}

type vxC14Handle struct {
	path   string
	file   *vxC14File
	closed bool
}

// VxC14Crash is panicked to stop the save at the crash point.
type VxC14Crash struct{}

var (
	vxC14Files   map[string]*vxC14File
	vxC14Open    map[*os.File]*vxC14Handle
	vxC14Step    int
	vxC14CrashAt int
	vxC14FaultAt int
	vxC14Dest    string
	vxC14Old     []byte
	vxC14HasOld  bool
	vxC14New     func() [][]byte // acceptable complete new versions
	vxC14TmpOK   bool
	vxC14FaultAt2 int
	vxC14Temps   int
	// VxC14Steps is the number of mutating steps performed.
	VxC14Faulted bool
)

// VxC14Init sets up a file system holding the old version of dest (or none).
func VxC14Init(dest string, old []byte, hasOld bool, complete func() [][]byte) {
	vxC14Files = map[string]*vxC14File{}
	vxC14Open = map[*os.File]*vxC14Handle{}
	vxC14Step, vxC14Temps, VxC14Faulted = 0, 0, false
	vxC14Dest, vxC14Old, vxC14HasOld, vxC14New = dest, old, hasOld, complete
	if hasOld {
		vxC14Files[dest] = &vxC14File{data: append([]byte(nil), old...), durable: len(old)}
	}
	vxC14CrashAt = vx.Int("crashAtStep")
	vx.Assume(vxC14CrashAt >= 0)
	vx.Assume(vxC14CrashAt <= 40)
	vxC14FaultAt = vx.Int("faultAtStep")
	vx.Assume(vxC14FaultAt >= 0)
	vx.Assume(vxC14FaultAt <= 40)
	// a second failing step after the first (41 = none): faults in the clean-up
	// of a failed save
	vxC14FaultAt2 = vx.Int("secondFaultAtStep")
	vx.Assume(vxC14FaultAt2 > vxC14FaultAt)
	vx.Assume(vxC14FaultAt2 <= 41)
	vxC14TmpOK = vx.Bool("tmpdirUsable")
}

func vxC14Same(a, b []byte) bool {
	if len(a) != len(b) {
		return false
	}
	var diff byte
	for i := range a {
		diff |= a[i] ^ b[i]
	}
	return diff == 0
}

func vxC14Acceptable(content []byte, present bool, allowNew bool) bool {
	if !present {
		return !vxC14HasOld
	}
	ok := vxC14HasOld && vxC14Same(content, vxC14Old)
	if allowNew {
		for _, n := range vxC14New() {
			ok = vx.Or(ok, vxC14Same(content, n))
		}
	}
	return ok
}

// VxC14CheckVisible: what a concurrent reader sees at the destination now.
func VxC14CheckVisible(label string) {
	f := vxC14Files[vxC14Dest]
	if f == nil {
		vx.Assert(!vxC14HasOld, label+": the destination never disappears")
		return
	}
	vx.Assert(vxC14Acceptable(f.data, true, true), label+": the destination holds the complete previous or the complete new version")
}

// vxC14AfterCrash: what is at the destination after a crash now: unsynced data
// of a file may be lost from any point on.
func vxC14AfterCrash() {
	vx.Reach("crashed")
	f := vxC14Files[vxC14Dest]
	if f == nil {
		vx.Assert(!vxC14HasOld, "after a crash the destination still exists")
		return
	}
	n := f.durable + vx.Choice("survivingUnsyncedBytes", len(f.data)-f.durable+1)
	vx.Assert(vxC14Acceptable(f.data[:n], true, true), "after a crash the destination holds the complete previous or the complete new version (never empty, truncated or mixed)")
}

// vxC14Mutation starts one mutating step: crash here, fail here, or go on.
func vxC14Mutation() (fail bool) {
	VxC14CheckVisible("at every instant")
	if vxC14Step == vxC14CrashAt {
		vxC14AfterCrash()
		panic(VxC14Crash{})
	}
	fail = vxC14Step == vxC14FaultAt || vxC14Step == vxC14FaultAt2
	vxC14Step++
	if fail {
		VxC14Faulted = true
	}
	return fail
}

// VxC14Finish is called after the save returned (no crash during the save).
func VxC14Finish(saveErr error, label string, expectNew bool) {
	vx.Assume(vxC14CrashAt >= vxC14Step)
	f := vxC14Files[vxC14Dest]
	if saveErr == nil && expectNew {
		vx.Reach("saved")
		vx.Assert(f != nil && vxC14Acceptable(f.data, true, true) && (!vxC14HasOld || !vxC14Same(f.data, vxC14Old) || vxC14IsNew(f.data)), label+": after a successful save the destination holds the new version")
		vx.Assert(f == nil || f.durable == len(f.data), label+": the new version is on stable storage when the save returns")
	} else {
		if saveErr != nil {
			vx.Reach("save-failed")
		}
		var content []byte
		if f != nil {
			content = f.data
		}
		vx.Assert(vxC14Acceptable(content, f != nil, false), label+": a failed (or skipped) save leaves the previous version in place")
	}
}

func vxC14IsNew(b []byte) bool {
	ok := false
	for _, n := range vxC14New() {
		ok = vx.Or(ok, vxC14Same(b, n))
	}
	return ok
}

type vxC14Info struct{ name string }

func (i vxC14Info) Name() string       { return i.name }
func (i vxC14Info) Size() int64        { return 0 }
func (i vxC14Info) Mode() fs.FileMode  { return 0o644 }
func (i vxC14Info) ModTime() time.Time { return time.Time{} }
func (i vxC14Info) IsDir() bool        { return false }
func (i vxC14Info) Sys() any           { return nil }

func VxC14Lstat(name string) (fs.FileInfo, error) {
	if _, ok := vxC14Files[name]; ok {
		return vxC14Info{name}, nil
	}
	return nil, &fs.PathError{Op: "lstat", Path: name, Err: syscall.ENOENT}
}

func VxC14TempDir() string { return "/tmp" }

func VxC14Rand() int64 {
	vxC14Temps++
	return int64(vxC14Temps)
}

func vxC14Create(name string, excl, trunc bool) (*os.File, error) {
	if vxC14Mutation() {
		return nil, &fs.PathError{Op: "open", Path: name, Err: syscall.EIO}
	}
	f := vxC14Files[name]
	if f != nil && excl {
		return nil, &fs.PathError{Op: "open", Path: name, Err: syscall.EEXIST}
	}
	if f == nil {
		f = &vxC14File{}
		vxC14Files[name] = f
	} else if trunc {
		// truncation in place: visible at once, durable at any later time
		f.data = nil
		f.durable = 0
	}
	h := &os.File{}
	vxC14Open[h] = &vxC14Handle{path: name, file: f}
	return h, nil
}

func VxC14CreateTemp(dir, pattern string) (*os.File, error) {
	if dir == "/tmp" && !vxC14TmpOK {
		return nil, &fs.PathError{Op: "open", Path: dir, Err: syscall.EACCES}
	}
	vxC14Temps++
	return vxC14Create(dir+"/"+pattern+"t"+string(rune('0'+vxC14Temps)), true, false)
}

func VxC14OpenFile(name string, flag int, perm fs.FileMode) (*os.File, error) {
	if flag&os.O_CREATE == 0 {
		if _, ok := vxC14Files[name]; !ok {
			return nil, &fs.PathError{Op: "open", Path: name, Err: syscall.ENOENT}
		}
	}
	return vxC14Create(name, flag&os.O_EXCL != 0, flag&os.O_TRUNC != 0)
}

func VxC14Remove(name string) error {
	if _, ok := vxC14Files[name]; !ok {
		return &fs.PathError{Op: "remove", Path: name, Err: syscall.ENOENT}
	}
	if vxC14Mutation() {
		return &fs.PathError{Op: "remove", Path: name, Err: syscall.EIO}
	}
	delete(vxC14Files, name)
	return nil
}

func VxC14Rename(oldpath, newpath string) error {
	f, ok := vxC14Files[oldpath]
	if !ok {
		return &os.LinkError{Op: "rename", Old: oldpath, New: newpath, Err: syscall.ENOENT}
	}
	if vxC14Mutation() {
		return &os.LinkError{Op: "rename", Old: oldpath, New: newpath, Err: syscall.EIO}
	}
	vxC14Files[newpath] = f
	delete(vxC14Files, oldpath)
	return nil
}

func VxC14Chtimes(name string, atime, mtime time.Time) error { return nil }

func vxC14Handle_(f *os.File) *vxC14Handle {
	h := vxC14Open[f]
	if h == nil {
		vx.Fail("use of a file that the model did not open")
	}
	return h
}

func VxC14Write(f *os.File, b []byte) (int, error) {
	h := vxC14Handle_(f)
	if h.closed {
		return 0, fs.ErrClosed
	}
	if vxC14Mutation() {
		// a failing write may have written any prefix
		n := vx.Choice("shortWrite", len(b)+1)
		h.file.data = append(h.file.data, b[:n]...)
		return n, &fs.PathError{Op: "write", Path: h.path, Err: syscall.ENOSPC}
	}
	h.file.data = append(h.file.data, b...)
	return len(b), nil
}

func VxC14Sync(f *os.File) error {
	h := vxC14Handle_(f)
	if vxC14Mutation() {
		return &fs.PathError{Op: "sync", Path: h.path, Err: syscall.EIO}
	}
	h.file.durable = len(h.file.data)
	return nil
}

func VxC14Close(f *os.File) error {
	h := vxC14Handle_(f)
	if h.closed {
		return fs.ErrClosed
	}
	h.closed = true
	return nil
}

func VxC14Name(f *os.File) string { return vxC14Handle_(f).path }

func VxC14FStat(f *os.File) (fs.FileInfo, error) { return vxC14Info{vxC14Handle_(f).path}, nil }

func VxC14Chmod(f *os.File, m fs.FileMode) error { return nil }
