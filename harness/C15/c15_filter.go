//go:build verif

package filtering

// C15 (a) — a failed filter refresh changes nothing.
//
//vx:overlay internal/filtering/zz_vx_c15.go
//vx:entry vxC15ServerFaults reach=conn-error,bad-status,cut-short,cut-at-line-end,cut-mid-line,html,binary,unsafe-path,open-error,failed-after-success,ok-changed,ok-unchanged,ok-first,from-file,from-url
//vx:entry vxC15DiskFaults reach=create-failed,write-failed,replace-failed,disk-ok
//vx:entry vxC15Refresh reach=rf-failed,rf-changed,rf-same,rf-not-due,rf-not-selected,rf-all-failed,rf-mixed,rf-fail-after-success,rf-rebuild,rf-disabled
//vx:note ServerFaults: real update/updateIntl/finalizeUpdate/reader/readerFromURL/Parse on one list (remote URL, local file inside and outside safe_fs_patterns) after no / one of two successful refreshes (quick: two states for the URL, one for the file; cut answers one byte shorter); answer = connection or open error | symbolic HTTP status != 200 | complete 7-bit text of 0..4 (thorough 0..5) symbolic bytes or 0..1 bytes + "<hTmL" + 0..1 bytes | the same cut by a read error at every offset 0..n, last chunk alone or together with the error (thorough: also 1-byte reads for the local file). Verdict and expected stored form come from the scenario and the reference line classifier (rulelist.VxC15Ref), never from the code's error value.
//vx:note DiskFaults: the same with texts of 0..3 (0..4) bytes and failures of creating the pending file, of any write to it, and of the final rename (each a symbolic bit). A failed rename is reported by update() as (true, err): only "file/metadata of the passed entry unchanged" is asserted for it.
//vx:note Refresh: real refreshFiltersIntl/refreshFiltersArray/listsToUpdate/EnableFilters over 2 block lists (remote + local file) and 1 allow list; refresh 1 stores version 0 of each; refresh 2: block/allow/force symbolic, per list {new rules, same rules in other wrapping, connection error, cut short} (thorough + {404, HTML page, binary tail}), lists all due / none due / one due / one disabled; refresh 3 forced with 2 (thorough 3) fail/new patterns. After every refresh, for every list: file, rule count, checksum, name unchanged unless that list got new rules; count and checksum always describe the stored file; rules in force (files as of the last setFilters call) are the previous ones or the stored file.
//vx:note Environment stubs (all at the OS / network boundary): http.Client.Get, os.Open + (*os.File).Read/Close, aghrenameio.NewPendingFile (in-memory filter directory with replace/cleanup events), os.Chtimes, os.Remove, time.Now (monotone fake clock), DNSFilter.setFilters (records which files the engines are compiled from), hash/crc32.Update (bit-serial CRC-32 that also logs the summed stream).
//vx:note outside: CRC-32 collisions between different rule sets (assumed away where "changed content is stored" is asserted), concurrent refreshes (refreshLock/TryLock), the filterSetProperties rollback path, texts with bytes >= 0x80 at this level (parser level: HighBytes entry), real HTTP transfer and real rename(2).
//vx:stub time.Now vxC15Now
//vx:stub os.Chtimes vxC15Chtimes
//vx:stub os.Remove vxC15Remove
//vx:stub os.Open vxC15Open
//vx:stub (*os.File).Read vxC15FileRead
//vx:stub (*os.File).Close vxC15FileClose
//vx:stub (*net/http.Client).Get vxC15Get
//vx:stub github.com/AdguardTeam/AdGuardHome/internal/aghrenameio.NewPendingFile vxC15NewPending
//vx:stub (*github.com/AdguardTeam/AdGuardHome/internal/filtering.DNSFilter).setFilters vxC15SetFilters

import (
	"bytes"
	"io"
	"io/fs"
	"net/http"
	"os"
	"sync"
	"time"

	"github.com/AdguardTeam/AdGuardHome/internal/aghrenameio"
	"github.com/AdguardTeam/AdGuardHome/internal/filtering/rulelist"
	"github.com/AdguardTeam/AdGuardHome/internal/vx"
	"github.com/AdguardTeam/golibs/errors"
	"github.com/AdguardTeam/golibs/syncutil"
)

const (
	vxC15ErrConn errors.Error = "vx: connection refused"
	vxC15ErrRead errors.Error = "vx: unexpected EOF"
	vxC15ErrOpen errors.Error = "vx: permission denied"
	vxC15ErrDisk errors.Error = "vx: no space left on device"
)

// ---- the environment: list server, local files, filter directory ----

// vxC15Resp is what the list source answers to one request.
type vxC15Resp struct {
	connErr  bool   // connection error / local file cannot be opened
	status   int    // HTTP status (remote lists only)
	data     []byte // body
	cut      int    // bytes delivered before the stream ends
	readErr  bool   // the stream ends with a read error instead of EOF
	together bool   // the last chunk comes together with the end condition
	chunk    int    // 0: as much as fits; n: at most n bytes per Read

	pos      int
	requests int
	closed   int
}

func (r *vxC15Resp) Read(p []byte) (n int, err error) {
	end := error(io.EOF)
	if r.readErr {
		end = vxC15ErrRead
	}
	if r.pos >= r.cut {
		return 0, end
	}
	lim := r.cut
	if r.chunk > 0 && r.pos+r.chunk < lim {
		lim = r.pos + r.chunk
	}
	n = copy(p, r.data[r.pos:lim])
	r.pos += n
	if r.pos >= r.cut && r.together {
		return n, end
	}
	return n, nil
}

func (r *vxC15Resp) Close() error { r.closed++; return nil }

// vxC15Pending is a pending file in the filter directory.
type vxC15Pending struct {
	path     string
	buf      []byte
	writes   int
	cleanups int
	replaces int
	over     bool
}

func (f *vxC15Pending) Write(b []byte) (n int, err error) {
	vx.Assert(!f.over, "no write to a pending file that was already replaced or discarded")
	f.writes++
	if vxC15Env.diskFaults && vx.Bool("writeFails") {
		vxC15Env.writeFailed = true
		return 0, vxC15ErrDisk
	}
	f.buf = append(f.buf, b...)
	return len(b), nil
}

func (f *vxC15Pending) Cleanup() (err error) {
	f.cleanups++
	f.over = true
	return nil
}

func (f *vxC15Pending) CloseReplace() (err error) {
	f.replaces++
	vx.Assert(!f.over, "a pending file is replaced at most once and not after it was discarded")
	if vxC15Env.diskFaults && vx.Bool("replaceFails") {
		vxC15Env.replaceFailed = true
		return vxC15ErrDisk
	}
	f.over = true
	vxC15Env.disk[f.path] = f.buf
	vxC15Env.replaced[f.path]++
	return nil
}

var vxC15Env struct {
	disk     map[string][]byte     // filter directory: path -> content
	replaced map[string]int        // path -> number of replacements
	inForce  map[string][]byte     // path -> content the engines were built from
	rebuilds int                   // number of engine rebuilds
	srv      map[string]*vxC15Resp // source (URL or path) -> answer to the next request
	pending  []*vxC15Pending
	tick     int64

	diskFaults                               bool
	createFailed, writeFailed, replaceFailed bool
}

func vxC15Reset() {
	rulelist.VxC15Init()
	vxC15Env.disk = map[string][]byte{}
	vxC15Env.replaced = map[string]int{}
	vxC15Env.inForce = map[string][]byte{}
	vxC15Env.srv = map[string]*vxC15Resp{}
	vxC15Env.pending = nil
	vxC15Env.rebuilds = 0
	vxC15Env.tick = 0
	vxC15Env.diskFaults = false
	vxC15Env.createFailed, vxC15Env.writeFailed, vxC15Env.replaceFailed = false, false, false
}

func vxC15Now() time.Time {
	vxC15Env.tick++
	return time.Unix(1_700_000_000+vxC15Env.tick, 0)
}

func vxC15Chtimes(name string, atime, mtime time.Time) error { return nil }

func vxC15Remove(name string) error { return nil }

func vxC15Get(c *http.Client, url string) (*http.Response, error) {
	r := vxC15Env.srv[url]
	if r == nil {
		vx.Fail("request to a source that is not a configured list")
		return nil, vxC15ErrConn
	}
	r.requests++
	if r.connErr {
		return nil, vxC15ErrConn
	}
	return &http.Response{StatusCode: r.status, Body: r}, nil
}

// vxC15File is the one open local list file (lists are read one at a time).
var vxC15File *vxC15Resp

func vxC15Open(name string) (*os.File, error) {
	r := vxC15Env.srv[name]
	if r == nil {
		vx.Fail("a file that is not a configured list is opened")
		return nil, vxC15ErrOpen
	}
	r.requests++
	if r.connErr {
		return nil, &fs.PathError{Op: "open", Path: name, Err: vxC15ErrOpen}
	}
	vxC15File = r
	return &os.File{}, nil
}

func vxC15FileRead(f *os.File, p []byte) (int, error) { return vxC15File.Read(p) }

func vxC15FileClose(f *os.File) error { return vxC15File.Close() }

func vxC15NewPending(filePath string, mode fs.FileMode) (aghrenameio.PendingFile, error) {
	if vxC15Env.diskFaults && vx.Bool("createFails") {
		vxC15Env.createFailed = true
		return nil, vxC15ErrDisk
	}
	f := &vxC15Pending{path: filePath}
	vxC15Env.pending = append(vxC15Env.pending, f)
	return f, nil
}

// vxC15SetFilters stands for the engine rebuild: the engines are compiled
// from the files that are on disk at that moment.
func vxC15SetFilters(d *DNSFilter, block, allow []Filter, async bool) error {
	vxC15Env.rebuilds++
	for _, l := range [][]Filter{block, allow} {
		for _, f := range l {
			if f.FilePath != "" {
				vxC15Env.inForce[f.FilePath] = vxC15Env.disk[f.FilePath]
			}
		}
	}
	return nil
}

func vxC15Filter() *DNSFilter {
	return &DNSFilter{
		bufPool:        syncutil.NewSlicePool[byte](rulelist.DefaultRuleBufSize),
		refreshLock:    &sync.Mutex{},
		safeFSPatterns: []string{"/lists/*"},
		conf: &Config{
			filtersMu:                  &sync.RWMutex{},
			DataDir:                    "/data",
			HTTPClient:                 &http.Client{},
			FiltersUpdateIntervalHours: 24,
			FilteringEnabled:           true,
		},
	}
}

const (
	vxC15URL    = "https://lists.example/a.txt"
	vxC15Local  = "/lists/a.txt"
	vxC15Unsafe = "/etc/a.txt"
)

// vxC15State0 brings one list into the state "after the last successful
// refresh" by a real refresh with a fixed text (or leaves it never refreshed).
func vxC15State0(d *DNSFilter, flt *FilterYAML, states int) {
	var text string
	switch []int{1, 0, 2}[vx.Choice("state0", states)] {
	case 0:
		return
	case 1:
		text = "! Title: T\nab\n"
	default:
		text = "a\n# c\n b \r\n"
	}
	vxC15Env.srv[flt.URL] = &vxC15Resp{status: 200, data: []byte(text), cut: len(text)}
	faults := vxC15Env.diskFaults
	vxC15Env.diskFaults = false
	ok, err := d.update(flt)
	vxC15Env.diskFaults = faults
	vx.Assert(ok && err == nil, "the first refresh of a good list succeeds and stores it")
	refOut, refCount, _, _, _ := rulelist.VxC15Ref([]byte(text))
	vx.Assert(vx.And(bytes.Equal(vxC15Env.disk[flt.Path("/data")], refOut), flt.RulesCount == refCount), "the first refresh stores the normal form")
	vxC15Env.pending = nil
}

// vxC15Scenario draws the answer of the list source: every failure kind of
// the statement, the body text symbolic.
func vxC15Scenario(src string, maxBody int) *vxC15Resp {
	r := &vxC15Resp{status: 200}
	if src == vxC15Unsafe {
		return r
	}
	n := vx.Choice("bodylen", maxBody+2)
	if n > maxBody {
		// an HTML page, behind 0..1 and in front of 0..1 arbitrary bytes
		r.data = append(vx.Bytes("lead", vx.Choice("leadlen", 2)), "<hTmL"...)
		r.data = append(r.data, vx.Bytes("tail", vx.Choice("taillen", 2))...)
		n = len(r.data)
	} else {
		r.data = vx.Bytes("body", n)
	}
	vx.Assume(!rulelist.VxC15High(r.data))
	r.cut = n
	if vx.Thorough() && src == vxC15Local {
		// local files are read byte by byte as well
		r.chunk = vx.Choice("chunk", 2)
	}
	switch vx.Choice("outcome", 4) {
	case 0:
		// complete answer
	case 1:
		r.connErr = true
		vx.Assume(n == 0)
	case 2:
		if src != vxC15URL {
			vx.Assume(false)
		}
		r.status = vx.Int("status")
		vx.Assume(r.status != 200)
	default:
		r.readErr = true
		if !vx.Thorough() {
			// quick tier: answers that are cut short have at most maxBody-1 bytes
			vx.Assume(n < maxBody)
		}
		r.cut = vx.Choice("cut", n+1)
	}
	if !r.connErr && r.cut > 0 && (r.readErr || vx.Thorough()) {
		// the last chunk may come together with the end of the stream
		r.together = vx.Bool("together")
	}
	return r
}

func vxC15Same(a, b []byte) bool {
	if len(a) != len(b) {
		return false
	}
	return bytes.Equal(a, b)
}

func vxC15UpdateOnce(maxBody int, sources []string) {
	d := vxC15Filter()
	src := sources[vx.Choice("source", len(sources))]
	flt := &FilterYAML{Enabled: true, URL: src, Filter: Filter{ID: 7}}
	if src != vxC15Unsafe {
		states := 3
		if !vx.Thorough() {
			// quick tier: after a successful refresh or on a new list; local
			// files only after a successful refresh
			states = 2
			if src != vxC15URL {
				states = 1
			}
		}
		vxC15State0(d, flt, states)
	}
	path := flt.Path("/data")

	oldDisk, oldExists := vxC15Env.disk[path]
	oldCount, oldSum, oldName := flt.RulesCount, flt.checksum, flt.Name
	refreshedBefore := oldExists

	r := vxC15Scenario(src, maxBody)
	vxC15Env.srv[src] = r
	rulelist.VxC15Log, rulelist.VxC15Last = nil, 0

	ok, err := d.update(flt)

	summed, lastSum := rulelist.VxC15Log, rulelist.VxC15Last
	newDisk, newExists := vxC15Env.disk[path]
	var p *vxC15Pending
	if len(vxC15Env.pending) > 0 {
		p = vxC15Env.pending[0]
	}
	vx.Assert(len(vxC15Env.pending) <= 1, "one pending file per refresh")

	// Reference verdict, from the scenario alone.
	refOut, refCount, refRules, htmlBad, binBad := rulelist.VxC15Ref(r.data[:r.cut])
	failing := false
	switch {
	case vxC15Env.createFailed:
		vx.Reach("create-failed")
		failing = true
	case src == vxC15Unsafe:
		vx.Reach("unsafe-path")
		failing = true
		vx.Assert(r.requests == 0, "a local file outside the allowed directories is not even opened")
	case r.connErr:
		if src == vxC15URL {
			vx.Reach("conn-error")
		} else {
			vx.Reach("open-error")
		}
		failing = true
	case r.status != 200:
		vx.Reach("bad-status")
		failing = true
	case r.readErr:
		vx.Reach("cut-short")
		if r.cut > 0 && r.cut < len(r.data) {
			if r.data[r.cut-1] == '\n' {
				vx.Reach("cut-at-line-end")
			} else {
				vx.Reach("cut-mid-line")
			}
		}
		failing = true
	case htmlBad:
		vx.Reach("html")
		failing = true
	case binBad:
		vx.Reach("binary")
		failing = true
	case vxC15Env.writeFailed:
		vx.Reach("write-failed")
		failing = true
	case vxC15Env.replaceFailed:
		vx.Reach("replace-failed")
		failing = true
	}

	unchanged := func(what string) {
		vx.Assert(vx.And(newExists == oldExists, vxC15Same(newDisk, oldDisk)), what+": the list's file is as it was")
		vx.Assert(flt.RulesCount == oldCount, what+": the rule count is as it was")
		vx.Assert(flt.checksum == oldSum, what+": the checksum is as it was")
		vx.Assert(flt.Name == oldName, what+": the name is as it was")
		vx.Assert(vxC15Env.replaced[path] == 0 || refreshedBefore && vxC15Env.replaced[path] == 1, what+": the file was not replaced")
	}

	if failing {
		if refreshedBefore {
			vx.Reach("failed-after-success")
		}
		unchanged("failed refresh")
		if !vxC15Env.replaceFailed {
			vx.Assert(!ok, "a failed refresh is not flagged as an update")
			vx.Assert(p == nil || p.replaces == 0, "failed refresh: the pending download never replaces the file")
			vx.Assert(p == nil || p.cleanups == 1, "failed refresh: the pending download is discarded")
		}
		return
	}

	if src == vxC15URL {
		vx.Reach("from-url")
	} else {
		vx.Reach("from-file")
	}
	vx.Assert(err == nil, "a complete, well-formed answer is a successful refresh")
	if err != nil {
		return
	}
	vx.Assert(r.closed == 1, "the source is closed once")
	if vxC15Same(refOut, oldDisk) {
		// same normal form as stored: same checksum, nothing to do
		vx.Reach("ok-unchanged")
		vx.Assert(!ok, "unchanged content is not flagged as an update")
		unchanged("unchanged content")
		vx.Assert(p != nil && p.replaces == 0 && p.cleanups == 1, "unchanged content is not rewritten; the pending download is discarded")
		return
	}
	// different normal form; a CRC-32 collision between the two is outside the
	// claim (lastSum is the checksum the parser computed for this answer)
	vx.Assume(lastSum != oldSum)
	vx.Reach("ok-changed")
	if !refreshedBefore {
		vx.Reach("ok-first")
	}
	if vxC15Env.diskFaults {
		vx.Reach("disk-ok")
	}
	vx.Assert(ok, "changed content is flagged as an update")
	vx.Assert(p != nil && p.replaces == 1, "changed content replaces the file exactly once")
	vx.Assert(vx.And(newExists, vxC15Same(newDisk, refOut)), "the stored file is the normal form of the answer")
	vx.Assert(flt.RulesCount == refCount, "the rule count is the number of rules in the stored file")
	vx.Assert(vx.And(flt.checksum == lastSum, vxC15Same(summed, refRules)), "the checksum is the one of the rules in the stored file")
}

// vxC15ServerFaults: one list, one refresh with every kind of server / file
// failure at every offset of a symbolic text, after 0 or 1 successful refresh.
func vxC15ServerFaults() {
	vxC15Reset()
	max := 4
	if vx.Thorough() {
		max = 5
	}
	vxC15UpdateOnce(max, []string{vxC15URL, vxC15Local, vxC15Unsafe})
}

// vxC15DiskFaults: the same with failures of the filter directory (creating the
// pending file, writing to it, replacing the list file).
func vxC15DiskFaults() {
	vxC15Reset()
	vxC15Env.diskFaults = true
	max := 3
	if vx.Thorough() {
		max = 4
	}
	vxC15UpdateOnce(max, []string{vxC15URL})
}

// ---- refresh of all lists ----

// vxC15List is the reference's view of one configured list.
type vxC15List struct {
	allow bool
	idx   int
	src   string
	path  string
	ver   int // version of the upstream text that was stored last
}

func (l *vxC15List) entry(d *DNSFilter) *FilterYAML {
	if l.allow {
		return &d.conf.WhitelistFilters[l.idx]
	}
	return &d.conf.Filters[l.idx]
}

func vxC15Digit(n int) string { return string(rune('0' + n)) }

// vxC15Text is upstream text number ver of list i: ver+1 rules.  wrapped is
// the same rule list in a different wrapping (other comments, blank lines,
// indentation, CRLF, no title).
func vxC15Text(i, ver int, wrapped bool) string {
	s := "! Title: List " + vxC15Digit(i) + "\n# version " + vxC15Digit(ver) + "\n"
	if wrapped {
		s = "\r\n  # mirrored copy\n"
	}
	for k := 0; k <= ver; k++ {
		rule := "||l" + vxC15Digit(i) + "v" + vxC15Digit(ver) + "r" + vxC15Digit(k) + ".example^"
		if wrapped {
			s += "  " + rule + " \t\r\n\n"
		} else {
			s += rule + "\n"
		}
	}
	return s
}

const (
	vxC15New = iota
	vxC15SameRules
	vxC15ConnErr
	vxC15CutShort
	vxC15NotFound
	vxC15HTML
	vxC15Binary
)

// vxC15Serve prepares the answer of list l's source for the next refresh and
// returns whether it is a failure.
func vxC15Serve(i int, l *vxC15List, outcome int) (fails bool) {
	r := &vxC15Resp{status: 200}
	switch outcome {
	case vxC15New:
		r.data = []byte(vxC15Text(i, l.ver+1, false))
	case vxC15SameRules:
		r.data = []byte(vxC15Text(i, l.ver, true))
	case vxC15ConnErr:
		r.connErr, fails = true, true
	case vxC15CutShort:
		r.data = []byte(vxC15Text(i, l.ver+1, false))
		r.readErr, fails = true, true
	case vxC15NotFound:
		r.data = []byte("not-found.example\n")
		if l.src[0] == '/' {
			r.connErr = true
		}
		r.status, fails = 404, true
	case vxC15HTML:
		r.data = []byte("\n<!DOCTYPE html>\n<html><body>captive portal</body></html>\n")
		fails = true
	default:
		r.data = []byte(vxC15Text(i, l.ver+1, false) + "\x00\x01\x02\n")
		fails = true
	}
	r.cut = len(r.data)
	if r.readErr {
		r.cut -= 3
	}
	vxC15Env.srv[l.src] = r
	return fails
}

type vxC15Snap struct {
	disk, inForce []byte
	exists        bool
	count         int
	sum           uint32
	name          string
}

func vxC15Snapshot(d *DNSFilter, l *vxC15List) (s vxC15Snap) {
	f := l.entry(d)
	s.disk, s.exists = vxC15Env.disk[l.path]
	s.inForce = vxC15Env.inForce[l.path]
	s.count, s.sum, s.name = f.RulesCount, f.checksum, f.Name
	return s
}

// vxC15Round runs one refresh and checks it against the reference.
func vxC15Round(d *DNSFilter, lists []*vxC15List, block, allow, force bool, outcomes []int, stale []bool) {
	before := make([]vxC15Snap, len(lists))
	attempted := make([]bool, len(lists))
	fails := make([]bool, len(lists))
	now := time.Unix(1_700_000_000+vxC15Env.tick, 0)
	nAttempted, nFailed := 0, 0
	for i, l := range lists {
		f := l.entry(d)
		if stale[i] {
			f.LastUpdated = now.Add(-25 * time.Hour)
		} else {
			f.LastUpdated = now.Add(-1 * time.Hour)
		}
		before[i] = vxC15Snapshot(d, l)
		fails[i] = vxC15Serve(i, l, outcomes[i])
		selected := l.allow && allow || !l.allow && block
		attempted[i] = selected && f.Enabled && (force || stale[i])
		switch {
		case !f.Enabled:
			vx.Reach("rf-disabled")
		case !selected:
			vx.Reach("rf-not-selected")
		case !attempted[i]:
			vx.Reach("rf-not-due")
		}
		if attempted[i] {
			nAttempted++
			if fails[i] {
				nFailed++
			}
		}
	}
	rebuildsBefore := vxC15Env.rebuilds

	d.refreshFiltersIntl(block, allow, force)

	if nAttempted > 0 && nFailed == nAttempted {
		vx.Reach("rf-all-failed")
	} else if nFailed > 0 {
		vx.Reach("rf-mixed")
	}
	for i, l := range lists {
		f := l.entry(d)
		b := before[i]
		after := vxC15Snapshot(d, l)
		who := "list " + vxC15Digit(i)
		r := vxC15Env.srv[l.src]
		if !attempted[i] {
			vx.Assert(r.requests == 0, who+": a list that is disabled, not selected or not due is not fetched")
		}
		if attempted[i] && !fails[i] && outcomes[i] == vxC15New {
			// successful refresh with new content
			vx.Reach("rf-changed")
			l.ver++
			refOut, refCount, refRules, _, _ := rulelist.VxC15Ref(r.data)
			vx.Assert(after.exists && vxC15Same(after.disk, refOut), who+": new content is stored in normal form")
			vx.Assert(after.count == refCount, who+": rule count of the stored file")
			vx.Assert(after.sum == rulelist.VxC15Sum(0, refRules), who+": checksum of the stored file")
			vx.Assert(vxC15Env.replaced[l.path] == l.ver+1, who+": the file is replaced once per changed content")
		} else {
			what := who + ": not refreshed"
			if attempted[i] && fails[i] {
				vx.Reach("rf-failed")
				what = who + ": failed refresh"
				if l.ver > 0 {
					vx.Reach("rf-fail-after-success")
				}
			} else if attempted[i] {
				vx.Reach("rf-same")
				what = who + ": same rules upstream"
			}
			vx.Assert(after.exists == b.exists && vxC15Same(after.disk, b.disk), what+": the list's file is as it was")
			vx.Assert(vxC15Env.replaced[l.path] == l.ver+1, what+": the file is not rewritten")
			vx.Assert(after.count == b.count, what+": the rule count is as it was")
			vx.Assert(after.sum == b.sum, what+": the checksum is as it was")
			vx.Assert(after.name == b.name, what+": the name is as it was")
			vx.Assert(vxC15Same(after.inForce, b.inForce) || vxC15Same(after.inForce, after.disk), what+": the rules in force are those of the last successful refresh")
		}
		// the entry always describes the file that is on disk
		_, diskCount, diskRules, _, _ := rulelist.VxC15Ref(after.disk)
		vx.Assert(f.RulesCount == diskCount && f.checksum == rulelist.VxC15Sum(0, diskRules), who+": rule count and checksum describe the stored file")
	}
	for _, p := range vxC15Env.pending {
		vx.Assert(p.over, "no pending download is left behind")
	}
	vxC15Env.pending = nil
	if vxC15Env.rebuilds > rebuildsBefore {
		vx.Reach("rf-rebuild")
	}
}

// vxC15Refresh: two block lists (one remote, one local file) and one allow
// list; a first refresh stores version 0 of each, then two refreshes with
// per-list outcomes, selection flags and due / not-due lists.
func vxC15Refresh() {
	vxC15Reset()
	d := vxC15Filter()
	d.conf.Filters = []FilterYAML{
		{Enabled: true, URL: "https://lists.example/block.txt", Filter: Filter{ID: 1}},
		{Enabled: true, URL: "/lists/local.txt", Filter: Filter{ID: 2}},
	}
	d.conf.WhitelistFilters = []FilterYAML{
		{Enabled: true, URL: "https://lists.example/allow.txt", Filter: Filter{ID: 3}, white: true},
	}
	lists := []*vxC15List{
		{idx: 0, src: d.conf.Filters[0].URL, ver: -1},
		{idx: 1, src: d.conf.Filters[1].URL, ver: -1},
		{allow: true, idx: 0, src: d.conf.WhitelistFilters[0].URL, ver: -1},
	}
	for _, l := range lists {
		l.path = l.entry(d).Path("/data")
	}
	all := []bool{true, true, true}

	// state after the last successful refresh
	vxC15Round(d, lists, true, true, true, []int{vxC15New, vxC15New, vxC15New}, all)
	for _, l := range lists {
		vx.Assert(l.ver == 0 && l.entry(d).RulesCount == 1 && l.entry(d).Name != "", "first refresh stores every list")
		vx.Assert(vxC15Same(vxC15Env.inForce[l.path], vxC15Env.disk[l.path]), "first refresh puts every list in force")
	}

	menu := []int{vxC15New, vxC15SameRules, vxC15ConnErr, vxC15CutShort}
	if vx.Thorough() {
		menu = append(menu, vxC15NotFound, vxC15HTML, vxC15Binary)
	}
	pick := func(tag string, m []int) []int {
		return []int{m[vx.Choice(tag+"0", len(m))], m[vx.Choice(tag+"1", len(m))], m[vx.Choice(tag+"2", len(m))]}
	}
	// second refresh: everything free
	stale := all
	switch vx.Choice("due", 4) {
	case 1:
		stale = []bool{false, false, false}
	case 2:
		stale = []bool{false, true, false}
	case 3:
		d.conf.Filters[1].Enabled = false
	}
	vxC15Round(d, lists, vx.Bool("block"), vx.Bool("allow"), vx.Bool("force"), pick("second", menu), stale)

	// third refresh: forced, every list either changes or fails
	patterns := [][]int{
		{vxC15New, vxC15ConnErr, vxC15CutShort},
		{vxC15ConnErr, vxC15New, vxC15New},
		{vxC15ConnErr, vxC15CutShort, vxC15ConnErr},
	}
	if !vx.Thorough() {
		patterns = patterns[:2]
	}
	third := patterns[vx.Choice("third", len(patterns))]
	vxC15Round(d, lists, true, true, true, third, all)
}
