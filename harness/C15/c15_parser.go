//go:build verif

package rulelist

// C15 (b) — a successful refresh stores a stable normal form.
//
//vx:overlay internal/filtering/rulelist/zz_vx_c15.go
//vx:native
//vx:entry vxC15NormalForm reach=accepted,rejected-html,rejected-binary,ascii-rule,ascii-empty,title,html-after-rule
//vx:entry vxC15HighBytes reach=hb-accepted,hb-unicode-space-trimmed
//vx:entry vxC15LongLines reach=ll-grown,ll-too-long
//vx:stub hash/crc32.Update VxC15CRC
//vx:note LongLines: a rule line of 1023..1026 bytes (around the 1 KiB parse buffer, one symbolic byte in it, LF or CRLF or no line end) is stored unchanged and is a fixed point; a line longer than bufio.MaxScanTokenSize is refused.
//vx:note NormalForm: every 7-bit text of 1..5 (thorough 1..6) symbolic bytes; "! Title: " line with 0..1 (0..2) symbolic title bytes behind 0..2 and in front of 0..2 (0..3) symbolic bytes; mixed-case <HTml / <!DocType line behind 0..3 and in front of 0..1 symbolic bytes. Reference = line classifier written from the statement (VxC15Ref); CRC-32 is the real function (bit-serial definition replaces the table/assembly code).
//vx:note HighBytes: texts of 1..3 (thorough 1..4) bytes over the alphabet {a, space, LF, c2, 85, a0, e2, 80, a8} (NEL, NBSP, U+2028 and broken sequences): stored lines carry no Unicode white space at the ends, stored form is a fixed point.
//vx:note outside: texts longer than the bounds; lines between 1 KiB and 64 KiB other than the sampled lengths.

import (
	"bufio"
	"bytes"
	"hash/crc32"
	"io"

	"github.com/AdguardTeam/AdGuardHome/internal/vx"
)

// VxC15Sum is the bit-serial definition of CRC-32 (IEEE, reflected polynomial
// 0xedb88320).  The library's table / assembly implementations compute the
// same function; they are not executable by the engine.
func VxC15Sum(crc uint32, p []byte) uint32 {
	crc = ^crc
	for _, b := range p {
		crc ^= uint32(b)
		for k := 0; k < 8; k++ {
			crc = (crc >> 1) ^ (0xedb88320 & -(crc & 1))
		}
	}
	return ^crc
}

// VxC15Log is the byte stream fed to the checksum since the last reset and
// VxC15Last the last checksum value handed out.  A checksum is a function of
// the stream: equal streams have equal checksums, which is how "the same
// checksum" is checked without asking the solver to compare two CRC circuits.
var (
	VxC15Log  []byte
	VxC15Last uint32
)

// VxC15CRC replaces hash/crc32.Update.
func VxC15CRC(crc uint32, tab *crc32.Table, p []byte) uint32 {
	VxC15Log = append(VxC15Log, p...)
	VxC15Last = VxC15Sum(crc, p)
	return VxC15Last
}

// vxC15SpaceNF: ASCII white space, evaluated without path forks.
func vxC15SpaceNF(c byte) bool {
	return vx.Or(vx.Or(vx.Or(c == ' ', c == '\t'), vx.Or(c == '\n', c == '\v')), vx.Or(c == '\f', c == '\r'))
}

// vxC15FoldPrefix: t starts with prefix p (lower-case letters in p match both
// cases).
func vxC15FoldPrefix(t []byte, p string) bool {
	if len(t) < len(p) {
		return false
	}
	for i := 0; i < len(p); i++ {
		c := t[i]
		if 'a' <= p[i] && p[i] <= 'z' {
			c |= 0x20
		}
		if c != p[i] {
			return false
		}
	}
	return true
}

// VxC15Ref is the reference model of the stored normal form for 7-bit list
// texts, written from the property statement and the parser's documentation:
// the text is cut into lines at '\n' (a '\r' before it belongs to the line
// ending), every line is trimmed of white space, blank lines and comment lines
// ('#' or '!' first) are dropped, every other line is a rule and is stored
// followed by '\n'.  The text is not a rule list (bad) when the first line
// that is not blank starts with <html or <!doctype in any case before any rule
// was stored (htmlBad), or when a rule line contains a control byte other than
// tab and carriage return (binBad).  rules is the concatenation of the rule
// lines, i.e. the stream the checksum is defined over.
func VxC15Ref(in []byte) (out []byte, count int, rules []byte, htmlBad, binBad bool) {
	start := 0
	for start < len(in) {
		end := start
		for end < len(in) && in[end] != '\n' {
			end++
		}
		line := in[start:end]
		start = end + 1
		a, b := 0, len(line)
		for a < b && vxC15SpaceNF(line[a]) {
			a++
		}
		for b > a && vxC15SpaceNF(line[b-1]) {
			b--
		}
		t := line[a:b]
		if len(t) == 0 {
			continue
		}
		if count == 0 && (vxC15FoldPrefix(t, "<html") || vxC15FoldPrefix(t, "<!doctype")) {
			return nil, 0, nil, true, false
		}
		if t[0] == '#' || t[0] == '!' {
			continue
		}
		for _, c := range t {
			if vx.Or(vx.And(c < ' ', vx.And(c != '\t', c != '\r')), c == 0x7f) {
				return nil, 0, nil, false, true
			}
		}
		count++
		rules = append(rules, t...)
		out = append(out, t...)
		out = append(out, '\n')
	}
	return out, count, rules, false, false
}

// VxC15High reports whether the text has a byte outside 7-bit ASCII.
func VxC15High(in []byte) bool {
	var acc byte
	for _, c := range in {
		acc |= c
	}
	return acc >= 0x80
}

// VxC15Init touches package io before the code under test reads io.EOF (an
// earlier engine version skipped the initialisers of packages of which only
// variables are read; harmless now).
func VxC15Init() { _ = io.MultiReader() }

func vxC15Input() []byte {
	max := 5
	if vx.Thorough() {
		max = 6
	}
	switch vx.Choice("shape", 3) {
	case 0:
		return vx.Bytes("in", 1+vx.Choice("n", max))
	case 1:
		// a title line in front of / behind other lines
		in := vx.Bytes("pre", vx.Choice("npre", 3))
		in = append(in, "! Title: "...)
		in = append(in, vx.Bytes("title", vx.Choice("ntitle", max-3))...)
		in = append(in, '\n')
		in = append(in, vx.Bytes("post", vx.Choice("npost", max-2))...)
		return in
	default:
		// an HTML-looking line behind 0..3 arbitrary bytes
		in := vx.Bytes("pre", vx.Choice("npre", 4))
		if vx.Bool("doctype") {
			in = append(in, "<!DocType"...)
		} else {
			in = append(in, "<HTml"...)
		}
		in = append(in, vx.Bytes("post", vx.Choice("npost", 2))...)
		return in
	}
}

func vxC15NormalForm() {
	VxC15Init()
	in := vxC15Input()
	vx.Assume(!VxC15High(in))
	var out bytes.Buffer
	VxC15Log, VxC15Last = nil, 0
	res, err := NewParser().Parse(&out, bytes.NewReader(in), make([]byte, DefaultRuleBufSize))
	vx.Note(err != nil)
	vx.Note(out.Bytes())
	if res != nil {
		vx.Note(res.RulesCount)
		vx.Note(res.Checksum)
	}
	stored := out.Bytes()
	summed := VxC15Log
	vx.Assert(res.Checksum == VxC15Last, "the reported checksum is the one computed over the rule lines")

	{
		refOut, refCount, refRules, htmlBad, binBad := VxC15Ref(in)
		if htmlBad {
			vx.Reach("rejected-html")
			vx.Assert(err != nil, "HTML content is refused")
			return
		}
		if binBad {
			vx.Reach("rejected-binary")
			vx.Assert(err != nil, "binary content is refused")
			return
		}
		vx.Assert(err == nil, "a text list is accepted")
		if err != nil {
			return
		}
		if refCount > 0 {
			vx.Reach("ascii-rule")
			if refCount > 1 && (vxC15FoldPrefix(refOut[bytes.IndexByte(refOut, '\n')+1:], "<html")) {
				vx.Reach("html-after-rule")
			}
		} else {
			vx.Reach("ascii-empty")
		}
		vx.Assert(bytes.Equal(stored, refOut), "stored form: comments and blank lines dropped, lines trimmed")
		vx.Assert(res.RulesCount == refCount, "rule count = number of rule lines")
		vx.Assert(bytes.Equal(summed, refRules), "checksum is taken over exactly the rule lines")
	}
	vx.Reach("accepted")
	if res.Title != "" {
		vx.Reach("title")
	}
	vxC15Stable(stored, summed, res)
}

// vxC15Stable checks the shape and the stability of a stored form; summed is
// the stream its checksum was taken over.
func vxC15Stable(stored, summed []byte, res *ParseResult) {
	// shape of the stored form, for every accepted text
	vx.Assert(res.BytesWritten == len(stored), "bytes written are accounted")
	lines := 0
	first := true
	for i, c := range stored {
		if first {
			vx.Assert(vx.And(c != '#', c != '!'), "no comment line is stored")
			vx.Assert(!vxC15SpaceNF(c), "stored lines are not blank and have no leading white space")
			first = false
		}
		if c == '\n' {
			lines++
			first = true
			vx.Assert(i > 0, "stored lines are not empty")
			vx.Assert(i == 0 || !vxC15SpaceNF(stored[i-1]), "stored lines have no trailing white space")
		} else {
			vx.Assert(!vx.Or(vx.And(c < ' ', vx.And(c != '\t', c != '\r')), c == 0x7f), "no control bytes are stored")
		}
	}
	vx.Assert(len(stored) == 0 || stored[len(stored)-1] == '\n', "every stored line is terminated")
	vx.Assert(lines == res.RulesCount, "one stored line per counted rule")

	// stability: re-parsing the stored form changes nothing
	var out2 bytes.Buffer
	VxC15Log, VxC15Last = nil, 0
	res2, err2 := NewParser().Parse(&out2, bytes.NewReader(stored), make([]byte, DefaultRuleBufSize))
	vx.Assert(err2 == nil, "the stored form parses")
	if err2 != nil {
		return
	}
	vx.Assert(res2.RulesCount == res.RulesCount, "re-parse yields the same rule count")
	vx.Assert(res2.Checksum == VxC15Last, "the reported checksum is the one computed over the rule lines (re-parse)")
	vx.Assert(bytes.Equal(VxC15Log, summed), "re-parse yields the same checksum (same stream summed)")
	vx.Assert(bytes.Equal(out2.Bytes(), stored), "the stored form is a fixed point")
}

var vxC15Alphabet = []byte{'a', ' ', '\n', 0xc2, 0x85, 0xa0, 0xe2, 0x80, 0xa8}

func vxC15HighBytes() {
	VxC15Init()
	max := 3
	if vx.Thorough() {
		max = 4
	}
	n := 1 + vx.Choice("n", max)
	in := make([]byte, n)
	for i := range in {
		in[i] = vxC15Alphabet[vx.Choice("c", len(vxC15Alphabet))]
	}
	var out bytes.Buffer
	VxC15Log, VxC15Last = nil, 0
	res, err := NewParser().Parse(&out, bytes.NewReader(in), make([]byte, DefaultRuleBufSize))
	summed := VxC15Log
	if err != nil {
		vx.Reach("hb-rejected")
		vx.Fail("text without control bytes and HTML is accepted")
		return
	}
	vx.Reach("hb-accepted")
	stored := out.Bytes()
	for _, line := range bytes.Split(stored, []byte{'\n'}) {
		vx.Assert(len(bytes.TrimSpace(line)) == len(line), "stored lines carry no Unicode white space at the ends")
	}
	if len(stored) > 0 && len(stored) < len(in) && !bytes.Contains(in, []byte{' '}) && !bytes.Contains(in, []byte{'\n'}) {
		vx.Reach("hb-unicode-space-trimmed")
	}
	vxC15Stable(stored, summed, res)
}

// vxC15LongLines: lines around and beyond the parse buffer.
func vxC15LongLines() {
	VxC15Init()
	var in []byte
	tooLong := vx.Choice("kind", 2) == 1
	n := 1023 + vx.Choice("len", 4)
	if tooLong {
		n = bufio.MaxScanTokenSize + 1
	}
	in = append(in, "first\n"...)
	line := bytes.Repeat([]byte{'x'}, n)
	if !tooLong {
		c := vx.Byte("c")
		vx.Assume(vx.And(c > ' ', c < 0x7f))
		line[n/2] = c
	}
	in = append(in, line...)
	want := append([]byte("first\n"), line...)
	want = append(want, '\n')
	switch vx.Choice("eol", 3) {
	case 0:
		in = append(in, '\n')
	case 1:
		in = append(in, "\r\n"...)
	}
	var out bytes.Buffer
	VxC15Log, VxC15Last = nil, 0
	res, err := NewParser().Parse(&out, bytes.NewReader(in), make([]byte, DefaultRuleBufSize))
	if tooLong {
		vx.Reach("ll-too-long")
		vx.Assert(err != nil, "a line beyond the maximum line length makes the refresh fail")
		return
	}
	vx.Reach("ll-grown")
	vx.Assert(err == nil, "a long text line is accepted")
	if err != nil {
		return
	}
	vx.Assert(res.RulesCount == 2, "long line is one rule")
	vx.Assert(bytes.Equal(out.Bytes(), want), "long line is stored unchanged")
	var out2 bytes.Buffer
	summed := VxC15Log
	VxC15Log, VxC15Last = nil, 0
	res2, err2 := NewParser().Parse(&out2, bytes.NewReader(out.Bytes()), make([]byte, DefaultRuleBufSize))
	vx.Assert(err2 == nil && res2.RulesCount == 2, "the stored form parses to the same count")
	vx.Assert(bytes.Equal(VxC15Log, summed), "re-parse yields the same checksum (same stream summed)")
	vx.Assert(bytes.Equal(out2.Bytes(), out.Bytes()), "the stored form is a fixed point")
}
