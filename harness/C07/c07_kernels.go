//go:build verif

package querylog

// C07 kernels on symbolic data: the status filter table, the meaning of a
// search term, and the quick pre-match on the raw line.
//
//vx:overlay internal/querylog/zz_vx_c07k.go
//vx:entry vxC07Status reach=selected,not-selected,unknown-status
//vx:stub unicode.SimpleFold vxC07SimpleFold
//vx:entry vxC07TermSym reach=strict-hit,strict-miss,substring-hit,substring-miss,quick-dropped
//vx:note Status: symbolic reason (any int) and isFiltered against a table transcribed from AGHTechDoc "response_status" / openapi; 10 documented statuses + 4 unknown strings; "processed" is not asserted for block-list reasons without the filtered flag (undefined in the documents)
//vx:note TermSym (the solver decides): one field (host, client name or ClientID) of 1..2 symbolic ASCII bytes (both tiers), term of 1..2 symbolic ASCII bytes, quoted or not, client address "::1"; reference = ASCII case-insensitive containment / equality as one formula.  unicode.SimpleFold is replaced on symbolic runes by the exact folding orbits of ASCII (incl. k-K-Kelvin sign, s-S-long s): without it the engine does not bound the orbit loop of equalFoldRune.  Quick pre-match on the framed line for field bytes that json.Marshal writes unescaped
//vx:note Term (concrete companion, no solver): every field value of 1..2 bytes and every term of 1..2 bytes over one representative per fold class (quick aKsZ1.@{ / thorough aAkKsSzZ1.@[`{), three address forms, full match vs reference and quick pre-match vs full match
//vx:note outside: non-ASCII terms and names (Unicode folding, IDN conversion of the term by parseSearchCriterion/idna), asciiVal
//vx:entry vxC07Term reach=strict-hit,strict-miss,substring-hit,substring-miss,by-host,by-name,by-clientid,by-ip,quick-dropped

import (
	"context"
	"fmt"
	"log/slog"
	"net"
	"unicode"

	"github.com/AdguardTeam/AdGuardHome/internal/filtering"
	"github.com/AdguardTeam/AdGuardHome/internal/vx"
)

// vxC07StatusRef is the documented meaning of response_status (openapi,
// AGHTechDoc "response_status") over the reason numbers of
// filtering.Reason: 0 not found, 1 allow-listed, 2 error, 3 block list,
// 4 safe browsing, 5 parental, 6 invalid, 7 safe search, 8 blocked service,
// 9 rewrite, 10 rewrite from hosts files, 11 $dnsrewrite rule.
func vxC07StatusRef(status string, reason int, isFiltered bool) (sel bool, defined bool) {
	is := func(vals ...int) bool {
		r := false
		for _, v := range vals {
			r = vx.Or(r, reason == v)
		}
		return r
	}
	switch status {
	case "all":
		return true, true
	case "filtered": // all kinds of filtering
		return vx.Or(isFiltered, is(1, 9, 10, 11)), true
	case "blocked": // blocked or blocked services
		return vx.And(isFiltered, is(3, 8)), true
	case "blocked_services":
		return vx.And(isFiltered, is(8)), true
	case "blocked_safebrowsing":
		return vx.And(isFiltered, is(4)), true
	case "blocked_parental":
		return vx.And(isFiltered, is(5)), true
	case "whitelisted":
		return is(1), true
	case "rewritten": // all kinds of rewrites
		return is(9, 10, 11), true
	case "safe_search":
		return vx.And(isFiltered, is(7)), true
	case "processed": // not blocked, not white-listed
		return !is(1, 3, 8), true
	}
	return false, false
}

// vxC07Status: every status string against a symbolic (reason, isFiltered).
func vxC07Status() {
	statuses := []string{
		"all", "filtered", "blocked", "blocked_services", "blocked_safebrowsing", "blocked_parental",
		"whitelisted", "rewritten", "safe_search", "processed",
		"", "Blocked", "bogus", "blocked_service",
	}
	status := statuses[vx.Choice("status", len(statuses))]
	reason := vx.Int("reason")
	isFiltered := vx.Bool("isFiltered")
	if status == "processed" {
		// "not blocked" for a block-list reason without the filtered flag is
		// not defined by the documents (does not occur: the flag is set
		// together with these reasons)
		vx.Assume(vx.Or(isFiltered, vx.And(reason != 3, reason != 8)))
	}
	e := &logEntry{Result: filtering.Result{Reason: filtering.Reason(reason), IsFiltered: isFiltered}}
	p := &searchParams{searchCriteria: []searchCriterion{{criterionType: ctFilteringStatus, value: status}}}
	got := p.match(e)
	want, defined := vxC07StatusRef(status, reason, isFiltered)
	if !defined {
		vx.Reach("unknown-status")
		vx.Assert(!got, "an unknown status selects nothing")
		return
	}
	vx.Assert(got == want, "a status filter selects exactly the entries with that status")
	if got {
		vx.Reach("selected")
	} else {
		vx.Reach("not-selected")
	}
	// the status is also applied through the quick pre-match unchanged
	q := p.quickMatch(context.Background(), slog.Default(), `{"T":"x","QH":"a","IP":"1.2.3.4","Result":{}}`, vxC07NoClient)
	vx.Assert(q, "the quick pre-match lets every line through for a status filter")
}

func vxC07NoClient(_ context.Context, _ *slog.Logger, _, _ string) *Client { return nil }

// ---- search term -------------------------------------------------------------

// vxC07Sigma: one representative of every class of ASCII byte that letter-case
// folding distinguishes: ordinary letters in both cases, the two letters with
// a three-element folding orbit (k: Kelvin sign, s: long s), the first and
// last letters and their neighbours '@' '[' '`' '{' (which differ from each
// other in the case bit only, like letters), a digit and the dot.
const (
	vxC07SigmaFull  = "aAkKsSzZ1.@[`{"
	vxC07SigmaQuick = "aKsZ1.@{"
)

var vxC07Sigma = vxC07SigmaQuick

func vxC07LowerASCII(c byte) byte {
	if 'A' <= c && c <= 'Z' {
		return c + 'a' - 'A'
	}
	return c
}

// vxC07ContainsRef: term occurs in s (as the whole of s when whole is set),
// ignoring ASCII letter case.
func vxC07ContainsRef(s, term string, whole bool) bool {
	if whole && len(s) != len(term) {
		return false
	}
	for i := 0; i+len(term) <= len(s); i++ {
		j := 0
		for j < len(term) && vxC07LowerASCII(s[i+j]) == vxC07LowerASCII(term[j]) {
			j++
		}
		if j == len(term) {
			return true
		}
	}
	return false
}

// vxC07Strings returns all strings over vxC07Sigma of length 1..n.
func vxC07Strings(n int) (res []string) {
	level := []string{""}
	for l := 1; l <= n; l++ {
		var next []string
		for _, p := range level {
			for i := 0; i < len(vxC07Sigma); i++ {
				next = append(next, p+vxC07Sigma[i:i+1])
			}
		}
		res = append(res, next...)
		level = next
	}
	return res
}

// vxC07Term: the meaning of a search term — substring by default, the whole
// value when quoted, letter case ignored, over host name, client name,
// ClientID and client address — and the quick pre-match on the stored line,
// which must never drop an entry that the full match selects.
func vxC07Term() {
	maxField, maxTerm := 2, 2
	vxC07Sigma = vxC07SigmaQuick
	if vx.Thorough() {
		vxC07Sigma = vxC07SigmaFull
	}
	which := vx.Choice("field", 4)
	strict := vx.Choice("quoted", 2) == 1
	var fields []string
	if which == 3 {
		// the client address is the field: three address forms
		fields = []string{"1.2.3.4", "::1", "fe80::a1"}
	} else {
		// split the field values by their first byte over the paths
		first := vxC07Sigma[vx.Choice("firstByte", len(vxC07Sigma)):][:1]
		fields = []string{first}
		for _, rest := range vxC07Strings(maxField - 1) {
			fields = append(fields, first+rest)
		}
	}
	terms := vxC07Strings(maxTerm)
	if which == 3 {
		terms = append(terms, "1.2.3.4", "::1", ":A1", "2.3", "FE80::a1", "1.2.3.4 ")
	}
	marks := []string{"by-host", "by-name", "by-clientid", "by-ip"}
	ctx := context.Background()
	for _, f := range fields {
		host, name, cid, ip := "", "", "", net.IP{9, 9, 9, 9}
		switch which {
		case 0:
			host = f
		case 1:
			name = f
		case 2:
			cid = f
		default:
			ip = net.ParseIP(f)
		}
		ipStr := ip.String()
		var cli *Client
		if which == 1 {
			cli = &Client{Name: name}
		}
		e := &logEntry{QHost: host, ClientID: cid, IP: ip, client: cli}
		// the line as json.Marshal frames it (field order of logEntry; CID is
		// omitted when empty; the rule list of the result repeats "IP"
		// further right)
		line := `{"T":"2024-05-06T07:08:09.123456789Z","QH":"` + host + `","QT":"A","QC":"IN",`
		if cid != "" {
			line += `"CID":"` + cid + `",`
		}
		line += `"CP":"","Upstream":"9.9.9.9:53","IP":"` + ipStr + `","Result":{"Rules":[{"IP":"0.0.0.0","Text":"||x^"}]},"Elapsed":7}`
		finder := func(_ context.Context, _ *slog.Logger, clientID, addr string) *Client {
			vx.Assert(clientID == cid && addr == ipStr, "the quick pre-match looks the client up by the stored ClientID and address")
			return cli
		}
		for _, term := range terms {
			p := &searchParams{searchCriteria: []searchCriterion{{criterionType: ctTerm, value: term, strict: strict}}}
			got := p.match(e)
			want := false
			for _, v := range []string{host, name, cid, ipStr} {
				if vxC07ContainsRef(v, term, strict) {
					want = true
				}
			}
			if got != want {
				vx.Note(fmt.Sprintf("field %s=%q term=%q quoted=%v: selected=%v", marks[which][3:], f, term, strict, got))
				if !strict && (term[0] == 'k' || term[0] == 's') {
					vx.Known("C07-containsfold-lower-k-s", true)
				}
			}
			vx.Assert(got == want, "a search term selects exactly the entries whose host, client name, ClientID or address contains it (equals it when quoted), ignoring letter case")
			q := p.quickMatch(ctx, slog.Default(), line, finder)
			if got && !q {
				vx.Note(fmt.Sprintf("field %s=%q term=%q quoted=%v: dropped by the quick pre-match", marks[which][3:], f, term, strict))
			}
			vx.Assert(q || !got, "the quick pre-match on the stored line never drops an entry the full match selects")
			switch {
			case strict && got:
				vx.Reach("strict-hit")
			case strict:
				vx.Reach("strict-miss")
			case got:
				vx.Reach("substring-hit")
			default:
				vx.Reach("substring-miss")
			}
			if got {
				vx.Reach(marks[which])
			}
			if !q {
				vx.Reach("quick-dropped")
			}
		}
	}
}

// ---- search term, symbolic bytes ---------------------------------------------

// vxC07SimpleFold replaces unicode.SimpleFold on symbolic runes by the exact
// folding orbits of the runes the symbolic entry allows (ASCII, plus the two
// non-ASCII members of the orbits of k and s); concrete runes go to the real
// function.
func vxC07SimpleFold(r rune) rune {
	if vx.IsConcrete(r) {
		return unicode.SimpleFold(r)
	}
	switch {
	case r == 'k':
		return 0x212A // Kelvin sign
	case r == 's':
		return 0x17F // long s
	case r == 0x212A:
		return 'K'
	case r == 0x17F:
		return 'S'
	case 'A' <= r && r <= 'Z':
		return r + ('a' - 'A')
	case 'a' <= r && r <= 'z':
		return r - ('a' - 'A')
	case 0 <= r && r < 0x80:
		return r
	}
	vx.Fail("harness: unicode.SimpleFold on a symbolic rune outside the modelled ones")
	return r
}

// vxC07FoldEq: two ASCII bytes are equal ignoring letter case (no fork).
func vxC07FoldEq(a, b byte) bool {
	l := a | 0x20
	letter := vx.And('a' <= l, l <= 'z')
	return vx.Or(a == b, vx.And(letter, a^b == 0x20))
}

// vxC07ContainsSym: term occurs in s (is the whole of s), ignoring ASCII
// letter case; one formula, no fork.
func vxC07ContainsSym(s, term string, whole bool) bool {
	if whole && len(s) != len(term) {
		return false
	}
	r := false
	for i := 0; i+len(term) <= len(s); i++ {
		ok := true
		for j := 0; j < len(term); j++ {
			ok = vx.And(ok, vxC07FoldEq(s[i+j], term[j]))
		}
		r = vx.Or(r, ok)
	}
	return r
}

func vxC07AssumeASCII(s string) {
	for i := 0; i < len(s); i++ {
		vx.Assume(s[i] < 0x80)
	}
}

// vxC07TermSym: like vxC07Term with every byte of the field and of the term
// symbolic (any ASCII byte): the solver decides whether some field / term pair
// is selected wrongly.
func vxC07TermSym() {
	// (3-byte fields cost 2000 s and exhaust the solver: same bounds in both tiers)
	maxField, maxTerm := 2, 2
	which := vx.Choice("field", 3)
	f := vx.String("value", 1+vx.Choice("valueLen", maxField))
	vxC07AssumeASCII(f)
	term := vx.String("term", 1+vx.Choice("termLen", maxTerm))
	vxC07AssumeASCII(term)
	strict := vx.Bool("quoted")
	host, name, cid, ip := "", "", "", net.IP{0, 0, 0, 0, 0, 0, 0, 0, 0, 0, 0, 0, 0, 0, 0, 1}
	var cli *Client
	switch which {
	case 0:
		host = f
	case 1:
		name = f
		cli = &Client{Name: name}
	default:
		cid = f
	}
	e := &logEntry{QHost: host, ClientID: cid, IP: ip, client: cli}
	p := &searchParams{searchCriteria: []searchCriterion{{criterionType: ctTerm, value: term, strict: strict}}}
	got := p.match(e)
	// the address "::1" is the other non-empty value
	want := vx.Or(vxC07ContainsSym(f, term, strict), vxC07ContainsSym("::1", term, strict))
	vx.Known("C07-containsfold-lower-k-s", vx.And(!strict, vx.Or(term[0] == 'k', term[0] == 's')))
	vx.Assert(got == want, "a search term selects exactly the entries whose host, client name, ClientID or address contains it (equals it when quoted), ignoring letter case")
	switch {
	case strict && got:
		vx.Reach("strict-hit")
	case strict:
		vx.Reach("strict-miss")
	case got:
		vx.Reach("substring-hit")
	default:
		vx.Reach("substring-miss")
	}

	// the quick pre-match on the line as json.Marshal frames it; bytes that the
	// encoder escapes are left to the full match (host names and ClientIDs do
	// not contain them)
	for i := 0; i < len(f); i++ {
		c := f[i]
		vx.Assume(vx.And(c >= 0x20, c != 0x7f))
		vx.Assume(vx.And(vx.And(c != '"', c != '\\'), vx.And(vx.And(c != '<', c != '>'), c != '&')))
	}
	line := `{"T":"2024-05-06T07:08:09.123456789Z","QH":"` + host + `","QT":"A","QC":"IN",`
	if cid != "" {
		line += `"CID":"` + cid + `",`
	}
	line += `"CP":"","IP":"::1","Result":{"Rules":[{"IP":"0.0.0.0","Text":"||x^"}]},"Elapsed":7}`
	finder := func(_ context.Context, _ *slog.Logger, clientID, addr string) *Client {
		vx.Assert(clientID == cid && addr == "::1", "the quick pre-match looks the client up by the stored ClientID and address")
		return cli
	}
	q := p.quickMatch(context.Background(), slog.Default(), line, finder)
	vx.Assert(vx.Implies(got, q), "the quick pre-match on the stored line never drops an entry the full match selects")
	if !q {
		vx.Reach("quick-dropped")
	}
}
