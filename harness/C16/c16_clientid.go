//go:build verif

package dnsforward

// C16 — ClientIDs come only from a well-formed DoH path or server-name label.
//
//vx:overlay internal/dnsforward/zz_vx_c16.go
//vx:native
//vx:entry vxC16Path reach=path-id,path-noid,path-error
//vx:entry vxC16SNI reach=sni-id,sni-noid,sni-error,sni-plain
//vx:entry vxC16HostHeader reach=hh-id,hh-noid
//vx:note DoH path shapes: any byte string of length 1..10 (quick) / 1..12 (thorough) starting with '/'; "/dns-query"+any tail of 0..7 / 0..9 bytes; "/"+any 0..3 bytes+"dns-query/"+any 1..2 bytes; server names: configured name of 0,1,3,5 bytes, client name of 0..7 (quick) / 0..9 bytes, all bytes symbolic
//vx:note reference = 20-line decision procedure written from the statement; path cleaning by the standard library's path.Clean is trusted (applied to the same input)

import (
	"crypto/tls"
	"net"
	"net/http"
	"net/url"
	"path"

	"github.com/AdguardTeam/AdGuardHome/internal/vx"
	"github.com/AdguardTeam/dnsproxy/proxy"
	"github.com/quic-go/quic-go"
)

type vxC16TLSConn struct {
	net.Conn
	name string
}

func (c vxC16TLSConn) ConnectionState() tls.ConnectionState {
	return tls.ConnectionState{ServerName: c.name}
}

type vxC16QUICConn struct {
	quic.Connection
	name string
}

func (c vxC16QUICConn) ConnectionState() quic.ConnectionState {
	return quic.ConnectionState{TLS: tls.ConnectionState{ServerName: c.name}}
}

// vxC16ValidLabel: letters, digits, inner hyphens, 1..63 bytes.
func vxC16ValidLabel(x string) bool {
	if len(x) == 0 || len(x) > 63 {
		return false
	}
	for i := 0; i < len(x); i++ {
		c := x[i]
		alnum := vx.Or(vx.Or(vx.And('a' <= c, c <= 'z'), vx.And('A' <= c, c <= 'Z')), vx.And('0' <= c, c <= '9'))
		inner := i > 0 && i < len(x)-1
		ok := alnum
		if inner {
			ok = vx.Or(alnum, c == '-')
		}
		if !ok {
			return false
		}
	}
	return true
}

func vxC16Lower(x string) string {
	b := []byte(x)
	for i, c := range b {
		if 'A' <= c && c <= 'Z' {
			b[i] = c + 32
		}
	}
	return string(b)
}

func vxC16Server(name string, strict bool) *Server {
	s := &Server{}
	s.conf.TLSConf = &TLSConfig{ServerName: name, StrictSNICheck: strict}
	return s
}

// vxC16Path: the DoH path alone decides (no server name configured).
func vxC16Path() {
	var p string
	switch vx.Choice("shape", 3) {
	case 0:
		// any byte string starting with '/'
		max := 10
		if vx.Thorough() {
			max = 12
		}
		n := 1 + vx.Choice("pathlen", max)
		p = vx.String("path", n)
		vx.Assume(p[0] == '/')
	case 1:
		// /dns-query followed by any tail
		max := 8
		if vx.Thorough() {
			max = 10
		}
		p = "/dns-query" + vx.String("tail", vx.Choice("taillen", max))
	default:
		// any short lead-in (dot segments, doubled slashes, other directories)
		// in front of dns-query/<1..2 bytes>
		p = "/" + vx.String("lead", vx.Choice("leadlen", 4)) + "dns-query/" + vx.String("id", 1+vx.Choice("idlen", 2))
	}
	// The path decides first; without a path ClientID the server name does.
	strict := vx.Bool("strict")
	host, sni := "", ""
	switch vx.Choice("names", 4) {
	case 1:
		host, sni = "a.b", "a.b"
	case 2:
		host, sni = "a.b", "Bob.a.b"
	case 3:
		host, sni = "a.b", "-.a.b"
	}
	s := vxC16Server(host, strict)
	pctx := &proxy.DNSContext{
		Proto:       proxy.ProtoHTTPS,
		HTTPRequest: &http.Request{URL: &url.URL{Path: p}, TLS: &tls.ConnectionState{ServerName: sni}},
	}
	id, err := s.clientIDFromDNSContext(pctx)
	vx.Note(id)
	vx.Note(err != nil)
	sniID, sniErr := vxC16Want(host, sni, strict)

	cp := path.Clean(p)
	const pre = "/dns-query"
	switch {
	case cp == pre:
		vx.Reach("path-noid")
		if sniErr {
			vx.Assert(err != nil && id == "", "no path ClientID and an invalid server-name label: request fails")
		} else {
			vx.Assert(err == nil, "plain /dns-query is no error")
			vx.Assert(id == sniID, "without a path ClientID the server-name label (if any) is the ClientID")
		}
	case len(cp) > len(pre)+1 && cp[:len(pre)+1] == pre+"/":
		x := cp[len(pre)+1:]
		single := true
		for i := 0; i < len(x); i++ {
			if x[i] == '/' {
				single = false
			}
		}
		if single && vxC16ValidLabel(x) {
			vx.Reach("path-id")
			vx.Assert(err == nil, "well-formed /dns-query/<id> is accepted")
			vx.Assert(id == vxC16Lower(x), "ClientID is the lower-cased path segment")
		} else {
			vx.Reach("path-error")
			vx.Assert(err != nil, "extra segments or an invalid label make the request fail (not attributed to nobody or somebody else)")
			vx.Assert(id == "", "no ClientID on error")
		}
	default:
		vx.Reach("path-error")
		vx.Assert(err != nil, "a path that is not /dns-query[/<id>] makes the request fail (not attributed to nobody or somebody else)")
		vx.Assert(id == "", "no ClientID on error")
	}
}

func vxC16Names() (host, cli string) {
	hostLens := []int{0, 1, 3, 5}
	hl := hostLens[vx.Choice("hostlen", len(hostLens))]
	host = vx.String("host", hl)
	max := 8
	if vx.Thorough() {
		max = 10
	}
	cl := vx.Choice("clilen", max)
	cli = vx.String("cli", cl)
	return host, cli
}

// vxC16Want is the reference for the server-name route.
func vxC16Want(host, cli string, strict bool) (id string, wantErr bool) {
	if host == "" || cli == host {
		return "", false
	}
	if len(cli) > len(host)+1 && cli[len(cli)-len(host):] == host && cli[len(cli)-len(host)-1] == '.' {
		x := cli[:len(cli)-len(host)-1]
		nodot := true
		for i := 0; i < len(x); i++ {
			if x[i] == '.' {
				nodot = false
			}
		}
		if nodot {
			if vxC16ValidLabel(x) {
				return vxC16Lower(x), false
			}
			return "", true
		}
	}
	return "", strict
}

func vxC16SNI() {
	host, cli := vxC16Names()
	strict := vx.Bool("strict")
	s := vxC16Server(host, strict)
	protos := []proxy.Proto{proxy.ProtoTLS, proxy.ProtoQUIC, proxy.ProtoHTTPS, proxy.ProtoUDP, proxy.ProtoTCP, proxy.ProtoDNSCrypt}
	proto := protos[vx.Choice("proto", len(protos))]
	pctx := &proxy.DNSContext{Proto: proto}
	switch proto {
	case proxy.ProtoTLS:
		pctx.Conn = vxC16TLSConn{name: cli}
	case proxy.ProtoQUIC:
		pctx.QUICConnection = vxC16QUICConn{name: cli}
	case proxy.ProtoHTTPS:
		pctx.HTTPRequest = &http.Request{URL: &url.URL{Path: "/dns-query"}, TLS: &tls.ConnectionState{ServerName: cli}}
	default:
		// a TLS-looking connection must not matter for plain protocols
		pctx.Conn = vxC16TLSConn{name: cli}
	}
	id, err := s.clientIDFromDNSContext(pctx)
	vx.Note(id)
	vx.Note(err != nil)
	if proto == proxy.ProtoUDP || proto == proxy.ProtoTCP || proto == proxy.ProtoDNSCrypt {
		vx.Reach("sni-plain")
		vx.Assert(err == nil && id == "", "plain and DNSCrypt requests never carry a ClientID")
		return
	}
	want, wantErr := vxC16Want(host, cli, strict)
	if wantErr {
		vx.Reach("sni-error")
		vx.Assert(err != nil, "invalid label, or name outside the configured domain under strict checking, is rejected")
		vx.Assert(id == "", "no ClientID on error")
		return
	}
	if want != "" {
		vx.Reach("sni-id")
	} else {
		vx.Reach("sni-noid")
	}
	vx.Assert(err == nil, "request accepted")
	vx.Assert(id == want, "ClientID is exactly the lower-cased label in front of the configured server name")
}

// vxC16HostHeader: plain-HTTP DoH (behind a proxy): the Host header, with or
// without port, is the client server name.
func vxC16HostHeader() {
	host := "a.b"
	max := 7
	if vx.Thorough() {
		max = 9
	}
	cl := 1 + vx.Choice("clilen", max)
	cli := vx.String("cli", cl)
	for i := 0; i < len(cli); i++ {
		c := cli[i]
		// host names without colon, brackets (net.SplitHostPort syntax is not the subject)
		vx.Assume(c != ':' && c != '[' && c != ']')
	}
	withPort := vx.Bool("withport")
	hh := cli
	if withPort {
		hh = cli + ":443"
	}
	strict := vx.Bool("strict")
	s := vxC16Server(host, strict)
	pctx := &proxy.DNSContext{Proto: proxy.ProtoHTTPS, HTTPRequest: &http.Request{URL: &url.URL{Path: "/dns-query"}, Host: hh}}
	id, err := s.clientIDFromDNSContext(pctx)
	vx.Note(id)
	vx.Note(err != nil)
	want, wantErr := vxC16Want(host, cli, strict)
	if wantErr {
		vx.Assert(err != nil && id == "", "rejected")
		return
	}
	if want != "" {
		vx.Reach("hh-id")
	} else {
		vx.Reach("hh-noid")
	}
	vx.Assert(err == nil, "request accepted")
	vx.Assert(id == want, "ClientID from Host header label")
}
