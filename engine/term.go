package main

// Terms: a small DAG of SMT bit-vector / Bool expressions with eager constant
// folding and a concrete evaluator (used for the concolic model).

import (
	"fmt"
	"math/bits"
	"strings"
)

type Op uint8

const (
	OpConst Op = iota
	OpVar
	OpAdd
	OpSub
	OpMul
	OpUDiv
	OpURem
	OpSDiv
	OpSRem
	OpAnd
	OpOr
	OpXor
	OpShl
	OpLShr
	OpAShr
	OpNot
	OpNeg
	OpExtract // val = hi<<16|lo
	OpZExt
	OpSExt
	OpConcat
	OpIte
	OpEq
	OpUlt
	OpUle
	OpSlt
	OpSle
	OpBAnd
	OpBOr
	OpBNot
)

var opNames = map[Op]string{
	OpAdd: "bvadd", OpSub: "bvsub", OpMul: "bvmul", OpUDiv: "bvudiv", OpURem: "bvurem",
	OpSDiv: "bvsdiv", OpSRem: "bvsrem", OpAnd: "bvand", OpOr: "bvor", OpXor: "bvxor",
	OpShl: "bvshl", OpLShr: "bvlshr", OpAShr: "bvashr", OpNot: "bvnot", OpNeg: "bvneg",
	OpConcat: "concat", OpIte: "ite", OpEq: "=", OpUlt: "bvult", OpUle: "bvule",
	OpSlt: "bvslt", OpSle: "bvsle", OpBAnd: "and", OpBOr: "or", OpBNot: "not",
}

// Term is an SMT term.  w == 0 means Bool.
type Term struct {
	op      Op
	w       uint16
	val     uint64
	a, b, c *Term
	name    string
	id      uint32
	emitted uint32 // solver session in which a define-fun was sent
	mver    uint32 // model version of mval
	mval    uint64
}

var termCounter uint32 // only used for ids; per-worker uniqueness is ensured by worker prefix

func mask(w uint16) uint64 {
	if w >= 64 {
		return ^uint64(0)
	}
	return (uint64(1) << w) - 1
}

func sext(v uint64, w uint16) int64 {
	if w >= 64 {
		return int64(v)
	}
	sh := 64 - w
	return int64(v<<sh) >> sh
}

func (t *Term) IsConst() bool { return t.op == OpConst }
func (t *Term) IsBool() bool  { return t.w == 0 }

// small constant cache
var constCache [5][257]*Term // index by width class, value 0..256
var trueT = &Term{op: OpConst, w: 0, val: 1}
var falseT = &Term{op: OpConst, w: 0, val: 0}

func wclass(w uint16) int {
	switch w {
	case 8:
		return 0
	case 16:
		return 1
	case 32:
		return 2
	case 64:
		return 3
	}
	return -1
}

func init() {
	for c, w := range []uint16{8, 16, 32, 64} {
		for v := 0; v <= 256; v++ {
			if w == 8 && v > 255 {
				continue
			}
			constCache[c][v] = &Term{op: OpConst, w: w, val: uint64(v)}
		}
	}
}

func mkConst(v uint64, w uint16) *Term {
	if w == 0 {
		if v != 0 {
			return trueT
		}
		return falseT
	}
	v &= mask(w)
	if v <= 256 {
		if c := wclass(w); c >= 0 {
			if t := constCache[c][v]; t != nil {
				return t
			}
		}
	}
	return &Term{op: OpConst, w: w, val: v}
}

func mkBool(b bool) *Term {
	if b {
		return trueT
	}
	return falseT
}

type termKey struct {
	op      Op
	w       uint16
	val     uint64
	a, b, c *Term
}

type termFactory struct {
	next  uint32
	table map[termKey]*Term
}

// newTerm hash-conses: structurally equal terms are pointer-equal, so the
// interval pre-solver and the trivial-equality folds see repeated conditions.
func (f *termFactory) newTerm(op Op, w uint16, a, b, c *Term) *Term {
	return f.newTermV(op, w, 0, a, b, c)
}

func (f *termFactory) newTermV(op Op, w uint16, val uint64, a, b, c *Term) *Term {
	if f.table == nil {
		f.table = map[termKey]*Term{}
	}
	k := termKey{op, w, val, a, b, c}
	if t, ok := f.table[k]; ok {
		return t
	}
	f.next++
	t := &Term{op: op, w: w, val: val, a: a, b: b, c: c, id: f.next}
	f.table[k] = t
	return t
}

func (f *termFactory) mkVar(name string, w uint16) *Term {
	f.next++
	return &Term{op: OpVar, w: w, name: name, id: f.next}
}

// foldBin computes a binary BV op on constants.
func foldBin(op Op, w uint16, x, y uint64) uint64 {
	m := mask(w)
	x &= m
	y &= m
	switch op {
	case OpAdd:
		return (x + y) & m
	case OpSub:
		return (x - y) & m
	case OpMul:
		return (x * y) & m
	case OpUDiv:
		if y == 0 {
			return m
		}
		return x / y
	case OpURem:
		if y == 0 {
			return x
		}
		return x % y
	case OpSDiv:
		sx, sy := sext(x, w), sext(y, w)
		if sy == 0 {
			if sx >= 0 {
				return m
			}
			return 1
		}
		if sy == -1 {
			return uint64(-sx) & m
		}
		return uint64(sx/sy) & m
	case OpSRem:
		sx, sy := sext(x, w), sext(y, w)
		if sy == 0 {
			return x
		}
		if sy == -1 {
			return 0
		}
		return uint64(sx%sy) & m
	case OpAnd:
		return x & y
	case OpOr:
		return x | y
	case OpXor:
		return x ^ y
	case OpShl:
		if y >= uint64(w) {
			return 0
		}
		return (x << y) & m
	case OpLShr:
		if y >= uint64(w) {
			return 0
		}
		return x >> y
	case OpAShr:
		sx := sext(x, w)
		if y >= uint64(w) {
			if sx < 0 {
				return m
			}
			return 0
		}
		return uint64(sx>>y) & m
	}
	panic("foldBin: bad op")
}

func foldCmp(op Op, w uint16, x, y uint64) bool {
	m := mask(w)
	if w == 0 {
		m = 1
	}
	x &= m
	y &= m
	switch op {
	case OpEq:
		return x == y
	case OpUlt:
		return x < y
	case OpUle:
		return x <= y
	case OpSlt:
		return sext(x, w) < sext(y, w)
	case OpSle:
		return sext(x, w) <= sext(y, w)
	}
	panic("foldCmp: bad op")
}

func (f *termFactory) Bin(op Op, a, b *Term) *Term {
	if a.w != b.w {
		panic(fmt.Sprintf("Bin %v: width mismatch %d vs %d", opNames[op], a.w, b.w))
	}
	w := a.w
	if a.IsConst() && b.IsConst() {
		return mkConst(foldBin(op, w, a.val, b.val), w)
	}
	// canonicalise x - c as x + (-c) and fold nested constant additions
	if op == OpSub && b.IsConst() {
		return f.Bin(OpAdd, a, mkConst(-b.val, w))
	}
	if op == OpAdd {
		if a.IsConst() {
			a, b = b, a
		}
		if b.IsConst() && a.op == OpAdd && a.b != nil && a.b.IsConst() {
			return f.Bin(OpAdd, a.a, mkConst(a.b.val+b.val, w))
		}
	}
	// light simplifications
	switch op {
	case OpAdd, OpOr, OpXor:
		if a.IsConst() && a.val == 0 {
			return b
		}
		if b.IsConst() && b.val == 0 {
			return a
		}
	case OpSub, OpShl, OpLShr, OpAShr:
		if b.IsConst() && b.val == 0 {
			return a
		}
	case OpAnd:
		if a.IsConst() && a.val == 0 || b.IsConst() && b.val == 0 {
			return mkConst(0, w)
		}
		if a.IsConst() && a.val == mask(w) {
			return b
		}
		if b.IsConst() && b.val == mask(w) {
			return a
		}
	case OpMul:
		if a.IsConst() && a.val == 0 || b.IsConst() && b.val == 0 {
			return mkConst(0, w)
		}
		if a.IsConst() && a.val == 1 {
			return b
		}
		if b.IsConst() && b.val == 1 {
			return a
		}
	case OpUDiv, OpSDiv:
		if b.IsConst() && b.val == 1 {
			return a
		}
	}
	return f.newTerm(op, w, a, b, nil)
}

func (f *termFactory) Cmp(op Op, a, b *Term) *Term {
	if a.w != b.w {
		panic(fmt.Sprintf("Cmp %v: width mismatch %d vs %d", opNames[op], a.w, b.w))
	}
	if a.IsConst() && b.IsConst() {
		return mkBool(foldCmp(op, a.w, a.val, b.val))
	}
	if a == b {
		switch op {
		case OpEq, OpUle, OpSle:
			return trueT
		default:
			return falseT
		}
	}
	// comparisons of a zero-extended value with a constant narrow to the
	// original width
	if a.op == OpZExt && b.IsConst() && (op == OpEq || op == OpUlt || op == OpUle) {
		nw := a.a.w
		if b.val > mask(nw) {
			if op == OpEq {
				return falseT
			}
			return trueT
		}
		return f.Cmp(op, a.a, mkConst(b.val, nw))
	}
	if b.op == OpZExt && a.IsConst() && (op == OpEq || op == OpUlt || op == OpUle) {
		nw := b.a.w
		if a.val > mask(nw) {
			return falseT
		}
		return f.Cmp(op, mkConst(a.val, nw), b.a)
	}
	if op == OpEq && a.w == 0 {
		// bool equality with const
		if a.IsConst() {
			a, b = b, a
		}
		if b.IsConst() {
			if b.val != 0 {
				return a
			}
			return f.Not(a)
		}
	}
	return f.newTerm(op, 0, a, b, nil)
}

func (f *termFactory) Eq(a, b *Term) *Term  { return f.Cmp(OpEq, a, b) }
func (f *termFactory) Neq(a, b *Term) *Term { return f.Not(f.Cmp(OpEq, a, b)) }

func (f *termFactory) Not(a *Term) *Term {
	if a.w != 0 {
		panic("Not on non-bool")
	}
	if a.IsConst() {
		return mkBool(a.val == 0)
	}
	if a.op == OpBNot {
		return a.a
	}
	return f.newTerm(OpBNot, 0, a, nil, nil)
}

func (f *termFactory) And(a, b *Term) *Term {
	if a.IsConst() {
		if a.val != 0 {
			return b
		}
		return falseT
	}
	if b.IsConst() {
		if b.val != 0 {
			return a
		}
		return falseT
	}
	if a == b {
		return a
	}
	return f.newTerm(OpBAnd, 0, a, b, nil)
}

func (f *termFactory) Or(a, b *Term) *Term {
	if a.IsConst() {
		if a.val != 0 {
			return trueT
		}
		return b
	}
	if b.IsConst() {
		if b.val != 0 {
			return trueT
		}
		return a
	}
	if a == b {
		return a
	}
	return f.newTerm(OpBOr, 0, a, b, nil)
}

func (f *termFactory) BvNot(a *Term) *Term {
	if a.IsConst() {
		return mkConst(^a.val, a.w)
	}
	return f.newTerm(OpNot, a.w, a, nil, nil)
}

func (f *termFactory) Neg(a *Term) *Term {
	if a.IsConst() {
		return mkConst(-a.val, a.w)
	}
	return f.newTerm(OpNeg, a.w, a, nil, nil)
}

func (f *termFactory) Ite(c, a, b *Term) *Term {
	if a.w != b.w {
		panic("Ite: width mismatch")
	}
	if c.IsConst() {
		if c.val != 0 {
			return a
		}
		return b
	}
	if a == b {
		return a
	}
	if a.IsConst() && b.IsConst() && a.val == b.val {
		return a
	}
	if a.w == 0 && a.IsConst() && b.IsConst() {
		if a.val != 0 {
			return c
		}
		return f.Not(c)
	}
	return f.newTerm(OpIte, a.w, c, a, b)
}

func (f *termFactory) Extract(a *Term, hi, lo uint16) *Term {
	w := hi - lo + 1
	if lo == 0 && w == a.w {
		return a
	}
	if a.IsConst() {
		return mkConst(a.val>>lo, w)
	}
	return f.newTermV(OpExtract, w, uint64(hi)<<16|uint64(lo), a, nil, nil)
}

func (f *termFactory) ZExt(a *Term, w uint16) *Term {
	if w == a.w {
		return a
	}
	if w < a.w {
		return f.Extract(a, w-1, 0)
	}
	if a.IsConst() {
		return mkConst(a.val, w)
	}
	return f.newTerm(OpZExt, w, a, nil, nil)
}

func (f *termFactory) SExt(a *Term, w uint16) *Term {
	if w == a.w {
		return a
	}
	if w < a.w {
		return f.Extract(a, w-1, 0)
	}
	if a.IsConst() {
		return mkConst(uint64(sext(a.val, a.w)), w)
	}
	return f.newTerm(OpSExt, w, a, nil, nil)
}

func (f *termFactory) Concat(hi, lo *Term) *Term {
	w := hi.w + lo.w
	if w > 64 {
		panic("Concat: width > 64")
	}
	if hi.IsConst() && lo.IsConst() {
		return mkConst(hi.val<<lo.w|lo.val, w)
	}
	return f.newTerm(OpConcat, w, hi, lo, nil)
}

// BoolToBV converts Bool to a 1/0 bit-vector of width w.
func (f *termFactory) BoolToBV(c *Term, w uint16) *Term {
	return f.Ite(c, mkConst(1, w), mkConst(0, w))
}

// ---- evaluation under a model ----

type Model struct {
	ver  uint32
	vals map[string]uint64
}

func (t *Term) Eval(m *Model) uint64 {
	switch t.op {
	case OpConst:
		return t.val
	}
	if t.mver == m.ver {
		return t.mval
	}
	var r uint64
	switch t.op {
	case OpVar:
		r = m.vals[t.name] & maskB(t.w)
	case OpAdd, OpSub, OpMul, OpUDiv, OpURem, OpSDiv, OpSRem, OpAnd, OpOr, OpXor, OpShl, OpLShr, OpAShr:
		r = foldBin(t.op, t.w, t.a.Eval(m), t.b.Eval(m))
	case OpNot:
		r = ^t.a.Eval(m) & mask(t.w)
	case OpNeg:
		r = -t.a.Eval(m) & mask(t.w)
	case OpExtract:
		lo := uint16(t.val & 0xffff)
		r = (t.a.Eval(m) >> lo) & mask(t.w)
	case OpZExt:
		r = t.a.Eval(m)
	case OpSExt:
		r = uint64(sext(t.a.Eval(m), t.a.w)) & mask(t.w)
	case OpConcat:
		r = t.a.Eval(m)<<t.b.w | t.b.Eval(m)
	case OpIte:
		if t.a.Eval(m) != 0 {
			r = t.b.Eval(m)
		} else {
			r = t.c.Eval(m)
		}
	case OpEq, OpUlt, OpUle, OpSlt, OpSle:
		if foldCmp(t.op, t.a.w, t.a.Eval(m), t.b.Eval(m)) {
			r = 1
		}
	case OpBAnd:
		if t.a.Eval(m) != 0 && t.b.Eval(m) != 0 {
			r = 1
		}
	case OpBOr:
		if t.a.Eval(m) != 0 || t.b.Eval(m) != 0 {
			r = 1
		}
	case OpBNot:
		if t.a.Eval(m) == 0 {
			r = 1
		}
	default:
		panic("Eval: bad op")
	}
	t.mver = m.ver
	t.mval = r
	return r
}

func maskB(w uint16) uint64 {
	if w == 0 {
		return 1
	}
	return mask(w)
}

// ---- SMT-LIB printing ----

func sortOf(w uint16) string {
	if w == 0 {
		return "Bool"
	}
	return fmt.Sprintf("(_ BitVec %d)", w)
}

func quoteName(n string) string {
	return "|v:" + strings.NewReplacer("|", "_", "\\", "_").Replace(n) + "|"
}

func (t *Term) ref() string {
	switch t.op {
	case OpConst:
		if t.w == 0 {
			if t.val != 0 {
				return "true"
			}
			return "false"
		}
		if t.w%4 == 0 {
			return fmt.Sprintf("#x%0*x", int(t.w/4), t.val)
		}
		return fmt.Sprintf("(_ bv%d %d)", t.val, t.w)
	case OpVar:
		return quoteName(t.name)
	}
	return fmt.Sprintf("t%d", t.id)
}

// emit writes define-funs for t and its not-yet-emitted sub-terms.
func (t *Term) emit(sb *strings.Builder, session uint32) {
	if t.op == OpConst || t.op == OpVar || t.emitted == session {
		return
	}
	// iterative post-order to avoid deep recursion on long chains
	type item struct {
		t    *Term
		done bool
	}
	stack := []item{{t, false}}
	for len(stack) > 0 {
		it := stack[len(stack)-1]
		stack = stack[:len(stack)-1]
		x := it.t
		if x.op == OpConst || x.op == OpVar || x.emitted == session {
			continue
		}
		if !it.done {
			stack = append(stack, item{x, true})
			for _, ch := range []*Term{x.c, x.b, x.a} {
				if ch != nil && ch.op != OpConst && ch.op != OpVar && ch.emitted != session {
					stack = append(stack, item{ch, false})
				}
			}
			continue
		}
		x.emitted = session
		fmt.Fprintf(sb, "(define-fun t%d () %s ", x.id, sortOf(x.w))
		switch x.op {
		case OpExtract:
			fmt.Fprintf(sb, "((_ extract %d %d) %s)", x.val>>16, x.val&0xffff, x.a.ref())
		case OpZExt:
			fmt.Fprintf(sb, "((_ zero_extend %d) %s)", x.w-x.a.w, x.a.ref())
		case OpSExt:
			fmt.Fprintf(sb, "((_ sign_extend %d) %s)", x.w-x.a.w, x.a.ref())
		default:
			sb.WriteString("(" + opNames[x.op])
			for _, ch := range []*Term{x.a, x.b, x.c} {
				if ch != nil {
					sb.WriteString(" " + ch.ref())
				}
			}
			sb.WriteString(")")
		}
		sb.WriteString(")\n")
	}
}

func (t *Term) String() string {
	switch t.op {
	case OpConst:
		if t.w == 0 {
			return fmt.Sprint(t.val != 0)
		}
		return fmt.Sprintf("%d:%d", t.val, t.w)
	case OpVar:
		return t.name
	}
	s := "(" + opNames[t.op]
	if t.op == OpExtract {
		s = fmt.Sprintf("(extract[%d:%d]", t.val>>16, t.val&0xffff)
	} else if t.op == OpZExt {
		s = "(zext"
	} else if t.op == OpSExt {
		s = "(sext"
	}
	for _, ch := range []*Term{t.a, t.b, t.c} {
		if ch != nil {
			s += " " + ch.String()
		}
	}
	return s + ")"
}

var _ = bits.Len
