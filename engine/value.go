package main

// Runtime values of the symbolic interpreter.
//
//   bool / all integer kinds : *Term (Bool or BitVec of the Go width)
//   float32/64               : float64 (concrete only)
//   string                   : string (concrete) or *SymStr (concrete length, symbolic bytes)
//   pointer                  : *Value (nil pointer = (*Value)(nil))
//   struct / array / tuple   : Struct / Array / Tuple ([]Value)
//   slice                    : Slice ([]Value, nil = Slice(nil))
//   map                      : *Map (nil map = (*Map)(nil))
//   chan                     : *Chan
//   interface                : Iface{t,v} (nil interface = Iface{})
//   func                     : *ssa.Function, *Closure, *ssa.Builtin ; nil = (*Closure)(nil)

import (
	"fmt"
	"go/types"
	"sort"
	"strings"

	"golang.org/x/tools/go/ssa"
)

type Value interface{}

type Struct []Value
type Array []Value
type Tuple []Value
type Slice []Value

type SymStr struct{ b []*Term }

type Iface struct {
	t types.Type
	v Value
}

type Closure struct {
	fn  *ssa.Function
	env []Value
}

type Chan struct {
	buf    []Value
	cap    int
	closed bool
}

type mapEntry struct {
	k, v    Value
	deleted bool
}

type Map struct {
	entries []mapEntry
	index   map[string]int // concrete key hash -> entry index; valid only if allConcrete
	allConc bool
	live    int
	lazy    *lazyMapInfo
}

// Poison marks the result of a package-initialiser call that could not be
// interpreted; any use is reported as unsupported.
type Poison struct{ why string }

func isNilFunc(v Value) bool {
	switch f := v.(type) {
	case *Closure:
		return f == nil
	case *ssa.Function:
		return f == nil
	case *ssa.Builtin:
		return f == nil
	case nil:
		return true
	}
	return false
}

// ---- strings ----

func strLen(v Value) int {
	switch s := v.(type) {
	case string:
		return len(s)
	case *SymStr:
		return len(s.b)
	}
	panic(fmt.Sprintf("strLen: %T", v))
}

func strBytes(v Value) []*Term {
	switch s := v.(type) {
	case string:
		r := make([]*Term, len(s))
		for i := 0; i < len(s); i++ {
			r[i] = mkConst(uint64(s[i]), 8)
		}
		return r
	case *SymStr:
		return s.b
	}
	panic(fmt.Sprintf("strBytes: %T", v))
}

func mkStr(b []*Term) Value {
	conc := true
	for _, t := range b {
		if !t.IsConst() {
			conc = false
			break
		}
	}
	if conc {
		bs := make([]byte, len(b))
		for i, t := range b {
			bs[i] = byte(t.val)
		}
		return string(bs)
	}
	c := make([]*Term, len(b))
	copy(c, b)
	return &SymStr{c}
}

// ---- zero values ----

func zero(t types.Type) Value {
	switch t := t.(type) {
	case *types.Basic:
		if t.Kind() == types.UntypedNil {
			panic("untyped nil has no zero value")
		}
		if t.Info()&types.IsUntyped != 0 {
			t = types.Default(t).(*types.Basic)
		}
		switch {
		case t.Kind() == types.Bool:
			return falseT
		case t.Info()&types.IsInteger != 0:
			return mkConst(0, intWidth(t))
		case t.Info()&types.IsFloat != 0:
			return float64(0)
		case t.Info()&types.IsString != 0:
			return ""
		case t.Kind() == types.UnsafePointer:
			return (*Value)(nil)
		case t.Info()&types.IsComplex != 0:
			return complex128(0)
		}
		panic(fmt.Sprint("zero for unexpected basic type: ", t))
	case *types.Pointer:
		return (*Value)(nil)
	case *types.Array:
		a := make(Array, t.Len())
		for i := range a {
			a[i] = zero(t.Elem())
		}
		return a
	case *types.Named, *types.Alias:
		return zero(t.Underlying())
	case *types.Interface:
		return Iface{}
	case *types.Slice:
		return Slice(nil)
	case *types.Struct:
		s := make(Struct, t.NumFields())
		for i := range s {
			s[i] = zero(t.Field(i).Type())
		}
		return s
	case *types.Tuple:
		if t.Len() == 1 {
			return zero(t.At(0).Type())
		}
		s := make(Tuple, t.Len())
		for i := range s {
			s[i] = zero(t.At(i).Type())
		}
		return s
	case *types.Chan:
		return (*Chan)(nil)
	case *types.Map:
		return (*Map)(nil)
	case *types.Signature:
		return (*Closure)(nil)
	case *types.TypeParam:
		panic(unsupported{"zero of type parameter " + t.String()})
	}
	panic(fmt.Sprint("zero: unexpected type: ", t))
}

func intWidth(t *types.Basic) uint16 {
	switch t.Kind() {
	case types.Int8, types.Uint8:
		return 8
	case types.Int16, types.Uint16:
		return 16
	case types.Int32, types.Uint32:
		return 32
	case types.Int, types.Uint, types.Int64, types.Uint64, types.Uintptr:
		return 64
	case types.UntypedInt, types.UntypedRune:
		return 64
	}
	panic("intWidth: " + t.String())
}

func isSigned(t *types.Basic) bool {
	return t.Info()&types.IsUnsigned == 0
}

// copyVal makes a copy of aggregate values (value semantics).
func copyVal(v Value) Value {
	switch v := v.(type) {
	case Struct:
		c := make(Struct, len(v))
		for i, x := range v {
			c[i] = copyVal(x)
		}
		return c
	case Array:
		c := make(Array, len(v))
		for i, x := range v {
			c[i] = copyVal(x)
		}
		return c
	case Tuple:
		return v
	case Iface:
		// the dynamic value of an interface is immutable, but aggregates inside must not alias
		switch v.v.(type) {
		case Struct, Array:
			return Iface{v.t, copyVal(v.v)}
		}
		return v
	}
	return v
}

// ---- concrete hashing of values (for map fast path and event logs) ----

func isConcrete(v Value) bool {
	switch v := v.(type) {
	case *Term:
		return v.IsConst()
	case string, float64, complex128:
		return true
	case *SymStr:
		return false
	case Struct:
		for _, x := range v {
			if !isConcrete(x) {
				return false
			}
		}
		return true
	case Array:
		for _, x := range v {
			if !isConcrete(x) {
				return false
			}
		}
		return true
	case Iface:
		if v.t == nil {
			return true
		}
		if v.t == lazyType {
			return false
		}
		return isConcrete(v.v)
	}
	return true
}

func hashKey(v Value) string {
	var sb strings.Builder
	writeKey(&sb, v)
	return sb.String()
}

func writeKey(sb *strings.Builder, v Value) {
	switch v := v.(type) {
	case *Term:
		fmt.Fprintf(sb, "i%d;", v.val)
	case string:
		fmt.Fprintf(sb, "s%d:%s;", len(v), v)
	case float64:
		fmt.Fprintf(sb, "f%v;", v)
	case Struct:
		sb.WriteString("{")
		for _, x := range v {
			writeKey(sb, x)
		}
		sb.WriteString("}")
	case Array:
		sb.WriteString("[")
		for _, x := range v {
			writeKey(sb, x)
		}
		sb.WriteString("]")
	case Iface:
		if v.t == nil {
			sb.WriteString("nil;")
		} else {
			fmt.Fprintf(sb, "I<%s>", v.t.String())
			writeKey(sb, v.v)
		}
	case *Value:
		fmt.Fprintf(sb, "p%p;", v)
	case *Map:
		fmt.Fprintf(sb, "m%p;", v)
	case *Chan:
		fmt.Fprintf(sb, "c%p;", v)
	case *ssa.Function:
		fmt.Fprintf(sb, "F%p;", v)
	case *Closure:
		fmt.Fprintf(sb, "C%p;", v)
	default:
		panic(unsupported{fmt.Sprintf("hashKey of %T", v)})
	}
}

// ---- debugging / evidence rendering ----

func showValue(v Value, depth int) string {
	if depth > 4 {
		return "…"
	}
	switch v := v.(type) {
	case nil:
		return "<nil>"
	case *Term:
		if v.IsConst() {
			if v.w == 0 {
				return fmt.Sprint(v.val != 0)
			}
			return fmt.Sprint(v.val)
		}
		return "sym"
	case string:
		return fmt.Sprintf("%q", v)
	case *SymStr:
		return fmt.Sprintf("symstr[%d]", len(v.b))
	case float64:
		return fmt.Sprint(v)
	case Struct:
		parts := []string{}
		for _, x := range v {
			parts = append(parts, showValue(x, depth+1))
		}
		return "{" + strings.Join(parts, " ") + "}"
	case Array:
		parts := []string{}
		for _, x := range v {
			parts = append(parts, showValue(x, depth+1))
		}
		return "[" + strings.Join(parts, " ") + "]"
	case Slice:
		if v == nil {
			return "nil-slice"
		}
		parts := []string{}
		for i, x := range v {
			if i > 16 {
				parts = append(parts, "…")
				break
			}
			parts = append(parts, showValue(x, depth+1))
		}
		return "[]{" + strings.Join(parts, " ") + "}"
	case Tuple:
		parts := []string{}
		for _, x := range v {
			parts = append(parts, showValue(x, depth+1))
		}
		return "(" + strings.Join(parts, ", ") + ")"
	case Iface:
		if v.t == nil {
			return "nil-iface"
		}
		return "iface<" + v.t.String() + ">" + showValue(v.v, depth+1)
	case *Value:
		if v == nil {
			return "nil-ptr"
		}
		return "&" + showValue(*v, depth+1)
	case *Map:
		if v == nil {
			return "nil-map"
		}
		parts := []string{}
		for _, e := range v.entries {
			if !e.deleted {
				parts = append(parts, showValue(e.k, depth+1)+":"+showValue(e.v, depth+1))
			}
		}
		sort.Strings(parts)
		return "map{" + strings.Join(parts, " ") + "}"
	case *ssa.Function:
		if v == nil {
			return "nil-func"
		}
		return "func " + v.String()
	case *Closure:
		if v == nil {
			return "nil-func"
		}
		return "closure " + v.fn.String()
	}
	return fmt.Sprintf("%T", v)
}
