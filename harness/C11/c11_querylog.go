//go:build verif

package querylog

// C11 — registration helper: runs the real (*queryLog).initWeb with the
// registration callback supplied by the home harness.
//
//vx:overlay internal/querylog/zz_vx_c11.go

import "github.com/AdguardTeam/AdGuardHome/internal/aghhttp"

// VxC11Register registers the query log HTTP API through reg.
func VxC11Register(reg aghhttp.RegisterFunc) {
	l := &queryLog{conf: &Config{HTTPRegister: reg}}
	l.initWeb()
}
