//go:build verif

package filtering

// C19, caller side: what DNSFilter.CheckHost hands to the safe-browsing and
// parental-control checkers and what it makes of their verdicts.
//
//vx:overlay internal/filtering/zz_vx_c19f.go
//vx:entry vxC19Dispatch reach=sb-blocked,pc-blocked,passed,upper-case,disabled,lookup-error
//vx:note Dispatch entry: CheckHost with the two hash-prefix host checkers (as New() wires them) and recording fakes of filtering.Checker; name of 1..4 symbolic ASCII bytes (mixed case), the three enable switches, both verdicts and a lookup error symbolic; rewrites, hosts files, rule lists, blocked services and safe search are not installed

import (
	"errors"

	"github.com/AdguardTeam/AdGuardHome/internal/vx"
)

type vxC19Checker struct {
	hosts []string
	block bool
	fail  bool
}

var vxC19ErrLookup = errors.New("vx: lookup failed")

func (c *vxC19Checker) Check(host string) (block bool, err error) {
	c.hosts = append(c.hosts, host)
	if c.fail {
		return false, vxC19ErrLookup
	}
	return c.block, nil
}

// vxC19LowerOf reports whether got is the ASCII lower-case form of name.
func vxC19LowerOf(got, name string) bool {
	if len(got) != len(name) {
		return false
	}
	ok := true
	for i := 0; i < len(name); i++ {
		c := name[i]
		up := vx.And('A' <= c, c <= 'Z')
		ok = vx.And(ok, vx.Or(vx.And(up, got[i] == c+32), vx.And(!up, got[i] == c)))
	}
	return ok
}

func vxC19Dispatch() {
	n := 1 + vx.Choice("len", 4)
	name := vx.String("name", n)
	upper := false
	for i := 0; i < n; i++ {
		vx.Assume(name[i] < 0x80)
		upper = vx.Or(upper, vx.And('A' <= name[i], name[i] <= 'Z'))
	}
	sb := &vxC19Checker{block: vx.Bool("sbBlock"), fail: vx.Bool("sbFail")}
	pc := &vxC19Checker{block: vx.Bool("pcBlock")}
	d := &DNSFilter{safeBrowsingChecker: sb, parentalControlChecker: pc}
	d.hostCheckers = []hostChecker{{
		check: d.checkSafeBrowsing,
		name:  "safe browsing",
	}, {
		check: d.checkParental,
		name:  "parental",
	}}
	setts := &Settings{
		ProtectionEnabled:   vx.Bool("protection"),
		SafeBrowsingEnabled: vx.Bool("sbEnabled"),
		ParentalEnabled:     vx.Bool("pcEnabled"),
	}

	res, err := d.CheckHost(name, 1, setts)

	for _, h := range sb.hosts {
		vx.Assert(vxC19LowerOf(h, name), "the safe-browsing checker gets the lower-case name")
	}
	for _, h := range pc.hosts {
		vx.Assert(vxC19LowerOf(h, name), "the parental-control checker gets the lower-case name")
	}
	sbOn := setts.ProtectionEnabled && setts.SafeBrowsingEnabled
	pcOn := setts.ProtectionEnabled && setts.ParentalEnabled
	if upper {
		vx.Reach("upper-case")
	}
	if !sbOn {
		vx.Reach("disabled")
		vx.Assert(len(sb.hosts) == 0, "safe browsing switched off: no lookup")
	} else {
		vx.Assert(len(sb.hosts) == 1, "safe browsing switched on: one lookup")
	}
	if sbOn && sb.fail {
		vx.Reach("lookup-error")
		vx.Assert(err != nil && !res.IsFiltered, "a failed lookup is reported and blocks nothing")
		vx.Assert(len(pc.hosts) == 0, "no further lookups after an error")
		return
	}
	vx.Assert(err == nil, "no error")
	if sbOn && sb.block {
		vx.Reach("sb-blocked")
		vx.Assert(res.IsFiltered && res.Reason == FilteredSafeBrowsing, "safe-browsing verdict blocks the name")
		vx.Assert(len(pc.hosts) == 0, "no parental lookup for a name already blocked")
		return
	}
	if !pcOn {
		vx.Assert(len(pc.hosts) == 0, "parental control switched off: no lookup")
	} else {
		vx.Assert(len(pc.hosts) == 1, "parental control switched on: one lookup")
	}
	if pcOn && pc.block {
		vx.Reach("pc-blocked")
		vx.Assert(res.IsFiltered && res.Reason == FilteredParental, "parental-control verdict blocks the name")
		return
	}
	vx.Reach("passed")
	vx.Assert(!res.IsFiltered && res.Reason == NotFilteredNotFound, "a name neither checker blocks passes")
}
