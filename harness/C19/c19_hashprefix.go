//go:build verif

package hashprefix

// C19 — safe-browsing / parental lookups reveal only hash prefixes; the cache
// never changes the verdict.
//
//vx:native
//vx:overlay internal/filtering/hashprefix/zz_vx_c19.go
//vx:entry vxC19Names reach=blocked,clean,nothing-to-ask,icann-cut,private-full,truncated
//vx:entry vxC19Verdict reach=blocked,clean,prefix-collision,malformed-skipped
//vx:entry vxC19Cache reach=fresh,expired,second-from-cache,second-partial,second-blocked,second-clean
//vx:stub crypto/sha256.Sum256 vxC19Sum256
//vx:stub golang.org/x/net/publicsuffix.PublicSuffix vxC19PublicSuffix
//vx:stub time.Now vxC19Now
//vx:note SHA-256 is an uninterpreted function (fresh symbolic 32-byte value per distinct input, so collisions of prefixes and of whole hashes between different names and with database entries are inside); the public-suffix table is a stub returning the last k labels (k in 1..min(labels,4)) and a symbolic ICANN bit; names: labels of 1..2 symbolic ASCII bytes other than '.'
//vx:note lookup service = harness fake holding a database D of full hashes (bytes 0,1,31 symbolic in quick; 0,1,2,31 in thorough; the names' own hashes are symbolic in all 32 bytes); it answers exactly the members of D whose 2-byte prefix was asked, in lower-case hex, as one TXT RR per hash or all in one RR, next to a non-TXT RR and possibly one malformed string (64 characters with one non-hex character, 62 characters, 128 characters)
//vx:note Names entry: every shape of name of 1..6 (thorough 1..8) labels, |D| = 1.  Verdict entry: name with 3 hashed names, |D| = 2, every kind of malformed string (thorough: also 4 hashed names with |D| = 3).  Both: one check against a cache that holds nothing
//vx:note Cache entry: 2 checks (one thorough scenario: 3) sharing a cache fake that never evicts; clock = stub of time.Now, constant within one Check, seconds and nanoseconds symbolic, advancing by a symbolic amount (<= 4 days) between checks; cache time 10 min (thorough scenarios also 0, 1 s, 30 min); the database is replaced by an arbitrary new one exactly when the clock has passed the previous check's time + cache time (every entry that check wrote or used has expired by then), otherwise it stays.  quick: one-label name then the same name or a child, two database hashes sharing their prefix; thorough: four more scenarios (two-label name then its parent, cache time 30 min; cache time 0 with a two-hash database after expiry; three checks of one name, cache time 1 s; unrelated database prefixes)
//vx:note outside: SHA-256 itself, the public-suffix table (ICANN suffixes longer than 4 labels do not exist), cache eviction, upstream errors, upper-case hex in answers, a service that answers hashes that were not asked for, fractional cache times, concurrent checks

import (
	"strings"
	"time"

	"github.com/AdguardTeam/AdGuardHome/internal/vx"
	"github.com/AdguardTeam/golibs/cache"
	"github.com/miekg/dns"
)

// ---- SHA-256 as an uninterpreted function ----

type vxC19ShaEntry struct {
	in  string
	out [32]byte
}

var vxC19Sha []vxC19ShaEntry

func vxC19Sum256(data []byte) (sum [32]byte) {
	s := string(data)
	for i := range vxC19Sha {
		if vxC19Sha[i].in == s {
			return vxC19Sha[i].out
		}
	}
	copy(sum[:], vx.Bytes("sha", 32))
	vxC19Sha = append(vxC19Sha, vxC19ShaEntry{in: s, out: sum})
	return sum
}

// ---- public-suffix table ----

var vxC19Suffix struct {
	labels int
	icann  bool
}

// vxC19PublicSuffix returns the last vxC19Suffix.labels labels of domain.
func vxC19PublicSuffix(domain string) (suffix string, icann bool) {
	n := 0
	for i := len(domain) - 1; i >= 0; i-- {
		if domain[i] == '.' {
			n++
			if n == vxC19Suffix.labels {
				return domain[i+1:], vxC19Suffix.icann
			}
		}
	}
	return domain, vxC19Suffix.icann
}

// ---- clock ----

var vxC19Clock time.Time

func vxC19Now() time.Time { return vxC19Clock }

// ---- cache fakes ----

// vxC19CacheT keeps every Set in a log (no eviction); Get returns the newest
// value stored under an equal key.  Only Get compares keys (path forks).
type vxC19CacheT struct {
	keys, vals [][]byte
}

func vxC19BytesEq(a, b []byte) bool {
	if len(a) != len(b) {
		return false
	}
	eq := true
	for i := range a {
		eq = vx.And(eq, a[i] == b[i])
	}
	return eq
}

func (c *vxC19CacheT) Set(key, val []byte) bool {
	c.keys = append(c.keys, append([]byte{}, key...))
	c.vals = append(c.vals, append([]byte{}, val...))
	return false
}

func (c *vxC19CacheT) Get(key []byte) []byte {
	for i := len(c.keys) - 1; i >= 0; i-- {
		if vxC19BytesEq(c.keys[i], key) {
			return append([]byte{}, c.vals[i]...)
		}
	}
	return nil
}

func (c *vxC19CacheT) Del(key []byte)         {}
func (c *vxC19CacheT) Clear()                 { c.keys, c.vals = nil, nil }
func (c *vxC19CacheT) Stats() (s cache.Stats) { return s }

// vxC19NoCache forgets everything at once (a cache is allowed to): used where
// a single check against an empty cache is examined.
type vxC19NoCache struct{ sets int }

func (c *vxC19NoCache) Set(key, val []byte) bool {
	vx.Assert(len(key) == 2 && len(val) >= 8 && (len(val)-8)%32 == 0, "cache entries are keyed by the 2-byte prefix and hold expiry + whole hashes")
	c.sets++
	return false
}
func (c *vxC19NoCache) Get(key []byte) []byte  { return nil }
func (c *vxC19NoCache) Del(key []byte)         {}
func (c *vxC19NoCache) Clear()                 {}
func (c *vxC19NoCache) Stats() (s cache.Stats) { return s }

// ---- own hex encoder (table look-up: no path fork on symbolic bytes) ----

const vxC19Digits = "0123456789abcdef"

func vxC19Nib(n byte) byte { return vxC19Digits[n] }

func vxC19Hex(dst, src []byte) []byte {
	for _, v := range src {
		dst = append(dst, vxC19Nib(v>>4), vxC19Nib(v&15))
	}
	return dst
}

// ---- lookup service fake ----

type vxC19Service struct {
	suffix string
	db     [][32]byte
	dbhex  []string // lower-case hex of db, as transmitted
	// bad is a malformed TXT string delivered with every answer (hasBad).
	hasBad bool
	bad    string
	// layout 0: one TXT RR per string; 1: all strings in one TXT RR.
	layout int

	questions []string
	badReq    bool
}

func (u *vxC19Service) Address() string { return "vx" }
func (u *vxC19Service) Close() error    { return nil }

func (u *vxC19Service) Exchange(req *dns.Msg) (resp *dns.Msg, err error) {
	if len(req.Question) != 1 || req.Question[0].Qtype != dns.TypeTXT || req.Question[0].Qclass != dns.ClassINET {
		u.badReq = true
	}
	name := ""
	if len(req.Question) > 0 {
		name = req.Question[0].Name
	}
	u.questions = append(u.questions, name)

	var chunks []string
	if body, ok := strings.CutSuffix(name, u.suffix); ok && len(body)%5 == 0 {
		for j := 0; j < len(body); j += 5 {
			chunks = append(chunks, body[j:j+4])
		}
	}
	var txts []string
	if u.hasBad {
		txts = append(txts, u.bad)
	}
	for _, hx := range u.dbhex {
		asked := false
		for _, ch := range chunks {
			asked = vx.Or(asked, ch == hx[:4])
		}
		if asked {
			txts = append(txts, hx)
		}
	}

	resp = &dns.Msg{}
	resp.Id = req.Id
	resp.Response = true
	resp.Question = req.Question
	hdr := dns.RR_Header{Name: name, Rrtype: dns.TypeTXT, Class: dns.ClassINET, Ttl: 60}
	resp.Answer = append(resp.Answer, &dns.A{Hdr: dns.RR_Header{Name: name, Rrtype: dns.TypeA, Class: dns.ClassINET}})
	if u.layout == 0 {
		for _, t := range txts {
			resp.Answer = append(resp.Answer, &dns.TXT{Hdr: hdr, Txt: []string{t}})
		}
	} else {
		resp.Answer = append(resp.Answer, &dns.TXT{Hdr: hdr, Txt: txts})
	}
	return resp, nil
}

// ---- inputs ----

func vxC19Label(tag string, n int) string {
	b := vx.Bytes(tag, n)
	for _, c := range b {
		vx.Assume(vx.And(c != '.', c < 0x80))
	}
	return string(b)
}

// vxC19SymPos are the byte positions at which database hashes are symbolic;
// the other bytes are fixed and pairwise different.  The names' own hashes are
// symbolic in all 32 bytes, so every partial comparison is still observable.
func vxC19SymPos() []int {
	if vx.Thorough() {
		return []int{0, 1, 2, 31}
	}
	return []int{0, 1, 31}
}

// vxC19Digit is a symbolic lower-case hex digit.
func vxC19Digit(tag string) byte {
	c := vx.Byte(tag)
	vx.Assume(vx.Or(vx.And('0' <= c, c <= '9'), vx.And('a' <= c, c <= 'f')))
	return c
}

// vxC19Rev maps a character to its value as a hex digit, 0xff for the others
// (own decoding table, filled by vxC19Reset).
var vxC19Rev [256]byte

// vxC19Val is the value of a hex digit.
func vxC19Val(c byte) byte { return vxC19Rev[c] }

// vxC19Hash returns a 32-byte value and its lower-case hex form as the service
// transmits it.  The symbolic bytes are given by two symbolic hex digits each.
func vxC19Hash(tag string) (h [32]byte, hx []byte) {
	for i := range h {
		h[i] = byte(0x41 + 5*i)
	}
	hx = vxC19Hex(nil, h[:])
	for _, p := range vxC19SymPos() {
		hi, lo := vxC19Digit(tag), vxC19Digit(tag)
		hx[2*p], hx[2*p+1] = hi, lo
		h[p] = vxC19Val(hi)<<4 | vxC19Val(lo)
	}
	return h, hx
}

// setDB replaces the database by n fresh hashes.
func (u *vxC19Service) setDB(tag string, n int) {
	u.db, u.dbhex = nil, nil
	for i := 0; i < n; i++ {
		h, hx := vxC19Hash(tag)
		u.db = append(u.db, h)
		u.dbhex = append(u.dbhex, string(hx))
	}
}

// vxC19Expected is the reference for the set of names whose hashes take part
// in a lookup: the name and its parents within the last four labels, without
// the public suffix and its parents when the suffix is an ICANN one.
func vxC19Expected(labels []string, sufLabels int, icann bool) (hashes [][32]byte) {
	n := len(labels)
	first := 0
	if n > 4 {
		first = n - 4
	}
	for i := first; i < n; i++ {
		if icann && n-i <= sufLabels {
			break
		}
		hashes = append(hashes, vxC19Sum256([]byte(strings.Join(labels[i:], "."))))
	}
	return hashes
}

// vxC19Question is the reference for the question: 4 hex digits of the first
// two bytes of every hash, each followed by a dot, then the service suffix.
func vxC19Question(hashes [][32]byte, suffix string) string {
	var b []byte
	for i := range hashes {
		b = vxC19Hex(b, hashes[i][:2])
		b = append(b, '.')
	}
	return string(b) + suffix
}

func vxC19Member(hashes [][32]byte, db [][32]byte) bool {
	in := false
	for i := range hashes {
		for j := range db {
			in = vx.Or(in, hashes[i] == db[j])
		}
	}
	return in
}

func vxC19SamePrefix(hashes [][32]byte, db [][32]byte) bool {
	in := false
	for i := range hashes {
		for j := range db {
			in = vx.Or(in, vx.And(hashes[i][0] == db[j][0], hashes[i][1] == db[j][1]))
		}
	}
	return in
}

const vxC19Base = int64(1_750_000_000)

func vxC19SetClock(sec, nsec int64) { vxC19Clock = time.Unix(sec, nsec) }

func vxC19Reset() {
	vxC19Sha = nil
	for i := range vxC19Rev {
		vxC19Rev[i] = 0xff
	}
	for i := 0; i < 16; i++ {
		vxC19Rev[vxC19Digits[i]] = byte(i)
	}
	for i := 10; i < 16; i++ {
		vxC19Rev[vxC19Digits[i]-'a'+'A'] = byte(i)
	}
	dns.Id = func() uint16 { return 7 }
}

// vxC19Bad returns a malformed TXT string of the given kind.
func vxC19Bad(kind, pos int) string {
	switch kind {
	case 1:
		// 64 characters: the hex form of a hash with one character replaced
		// by a non-hex one
		_, b := vxC19Hash("badhash")
		c := vx.Byte("badchar")
		isHex := vx.Or(vx.And('0' <= c, c <= '9'), vx.Or(vx.And('a' <= c, c <= 'f'), vx.And('A' <= c, c <= 'F')))
		vx.Assume(!isHex)
		b[pos] = c
		return string(b)
	case 2:
		// too short: 62 hex digits
		_, b := vxC19Hash("badhash")
		return string(b[:62])
	default:
		// too long: two hashes in one string
		_, b1 := vxC19Hash("badhash")
		_, b2 := vxC19Hash("badhash")
		return string(b1) + string(b2)
	}
}

// vxC19One runs one check of the name made of labels against an empty cache
// and asserts question and verdict.
func vxC19One(labels []string, svc *vxC19Service) {
	n := len(labels)
	host := strings.Join(labels, ".")
	vxC19SetClock(vxC19Base, 0)
	ca := &vxC19NoCache{}
	c := &Checker{upstream: svc, cache: ca, svc: "vx", txtSuffix: svc.suffix, cacheTime: 30 * time.Minute}

	// reference first: it also fixes the hash values of the names
	own := vxC19Expected(labels, vxC19Suffix.labels, vxC19Suffix.icann)
	wantQ := vxC19Question(own, svc.suffix)
	want := vxC19Member(own, svc.db)

	blocked, err := c.Check(host)

	vx.Assert(err == nil, "a lookup that the service answers gives no error")
	vx.Assert(!svc.badReq, "the request is one TXT/IN question")
	if len(own) == 0 {
		vx.Reach("nothing-to-ask")
		vx.Assert(len(svc.questions) == 0, "a name that is itself a public suffix is not looked up")
		vx.Assert(!blocked, "a name that is itself a public suffix is not blocked")
		return
	}
	vx.Assert(len(svc.questions) == 1, "exactly one question is sent for an uncached name")
	if len(svc.questions) == 1 {
		vx.Assert(svc.questions[0] == wantQ, "the question is exactly the 2-byte hash prefixes (hex) of the name and its parents (last 4 labels, ICANN suffix excluded) + service suffix")
	}
	vx.Assert(blocked == want, "blocked exactly when the service database holds the full hash of the name or of one of its parents")

	if n > 4 {
		vx.Reach("truncated")
	}
	if vxC19Suffix.icann {
		vx.Reach("icann-cut")
	} else {
		vx.Reach("private-full")
	}
	if svc.hasBad {
		vx.Reach("malformed-skipped")
	}
	if want {
		vx.Reach("blocked")
	} else {
		vx.Reach("clean")
		if vxC19SamePrefix(own, svc.db) {
			vx.Reach("prefix-collision")
		}
	}
}

// vxC19Names: which names are hashed and what the question discloses, for
// every shape of name; database of one hash.
func vxC19Names() {
	vxC19Reset()
	maxLabels := 6
	if vx.Thorough() {
		maxLabels = 8
	}
	n := 1 + vx.Choice("labels", maxLabels)
	labels := make([]string, n)
	for i := range labels {
		ln := 1 + (i+n)%2
		if vx.Thorough() && i < 1 {
			ln = 1 + vx.Choice("labellen", 2)
		}
		labels[i] = vxC19Label("host", ln)
	}
	vxC19Suffix.labels = 1
	vxC19Suffix.icann = vx.Bool("icann")
	if vxC19Suffix.icann {
		maxSuf := n
		if maxSuf > 4 {
			maxSuf = 4
		}
		vxC19Suffix.labels = 1 + vx.Choice("suffixlabels", maxSuf)
	}
	svc := &vxC19Service{suffix: "sb.dns.adguard.com.", layout: n % 2}
	svc.setDB("db", 1)
	vxC19One(labels, svc)
}

// vxC19Verdict: a name with three hashed names against a database of two
// hashes (a hash that is not asked for has no effect, so smaller databases are
// included) and every kind of malformed string.  thorough: also the non-hex
// character at the start, and a name with four hashed names (five
// labels) against three hashes.
func vxC19Verdict() {
	vxC19Reset()
	n, dbsize, kinds := 3, 2, 4
	positions := []int{62}
	if vx.Thorough() {
		positions = []int{62, 0}
		if vx.Choice("wide", 2) == 1 {
			n, dbsize, kinds = 5, 3, 1
		}
	}
	labels := make([]string, n)
	for i := range labels {
		labels[i] = vxC19Label("host", 1)
	}
	vxC19Suffix.labels = 1
	vxC19Suffix.icann = false
	svc := &vxC19Service{suffix: "sb.dns.adguard.com."}
	svc.setDB("db", dbsize)
	// none / non-hex character / too short / too long
	kind := vx.Choice("bad", kinds)
	svc.layout = kind % 2
	if kind > 0 {
		pos := 0
		if kind == 1 {
			pos = positions[vx.Choice("badpos", len(positions))]
		}
		svc.hasBad, svc.bad = true, vxC19Bad(kind, pos)
	}
	vxC19One(labels, svc)
}

// vxC19Cache: a sequence of checks sharing one cache.
func vxC19Cache() {
	vxC19Reset()
	// A scenario: labels of the first name; how each later name relates to
	// the one before (0 same, 1 parent, 2 child, 3 sibling, 4 any name with as
	// many labels); whether the two database hashes share their prefix
	// (several hashes behind one cache key); cache time in whole seconds
	// (concrete: the time package multiplies and divides by 1e9, which is
	// expensive on symbolic 64-bit values); size of the database that replaces
	// the first one after an expiry; number of checks.
	type scenario struct {
		labels    int
		relations []int
		shared    bool
		cacheSec  int64
		dbsize2   int
		checks    int
	}
	sc := scenario{labels: 1, relations: []int{0, 2}, shared: true, cacheSec: 600, dbsize2: 1, checks: 2}
	if vx.Thorough() {
		sc = []scenario{
			sc,
			{labels: 2, relations: []int{1}, shared: true, cacheSec: 1800, dbsize2: 1, checks: 2},
			{labels: 1, relations: []int{0}, shared: true, cacheSec: 0, dbsize2: 2, checks: 2},
			{labels: 1, relations: []int{0}, shared: true, cacheSec: 1, dbsize2: 1, checks: 3},
			{labels: 1, relations: []int{0}, shared: false, cacheSec: 600, dbsize2: 1, checks: 2},
		}[vx.Choice("scenario", 5)]
	}
	checks, relations, cacheSec, dbsize2 := sc.checks, sc.relations, sc.cacheSec, sc.dbsize2
	svc := &vxC19Service{suffix: "pc.dns.adguard.com.", layout: 1}
	ca := &vxC19CacheT{}
	cacheTime := cacheSec * 1_000_000_000
	c := &Checker{upstream: svc, cache: ca, svc: "vx", txtSuffix: svc.suffix, cacheTime: time.Duration(cacheTime)}

	svc.setDB("db", 2)
	if sc.shared {
		vx.Assume(svc.dbhex[0][:4] == svc.dbhex[1][:4])
	}

	sec, nsec := vxC19Base+vx.Int64("t0"), vx.Int64("ns")
	vx.Assume(vx.And(0 <= sec-vxC19Base, sec-vxC19Base < 1_000_000))
	vx.Assume(vx.And(0 <= nsec, nsec < 1_000_000_000))

	var labels []string
	for k := 0; k < checks; k++ {
		expired := false
		if k == 0 {
			for i := 0; i < sc.labels; i++ {
				labels = append(labels, vxC19Label("host", 1))
			}
		} else {
			switch relations[vx.Choice("relation", len(relations))] {
			case 0: // the same name
			case 1: // the parent
				vx.Assume(len(labels) > 1)
				labels = labels[1:]
			case 2: // a child
				labels = append([]string{vxC19Label("host", 1)}, labels...)
			case 3: // a sibling (or the same name again)
				labels = append([]string{vxC19Label("host", 1)}, labels[1:]...)
			default: // any name with as many labels
				n := len(labels)
				labels = nil
				for i := 0; i < n; i++ {
					labels = append(labels, vxC19Label("host", 1))
				}
			}
			// the clock advances; the database changes only after the entries
			// of the previous check must have expired
			dsec, ns2 := vx.Int64("dsec"), vx.Int64("ns")
			vx.Assume(vx.And(0 <= dsec, dsec <= 4*86400))
			vx.Assume(vx.And(0 <= ns2, ns2 < 1_000_000_000))
			vx.Assume(vx.Or(dsec > 0, ns2 >= nsec)) // the clock does not go back
			// now > previous check + cache time
			past := vx.Or(dsec > cacheSec, vx.And(dsec == cacheSec, ns2 > nsec))
			sec, nsec = sec+dsec, ns2
			if past {
				vx.Reach("expired")
				expired = true
				svc.setDB("db", dbsize2)
				if dbsize2 == 2 {
					vx.Assume(svc.dbhex[0][:4] == svc.dbhex[1][:4])
				}
			} else {
				vx.Reach("fresh")
			}
		}
		host := strings.Join(labels, ".")
		vxC19Suffix.labels = 1
		vxC19Suffix.icann = false
		vxC19SetClock(sec, nsec)

		own := vxC19Expected(labels, 1, vxC19Suffix.icann)
		want := vxC19Member(own, svc.db)
		asked := len(svc.questions)

		blocked, err := c.Check(host)

		vx.Assert(err == nil, "no error")
		vx.Assert(!svc.badReq, "the request is one TXT/IN question")
		vx.Assert(blocked == want, "the verdict, cached or not, is the one a fresh lookup against the current database gives")
		sent := len(svc.questions) - asked
		vx.Assert(sent <= 1, "at most one question per check")
		if sent == 1 {
			// privacy: every label of the question before the suffix is the hex
			// prefix of one of the name's own hashes
			q := svc.questions[asked]
			body, ok := strings.CutSuffix(q, svc.suffix)
			vx.Assert(ok && len(body)%5 == 0 && len(body) > 0 && len(body) <= 5*len(own), "question = up to one 4-digit label per own hash + service suffix")
			if ok && len(body)%5 == 0 {
				good := true
				for j := 0; j < len(body); j += 5 {
					one := false
					for i := range own {
						one = vx.Or(one, body[j:j+5] == string(vxC19Hex(nil, own[i][:2]))+".")
					}
					good = vx.And(good, one)
				}
				vx.Assert(good, "every label sent is the 2-byte hash prefix of the name or one of its parents")
			}
		}
		if (k == 0 || expired) && len(own) > 0 {
			vx.Assert(sent == 1 && svc.questions[asked] == vxC19Question(own, svc.suffix), "with no unexpired entry in the cache every own prefix is asked afresh")
		}
		if len(own) == 0 {
			vx.Assert(sent == 0, "a name that is itself a public suffix is not looked up")
		}
		if k > 0 {
			if sent == 0 {
				vx.Reach("second-from-cache")
			} else if len(svc.questions[asked]) < len(vxC19Question(own, svc.suffix)) {
				vx.Reach("second-partial")
			}
			if want {
				vx.Reach("second-blocked")
			} else {
				vx.Reach("second-clean")
			}
		}
	}
}
