//go:build verif

package dhcpd

// C11 — registration helper: runs the real (*server).registerHandlers (unix
// variant) with the registration callback supplied by the home harness.
//
//vx:overlay internal/dhcpd/zz_vx_c11.go

import "github.com/AdguardTeam/AdGuardHome/internal/aghhttp"

// VxC11Register registers the DHCP HTTP API through reg.
func VxC11Register(reg aghhttp.RegisterFunc) {
	s := &server{conf: &ServerConfig{HTTPRegister: reg}}
	s.registerHandlers()
}
