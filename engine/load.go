package main

// Loading /repo's current working tree (+ harness overlay) into go/ssa.

import (
	"bufio"
	"fmt"
	"go/types"
	"os"
	"path/filepath"
	"sort"
	"strings"
	"sync"

	"golang.org/x/tools/go/packages"
	"golang.org/x/tools/go/ssa"
	"golang.org/x/tools/go/ssa/ssautil"
)

// repoDir is /repo unless VX_REPO points at a scratch worktree (used to try
// seeded changes without touching /repo).
var repoDir = func() string {
	if d := os.Getenv("VX_REPO"); d != "" {
		return d
	}
	return "/repo"
}()

const repoMod = "github.com/AdguardTeam/AdGuardHome"

type EntrySpec struct {
	Name  string
	Tiers string // "quick", "thorough", "both"
	Fn    *ssa.Function
	Opts  map[string]string
}

type Harness struct {
	ID        string
	Files     map[string]string // overlay target (abs path in /repo) -> source path
	Pkgs      []string          // package patterns to load
	Entries   []*EntrySpec
	StubDecl  [][2]string // callee name, harness func name
	Reach     []string
	Consts    [][3]string // file (repo-relative), const name, new value  (scaled constants)
	Native    bool
	Inverse   [][2]string // lemma f(g(x)) == x: {f, g}
	Opaque    []string    // formatting functions: result "?" when an argument is symbolic
	StubDyn   [][]string  // caller fn, harness func, callee-name prefixes that are NOT redirected
	CallSites [][]string  // closed-world scans: target, package prefix, allowed functions
	Notes     []string
}

type Config struct {
	atomicOnce     sync.Once
	atomicFields   map[string]string
	prog           *ssa.Program
	pkgs           []*packages.Package
	stubs          map[string]*ssa.Function
	stubNames      []string
	MaxSteps       int64
	Unwind         int
	StrictFmt      bool
	Thorough       bool
	errorStringPtr types.Type
	wrapErrorPtr   types.Type
	wrapErrorsPtr  types.Type
	knownIDs       map[string]bool
	skipInitPkgs   map[string]bool
	funcCache      sync.Map
	overlay        map[string][]byte
	inverseF       map[string]string // f -> g
	inverseG       map[string]string // g -> f
	lemmas         []string
	opaque         map[string]bool
	stubDyn        map[string]*dynStub
}

// dynStub redirects calls of function VALUES made directly by one function
// (e.g. the innermost handler invoked by a middleware closure).
type dynStub struct {
	target *ssa.Function
	except []string
}

func (c *Config) skipInit(path string) bool { return c.skipInitPkgs[path] }

func (c *Config) lookupFunc(pkgPath, name string) *ssa.Function {
	key := pkgPath + "." + name
	if f, ok := c.funcCache.Load(key); ok {
		return f.(*ssa.Function)
	}
	for _, p := range c.prog.AllPackages() {
		if p.Pkg.Path() == pkgPath {
			f := p.Func(name)
			if f != nil {
				p.Build()
			}
			c.funcCache.Store(key, f)
			return f
		}
	}
	return nil
}

// parseHarness reads the //vx: directives of all files of one property.
func parseHarness(id string, dir string) (*Harness, error) {
	h := &Harness{ID: id, Files: map[string]string{}}
	files, _ := filepath.Glob(filepath.Join(dir, "*.go"))
	sort.Strings(files)
	if len(files) == 0 {
		return nil, fmt.Errorf("no harness files in %s", dir)
	}
	pkgSeen := map[string]bool{}
	for _, f := range files {
		fh, err := os.Open(f)
		if err != nil {
			return nil, err
		}
		sc := bufio.NewScanner(fh)
		sc.Buffer(make([]byte, 1<<20), 1<<20)
		target := ""
		for sc.Scan() {
			line := strings.TrimSpace(sc.Text())
			if !strings.HasPrefix(line, "//vx:") {
				continue
			}
			fields := strings.Fields(line[len("//vx:"):])
			if len(fields) == 0 {
				continue
			}
			switch fields[0] {
			case "overlay":
				target = filepath.Join(repoDir, fields[1])
				rel := "./" + filepath.Dir(fields[1])
				if !pkgSeen[rel] {
					pkgSeen[rel] = true
					h.Pkgs = append(h.Pkgs, rel)
				}
			case "pkg":
				if !pkgSeen[fields[1]] {
					pkgSeen[fields[1]] = true
					h.Pkgs = append(h.Pkgs, fields[1])
				}
			case "entry":
				e := &EntrySpec{Name: fields[1], Tiers: "both", Opts: map[string]string{}}
				for _, kv := range fields[2:] {
					k, v, _ := strings.Cut(kv, "=")
					if k == "tier" {
						e.Tiers = v
					} else {
						e.Opts[k] = v
					}
				}
				h.Entries = append(h.Entries, e)
			case "stub":
				// callee name may contain spaces? no: ssa names have none except in generics; join all but last
				callee := strings.Join(fields[1:len(fields)-1], " ")
				h.StubDecl = append(h.StubDecl, [2]string{callee, fields[len(fields)-1]})
			case "reach":
				h.Reach = append(h.Reach, fields[1:]...)
			case "const":
				h.Consts = append(h.Consts, [3]string{fields[1], fields[2], fields[3]})
			case "callsites":
				h.CallSites = append(h.CallSites, fields[1:])
			case "callsites-gap":
				// like callsites, but an unlisted site only means the harness does
				// not exercise it: the run is INCONCLUSIVE, not a violation
				h.CallSites = append(h.CallSites, append([]string{"?gap"}, fields[1:]...))
			case "stubdyn":
				h.StubDyn = append(h.StubDyn, fields[1:])
			case "opaque":
				h.Opaque = append(h.Opaque, strings.Join(fields[1:], " "))
			case "inverse":
				h.Inverse = append(h.Inverse, [2]string{fields[1], fields[2]})
			case "native":
				h.Native = true
			case "note":
				h.Notes = append(h.Notes, strings.Join(fields[1:], " "))
			}
		}
		fh.Close()
		if target == "" {
			return nil, fmt.Errorf("%s: missing //vx:overlay directive", f)
		}
		h.Files[target] = f
	}
	return h, nil
}

func buildOverlay(h *Harness) (map[string][]byte, error) {
	ov := map[string][]byte{}
	for target, src := range h.Files {
		b, err := os.ReadFile(src)
		if err != nil {
			return nil, err
		}
		ov[target] = b
	}
	vxSrc, err := os.ReadFile(filepath.Join(verifDir(), "harness/vx/vx.go"))
	if err != nil {
		return nil, err
	}
	ov[filepath.Join(repoDir, "internal/vx/vx.go")] = vxSrc
	// scaled constants: textual replacement of `name = value` in the named file
	for _, c := range h.Consts {
		p := filepath.Join(repoDir, c[0])
		b, ok := ov[p]
		if !ok {
			b, err = os.ReadFile(p)
			if err != nil {
				return nil, err
			}
		}
		nb, err := rewriteConst(b, c[1], c[2])
		if err != nil {
			return nil, fmt.Errorf("%s: %v", p, err)
		}
		ov[p] = nb
	}
	return ov, nil
}

// rewriteConst replaces the value of `name = <expr>` (a const/var spec on one line).
func rewriteConst(src []byte, name, val string) ([]byte, error) {
	lines := strings.Split(string(src), "\n")
	found := false
	for i, l := range lines {
		t := strings.TrimSpace(l)
		if strings.HasPrefix(t, name+" =") || strings.HasPrefix(t, "const "+name+" =") || strings.HasPrefix(t, name+"  =") {
			idx := strings.Index(l, "=")
			lines[i] = l[:idx+1] + " " + val
			found = true
			break
		}
	}
	if !found {
		return nil, fmt.Errorf("constant %s not found", name)
	}
	return []byte(strings.Join(lines, "\n")), nil
}

func verifDir() string {
	if d := os.Getenv("VERIF_DIR"); d != "" {
		return d
	}
	return "/verif"
}

func loadProgram(h *Harness, cfg *Config) error {
	ov, err := buildOverlay(h)
	if err != nil {
		return err
	}
	cfg.overlay = ov
	pcfg := &packages.Config{
		Mode:       packages.LoadAllSyntax,
		Dir:        repoDir,
		BuildFlags: []string{"-tags=verif", "-mod=mod"},
		Overlay:    ov,
		Env:        append(os.Environ(), "GOFLAGS=-mod=mod", "GOPROXY=off", "GOSUMDB=off", "GOTOOLCHAIN=local", "CGO_ENABLED=0"),
	}
	pats := append([]string{}, h.Pkgs...)
	initial, err := packages.Load(pcfg, pats...)
	if err != nil {
		return err
	}
	nerr := 0
	packages.Visit(initial, nil, func(p *packages.Package) {
		for _, e := range p.Errors {
			if nerr < 20 {
				fmt.Fprintln(os.Stderr, "load error:", e)
			}
			nerr++
		}
	})
	if nerr > 0 {
		return fmt.Errorf("%d package load errors (harness does not compile against the current tree?)", nerr)
	}
	prog, pkgs := ssautil.AllPackages(initial, ssa.InstantiateGenerics)
	cfg.prog = prog
	cfg.pkgs = initial
	// build the initial packages now; others lazily
	for _, p := range pkgs {
		if p != nil {
			p.Build()
		}
	}
	// well-known types
	for _, p := range prog.AllPackages() {
		switch p.Pkg.Path() {
		case "errors":
			if t := p.Type("errorString"); t != nil {
				cfg.errorStringPtr = types.NewPointer(t.Type())
			}
		case "fmt":
			if t := p.Type("wrapError"); t != nil {
				cfg.wrapErrorPtr = types.NewPointer(t.Type())
			}
			if t := p.Type("wrapErrors"); t != nil {
				cfg.wrapErrorsPtr = types.NewPointer(t.Type())
			}
		}
	}
	// resolve entries and stubs
	find := func(name string) *ssa.Function {
		for _, p := range pkgs {
			if p == nil {
				continue
			}
			if f := p.Func(name); f != nil {
				return f
			}
		}
		return nil
	}
	for _, e := range h.Entries {
		e.Fn = find(e.Name)
		if e.Fn == nil {
			return fmt.Errorf("entry function %s not found", e.Name)
		}
	}
	cfg.opaque = map[string]bool{}
	for _, o := range h.Opaque {
		cfg.opaque[o] = true
		cfg.stubNames = append(cfg.stubNames, o+" -> \"?\" when called on symbolic data (formatting only)")
	}
	cfg.inverseF = map[string]string{}
	cfg.inverseG = map[string]string{}
	for _, iv := range h.Inverse {
		cfg.inverseF[iv[0]] = iv[1]
		cfg.inverseG[iv[1]] = iv[0]
		cfg.lemmas = append(cfg.lemmas, fmt.Sprintf("%s(%s(x)) == x", iv[0], iv[1]))
	}
	cfg.stubDyn = map[string]*dynStub{}
	for _, sd := range h.StubDyn {
		if len(sd) < 2 {
			return fmt.Errorf("stubdyn needs a caller and a harness function")
		}
		f := find(sd[1])
		if f == nil {
			return fmt.Errorf("stubdyn function %s not found", sd[1])
		}
		cfg.stubDyn[sd[0]] = &dynStub{target: f, except: sd[2:]}
		cfg.stubNames = append(cfg.stubNames, "function values called by "+sd[0]+" -> "+sd[1])
	}
	cfg.stubs = map[string]*ssa.Function{}
	for _, sd := range h.StubDecl {
		f := find(sd[1])
		if f == nil {
			return fmt.Errorf("stub function %s not found", sd[1])
		}
		cfg.stubs[sd[0]] = f
		cfg.stubNames = append(cfg.stubNames, sd[0]+" -> "+sd[1])
	}
	return nil
}

// atomicFieldsOnce runs the scan for atomically written fields once per run.
func (cfg *Config) atomicFieldsOnce() map[string]string {
	cfg.atomicOnce.Do(func() { cfg.atomicFields = atomicFieldScan(cfg) })
	return cfg.atomicFields
}
