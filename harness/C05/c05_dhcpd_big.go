//go:build verif

package dhcpd

// C05D — reference implementation of the math/big.Int methods used by ipRange
// (the assembly kernels of math/big are not interpretable).
//
//vx:overlay internal/dhcpd/zz_vx_c05d_big.go
//vx:stub (*math/big.Int).SetBytes vxC05DBigSetBytes
//vx:stub (*math/big.Int).Sub vxC05DBigSub
//vx:stub (*math/big.Int).Add vxC05DBigAdd
//vx:stub (*math/big.Int).Set vxC05DBigSet
//vx:stub (*math/big.Int).Cmp vxC05DBigCmp
//vx:stub (*math/big.Int).Sign vxC05DBigSign
//vx:stub (*math/big.Int).IsUint64 vxC05DBigIsUint64
//vx:stub (*math/big.Int).Uint64 vxC05DBigUint64
//vx:stub (*math/big.Int).FillBytes vxC05DBigFillBytes
//vx:stub math/big.NewInt vxC05DBigNewInt

import (
	"math/big"

	"github.com/AdguardTeam/AdGuardHome/internal/vx"
)

// ---- math/big reference (assembly kernels are not interpretable) ----
//
// Values are non-negative 128-bit numbers plus a sign, kept in a side table
// keyed by the *big.Int.

type vxC05DNum struct {
	hi, lo uint64
	neg    bool
}

var vxC05DNums = map[*big.Int]vxC05DNum{}

func vxC05DBigSetBytes(z *big.Int, b []byte) *big.Int {
	if len(b) > 16 {
		vx.Fail("big reference: more than 16 bytes")
	}
	var n vxC05DNum
	for i := 0; i < len(b); i++ {
		pos := len(b) - 1 - i // significance in bytes
		if pos >= 8 {
			n.hi |= uint64(b[i]) << (8 * uint(pos-8))
		} else {
			n.lo |= uint64(b[i]) << (8 * uint(pos))
		}
	}
	vxC05DNums[z] = n
	return z
}

// vxC05DLess reports |a| < |b|.
func vxC05DLess(a, b vxC05DNum) bool {
	return vx.Or(a.hi < b.hi, vx.And(a.hi == b.hi, a.lo < b.lo))
}

func vxC05DAbsSub(a, b vxC05DNum) (r vxC05DNum) {
	r.lo = a.lo - b.lo
	r.hi = a.hi - b.hi
	if a.lo < b.lo {
		r.hi--
	}
	return r
}

func vxC05DAbsAdd(a, b vxC05DNum) (r vxC05DNum) {
	r.lo = a.lo + b.lo
	r.hi = a.hi + b.hi
	if r.lo < a.lo {
		r.hi++
	}
	return r
}

func vxC05DBigSub(z, x, y *big.Int) *big.Int {
	a, b := vxC05DNums[x], vxC05DNums[y]
	if a.neg || b.neg {
		vx.Fail("big reference: negative operand")
	}
	var r vxC05DNum
	if vxC05DLess(a, b) {
		r = vxC05DAbsSub(b, a)
		r.neg = true
	} else {
		r = vxC05DAbsSub(a, b)
	}
	vxC05DNums[z] = r
	return z
}

func vxC05DBigAdd(z, x, y *big.Int) *big.Int {
	a, b := vxC05DNums[x], vxC05DNums[y]
	if a.neg || b.neg {
		vx.Fail("big reference: negative operand")
	}
	vxC05DNums[z] = vxC05DAbsAdd(a, b)
	return z
}

func vxC05DBigSet(z, x *big.Int) *big.Int {
	vxC05DNums[z] = vxC05DNums[x]
	return z
}

func vxC05DBigCmp(x, y *big.Int) int {
	a, b := vxC05DNums[x], vxC05DNums[y]
	if a.neg || b.neg {
		vx.Fail("big reference: negative operand")
	}
	if vxC05DLess(a, b) {
		return -1
	}
	if vxC05DLess(b, a) {
		return 1
	}
	return 0
}

func vxC05DBigSign(x *big.Int) int {
	a := vxC05DNums[x]
	if vx.And(a.hi == 0, a.lo == 0) {
		return 0
	}
	if a.neg {
		return -1
	}
	return 1
}

func vxC05DBigIsUint64(x *big.Int) bool {
	a := vxC05DNums[x]
	return !a.neg && a.hi == 0
}

func vxC05DBigUint64(x *big.Int) uint64 { return vxC05DNums[x].lo }

func vxC05DBigFillBytes(x *big.Int, buf []byte) []byte {
	a := vxC05DNums[x]
	for i := range buf {
		pos := len(buf) - 1 - i
		switch {
		case pos >= 16:
			buf[i] = 0
		case pos >= 8:
			buf[i] = byte(a.hi >> (8 * uint(pos-8)))
		default:
			buf[i] = byte(a.lo >> (8 * uint(pos)))
		}
	}
	return buf
}

func vxC05DBigNewInt(v int64) *big.Int {
	z := &big.Int{}
	if v < 0 {
		vx.Fail("big reference: negative constant")
	}
	vxC05DNums[z] = vxC05DNum{lo: uint64(v)}
	return z
}

