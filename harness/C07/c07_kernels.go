//go:build verif

package querylog

// C07 kernels on symbolic data: the status filter table, the meaning of a
// search term, and the quick pre-match on the raw line.
//
//vx:overlay internal/querylog/zz_vx_c07k.go
//vx:entry vxC07Status reach=selected,not-selected,unknown-status
//vx:entry vxC07Term reach=strict-hit,strict-miss,substring-hit,substring-miss,by-host,by-name,by-clientid,by-ip
//vx:entry vxC07Quick reach=selected,quick-dropped

import (
	"context"
	"log/slog"
	"net"

	"github.com/AdguardTeam/AdGuardHome/internal/filtering"
	"github.com/AdguardTeam/AdGuardHome/internal/vx"
)

// vxC07StatusRef is the documented meaning of response_status (openapi,
// AGHTechDoc "response_status") over the reason numbers of
// filtering.Reason: 0 not found, 1 allow-listed, 2 error, 3 block list,
// 4 safe browsing, 5 parental, 6 invalid, 7 safe search, 8 blocked service,
// 9 rewrite, 10 rewrite from hosts files, 11 $dnsrewrite rule.
func vxC07StatusRef(status string, reason int, isFiltered bool) (sel bool, defined bool) {
	is := func(vals ...int) bool {
		r := false
		for _, v := range vals {
			r = vx.Or(r, reason == v)
		}
		return r
	}
	switch status {
	case "all":
		return true, true
	case "filtered": // all kinds of filtering
		return vx.Or(isFiltered, is(1, 9, 10, 11)), true
	case "blocked": // blocked or blocked services
		return vx.And(isFiltered, is(3, 8)), true
	case "blocked_services":
		return vx.And(isFiltered, is(8)), true
	case "blocked_safebrowsing":
		return vx.And(isFiltered, is(4)), true
	case "blocked_parental":
		return vx.And(isFiltered, is(5)), true
	case "whitelisted":
		return is(1), true
	case "rewritten": // all kinds of rewrites
		return is(9, 10, 11), true
	case "safe_search":
		return vx.And(isFiltered, is(7)), true
	case "processed": // not blocked, not white-listed
		return !is(1, 3, 8), true
	}
	return false, false
}

// vxC07Status: every status string against a symbolic (reason, isFiltered).
func vxC07Status() {
	statuses := []string{
		"all", "filtered", "blocked", "blocked_services", "blocked_safebrowsing", "blocked_parental",
		"whitelisted", "rewritten", "safe_search", "processed",
		"", "Blocked", "bogus", "blocked_service",
	}
	status := statuses[vx.Choice("status", len(statuses))]
	reason := vx.Int("reason")
	isFiltered := vx.Bool("isFiltered")
	if status == "processed" {
		// "not blocked" for a block-list reason without the filtered flag is
		// not defined by the documents (does not occur: the flag is set
		// together with these reasons)
		vx.Assume(vx.Or(isFiltered, vx.And(reason != 3, reason != 8)))
	}
	e := &logEntry{Result: filtering.Result{Reason: filtering.Reason(reason), IsFiltered: isFiltered}}
	p := &searchParams{searchCriteria: []searchCriterion{{criterionType: ctFilteringStatus, value: status}}}
	got := p.match(e)
	want, defined := vxC07StatusRef(status, reason, isFiltered)
	if !defined {
		vx.Reach("unknown-status")
		vx.Assert(!got, "an unknown status selects nothing")
		return
	}
	vx.Assert(got == want, "a status filter selects exactly the entries with that status")
	if got {
		vx.Reach("selected")
	} else {
		vx.Reach("not-selected")
	}
	// the status is also applied through the quick pre-match unchanged
	q := p.quickMatch(context.Background(), slog.Default(), `{"T":"x","QH":"a","IP":"1.2.3.4","Result":{}}`, vxC07NoClient)
	vx.Assert(q, "the quick pre-match lets every line through for a status filter")
}

func vxC07NoClient(_ context.Context, _ *slog.Logger, _, _ string) *Client { return nil }

// ---- search term -------------------------------------------------------------

// vxC07FoldEq: two ASCII bytes are equal ignoring letter case (no fork).
func vxC07FoldEq(a, b byte) bool {
	l := a | 0x20
	letter := vx.And('a' <= l, l <= 'z')
	return vx.Or(a == b, vx.And(letter, a^b == 0x20))
}

// vxC07FoldAt: term occurs in s at position i, ignoring ASCII letter case.
func vxC07FoldAt(s, term string, i int) bool {
	ok := true
	for j := 0; j < len(term); j++ {
		ok = vx.And(ok, vxC07FoldEq(s[i+j], term[j]))
	}
	return ok
}

func vxC07EqualRef(s, term string) bool {
	if len(s) != len(term) {
		return false
	}
	return vxC07FoldAt(s, term, 0)
}

func vxC07ContainsRef(s, term string) bool {
	r := false
	for i := 0; i+len(term) <= len(s); i++ {
		r = vx.Or(r, vxC07FoldAt(s, term, i))
	}
	return r
}

func vxC07ASCII(s string, forLine bool) {
	for i := 0; i < len(s); i++ {
		c := s[i]
		vx.Assume(vx.And(c >= 0x20, c < 0x7f))
		if forLine {
			// characters the JSON encoder escapes
			vx.Assume(vx.And(vx.And(c != '"', c != '\\'), vx.And(vx.And(c != '<', c != '>'), c != '&')))
		}
	}
}

// vxC07TermCase builds one entry with a single non-empty symbolic field (the
// client address is always present), a symbolic term and the criterion.
type vxC07TermCase struct {
	host, name, cid, ipStr string
	which                  int
	term                   string
	strict                 bool
	cli                    *Client
	e                      *logEntry
	p                      *searchParams
}

func vxC07NewTermCase(forLine bool) *vxC07TermCase {
	maxField, maxTerm := 2, 2
	if vx.Thorough() {
		maxField, maxTerm = 3, 3
	}
	c := &vxC07TermCase{}
	// the shortest address text there is: "::1"
	ip := net.IP{0, 0, 0, 0, 0, 0, 0, 0, 0, 0, 0, 0, 0, 0, 0, 1}
	c.which = vx.Choice("field", 4)
	n := 1
	if c.which < 3 {
		n = 1 + vx.Choice("fieldLen", maxField)
	}
	switch c.which {
	case 0:
		c.host = vx.String("host", n)
		vxC07ASCII(c.host, forLine)
	case 1:
		c.name = vx.String("name", n)
		vxC07ASCII(c.name, false)
	case 2:
		c.cid = vx.String("clientID", n)
		vxC07ASCII(c.cid, forLine)
	default:
		ip = net.IP{byte(1 + vx.Choice("ip", 2)), 2, 3, 4}
	}
	c.term = vx.String("term", 1+vx.Choice("termLen", maxTerm))
	vxC07ASCII(c.term, false)
	c.strict = vx.Bool("quoted")
	c.ipStr = ip.String()
	if c.which == 1 {
		c.cli = &Client{Name: c.name}
	}
	c.e = &logEntry{QHost: c.host, ClientID: c.cid, IP: ip, client: c.cli}
	c.p = &searchParams{searchCriteria: []searchCriterion{{criterionType: ctTerm, value: c.term, strict: c.strict}}}
	return c
}

// vxC07Term: the meaning of a search term (substring by default, whole value
// when quoted, letter case ignored, over host name, client name, ClientID and
// client address).
func vxC07Term() {
	c := vxC07NewTermCase(false)
	got := c.p.match(c.e)

	var want bool
	fields := []string{c.host, c.name, c.cid, c.ipStr}
	marks := []string{"by-host", "by-name", "by-clientid", "by-ip"}
	var hitOwn bool
	for i, f := range fields {
		var h bool
		if c.strict {
			h = vxC07EqualRef(f, c.term)
		} else {
			h = vxC07ContainsRef(f, c.term)
		}
		want = vx.Or(want, h)
		if i == c.which {
			hitOwn = h
		}
	}
	ks := vx.And(!c.strict, vx.Or(c.term[0] == 'k', c.term[0] == 's'))
	if vxC07Dev {
		vx.Assume(!ks)
	}
	vx.Known("C07-containsfold-lower-k-s", ks)
	vx.Assert(got == want, "a search term selects exactly the entries whose host, client name, ClientID or address contains it (equals it when quoted), ignoring letter case")
	if hitOwn {
		vx.Reach(marks[c.which])
	}
	switch {
	case c.strict && got:
		vx.Reach("strict-hit")
	case c.strict:
		vx.Reach("strict-miss")
	case got:
		vx.Reach("substring-hit")
	default:
		vx.Reach("substring-miss")
	}
}

// vxC07Quick: the quick pre-match on the stored line never drops an entry that
// the full match selects.
func vxC07Quick() {
	c := vxC07NewTermCase(true)
	got := c.p.match(c.e)
	// the line as json.Marshal frames it (field order of logEntry; CID is
	// omitted when empty; the rule list of the result repeats "IP" further
	// right)
	line := `{"T":"2024-05-06T07:08:09.123456789Z","QH":"` + c.host + `","QT":"A","QC":"IN",`
	if c.cid != "" {
		line += `"CID":"` + c.cid + `",`
	}
	line += `"CP":"","Upstream":"9.9.9.9:53","IP":"` + c.ipStr + `","Result":{"Rules":[{"IP":"0.0.0.0","Text":"||x^"}]},"Elapsed":7}`
	finder := func(_ context.Context, _ *slog.Logger, clientID, addr string) *Client {
		vx.Assert(clientID == c.cid && addr == c.ipStr, "the quick pre-match looks the client up by the stored ClientID and address")
		return c.cli
	}
	q := c.p.quickMatch(context.Background(), slog.Default(), line, finder)
	vx.Assert(vx.Implies(got, q), "the quick pre-match on the stored line never drops an entry the full match selects")
	if got {
		vx.Reach("selected")
	}
	if !q {
		vx.Reach("quick-dropped")
	}
}
