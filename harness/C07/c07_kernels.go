//go:build verif

package querylog

// C07 kernels on symbolic data: the status filter table, the meaning of a
// search term, and the quick pre-match on the raw line.
//
//vx:overlay internal/querylog/zz_vx_c07k.go
//vx:entry vxC07Status reach=selected,not-selected,unknown-status
//vx:entry vxC07Term reach=strict-hit,strict-miss,substring-hit,substring-miss,by-host,by-name,by-clientid,by-ip,quick-dropped

import (
	"context"
	"log/slog"
	"net"

	"github.com/AdguardTeam/AdGuardHome/internal/filtering"
	"github.com/AdguardTeam/AdGuardHome/internal/vx"
)

// vxC07StatusRef is the documented meaning of response_status (openapi,
// AGHTechDoc "response_status") over the reason numbers of
// filtering.Reason: 0 not found, 1 allow-listed, 2 error, 3 block list,
// 4 safe browsing, 5 parental, 6 invalid, 7 safe search, 8 blocked service,
// 9 rewrite, 10 rewrite from hosts files, 11 $dnsrewrite rule.
func vxC07StatusRef(status string, reason int, isFiltered bool) (sel bool, defined bool) {
	is := func(vals ...int) bool {
		r := false
		for _, v := range vals {
			r = vx.Or(r, reason == v)
		}
		return r
	}
	switch status {
	case "all":
		return true, true
	case "filtered": // all kinds of filtering
		return vx.Or(isFiltered, is(1, 9, 10, 11)), true
	case "blocked": // blocked or blocked services
		return vx.And(isFiltered, is(3, 8)), true
	case "blocked_services":
		return vx.And(isFiltered, is(8)), true
	case "blocked_safebrowsing":
		return vx.And(isFiltered, is(4)), true
	case "blocked_parental":
		return vx.And(isFiltered, is(5)), true
	case "whitelisted":
		return is(1), true
	case "rewritten": // all kinds of rewrites
		return is(9, 10, 11), true
	case "safe_search":
		return vx.And(isFiltered, is(7)), true
	case "processed": // not blocked, not white-listed
		return !is(1, 3, 8), true
	}
	return false, false
}

// vxC07Status: every status string against a symbolic (reason, isFiltered).
func vxC07Status() {
	statuses := []string{
		"all", "filtered", "blocked", "blocked_services", "blocked_safebrowsing", "blocked_parental",
		"whitelisted", "rewritten", "safe_search", "processed",
		"", "Blocked", "bogus", "blocked_service",
	}
	status := statuses[vx.Choice("status", len(statuses))]
	reason := vx.Int("reason")
	isFiltered := vx.Bool("isFiltered")
	if status == "processed" {
		// "not blocked" for a block-list reason without the filtered flag is
		// not defined by the documents (does not occur: the flag is set
		// together with these reasons)
		vx.Assume(vx.Or(isFiltered, vx.And(reason != 3, reason != 8)))
	}
	e := &logEntry{Result: filtering.Result{Reason: filtering.Reason(reason), IsFiltered: isFiltered}}
	p := &searchParams{searchCriteria: []searchCriterion{{criterionType: ctFilteringStatus, value: status}}}
	got := p.match(e)
	want, defined := vxC07StatusRef(status, reason, isFiltered)
	if !defined {
		vx.Reach("unknown-status")
		vx.Assert(!got, "an unknown status selects nothing")
		return
	}
	vx.Assert(got == want, "a status filter selects exactly the entries with that status")
	if got {
		vx.Reach("selected")
	} else {
		vx.Reach("not-selected")
	}
	// the status is also applied through the quick pre-match unchanged
	q := p.quickMatch(context.Background(), slog.Default(), `{"T":"x","QH":"a","IP":"1.2.3.4","Result":{}}`, vxC07NoClient)
	vx.Assert(q, "the quick pre-match lets every line through for a status filter")
}

func vxC07NoClient(_ context.Context, _ *slog.Logger, _, _ string) *Client { return nil }

// ---- search term -------------------------------------------------------------

// vxC07FoldEq: two ASCII bytes are equal ignoring letter case (no fork).
func vxC07FoldEq(a, b byte) bool {
	l := a | 0x20
	letter := vx.And('a' <= l, l <= 'z')
	return vx.Or(a == b, vx.And(letter, a^b == 0x20))
}

// vxC07FoldAt: term occurs in s at position i, ignoring ASCII letter case.
func vxC07FoldAt(s, term string, i int) bool {
	ok := true
	for j := 0; j < len(term); j++ {
		ok = vx.And(ok, vxC07FoldEq(s[i+j], term[j]))
	}
	return ok
}

func vxC07EqualRef(s, term string) bool {
	if len(s) != len(term) {
		return false
	}
	return vxC07FoldAt(s, term, 0)
}

func vxC07ContainsRef(s, term string) bool {
	r := false
	for i := 0; i+len(term) <= len(s); i++ {
		r = vx.Or(r, vxC07FoldAt(s, term, i))
	}
	return r
}

func vxC07ASCII(s string, forLine bool) {
	for i := 0; i < len(s); i++ {
		c := s[i]
		vx.Assume(vx.And(c >= 0x20, c < 0x7f))
		if forLine {
			// characters the JSON encoder escapes
			vx.Assume(vx.And(vx.And(c != '"', c != '\\'), vx.And(vx.And(c != '<', c != '>'), c != '&')))
		}
	}
}

// vxC07Term: the meaning of a search term (substring by default, whole value
// when quoted, letter case ignored, over host name, client name, ClientID and
// client address) and the quick pre-match on the stored line.
func vxC07Term() {
	maxField, maxTerm := 3, 2
	if vx.Thorough() {
		maxField, maxTerm = 4, 3
	}
	// one field is symbolic, the others are fixed values the term may also hit
	which := vx.Choice("field", 4)
	host, name, cid, ip := "ab.cd", "Kid Sam", "k-s1", net.IP{10, 0, 0, 1}
	n := vx.Choice("fieldLen", maxField+1)
	switch which {
	case 0:
		host = vx.String("host", n)
		vxC07ASCII(host, true)
	case 1:
		name = vx.String("name", n)
		vxC07ASCII(name, false)
	case 2:
		cid = vx.String("clientID", n)
		vxC07ASCII(cid, true)
	default:
		vx.Assume(n == 0)
		ip = net.IP{192, 168, 1, byte(10 + vx.Choice("ipLast", 3))}
	}
	term := vx.String("term", 1+vx.Choice("termLen", maxTerm))
	vxC07ASCII(term, false)
	strict := vx.Bool("quoted")
	ipStr := ip.String()

	var cli *Client
	if vx.Choice("hasClient", 2) == 1 || which == 1 {
		cli = &Client{Name: name}
	} else {
		name = ""
	}
	e := &logEntry{QHost: host, ClientID: cid, IP: ip, client: cli}
	p := &searchParams{searchCriteria: []searchCriterion{{criterionType: ctTerm, value: term, strict: strict}}}

	got := p.match(e)

	var want bool
	fields := []string{host, name, cid, ipStr}
	marks := []string{"by-host", "by-name", "by-clientid", "by-ip"}
	hit := -1
	for i, f := range fields {
		var h bool
		if strict {
			h = vxC07EqualRef(f, term)
		} else {
			h = vxC07ContainsRef(f, term)
		}
		want = vx.Or(want, h)
		if i == which {
			if h {
				hit = i
			}
		}
	}
	vx.Known("C07-containsfold-lower-k-s", vx.And(!strict, vx.Or(term[0] == 'k', term[0] == 's')))
	vx.Assert(got == want, "a search term selects exactly the entries whose host, client name, ClientID or address contains it (equals it when quoted), ignoring letter case")
	if hit >= 0 {
		vx.Reach(marks[hit])
	}
	switch {
	case strict && got:
		vx.Reach("strict-hit")
	case strict:
		vx.Reach("strict-miss")
	case got:
		vx.Reach("substring-hit")
	default:
		vx.Reach("substring-miss")
	}

	// the line as json.Marshal frames it (field order of logEntry; CID is
	// omitted when empty; the rule list of the result repeats "IP" further
	// right)
	line := `{"T":"2024-05-06T07:08:09.123456789Z","QH":"` + host + `","QT":"A","QC":"IN",`
	if cid != "" {
		line += `"CID":"` + cid + `",`
	}
	line += `"CP":"","Upstream":"9.9.9.9:53","IP":"` + ipStr + `","Result":{"Rules":[{"IP":"0.0.0.0","Text":"||x^"}]},"Elapsed":7}`
	finder := func(_ context.Context, _ *slog.Logger, clientID, addr string) *Client {
		vx.Assert(clientID == cid && addr == ipStr, "the quick pre-match looks the client up by the stored ClientID and address")
		return cli
	}
	q := p.quickMatch(context.Background(), slog.Default(), line, finder)
	vx.Assert(vx.Implies(got, q), "the quick pre-match on the stored line never drops an entry the full match selects")
	if !q {
		vx.Reach("quick-dropped")
	}
}
