//go:build verif

package filtering

// C05 (restricted) — lock discipline of filtering.DNSFilter.
//
//vx:overlay internal/filtering/zz_vx_c05.go
//vx:entry vxC05Filter reach=guarded-access
//vx:entry vxC05FilterLists reach=guarded-access
//vx:entry vxC05FilterAdmin reach=guarded-access
//vx:stub (*encoding/json.Decoder).Decode vxC05FJSONDecode
//vx:stub github.com/AdguardTeam/urlfilter/filterlist.NewFileRuleList vxC05FNewFileRuleList
//vx:stub github.com/AdguardTeam/AdGuardHome/internal/aghhttp.WriteJSONResponse vxC05FWriteJSON
//vx:stub (*github.com/AdguardTeam/urlfilter.DNSEngine).MatchRequest vxC05FMatchRequest
//vx:stub github.com/AdguardTeam/urlfilter.NewDNSEngine vxC05NewDNSEngine
//vx:stub github.com/AdguardTeam/urlfilter/filterlist.NewRuleStorage vxC05NewRuleStorage
//vx:stub (*github.com/AdguardTeam/urlfilter/filterlist.RuleStorage).Close vxC05StorageClose
//vx:stub (*github.com/AdguardTeam/AdGuardHome/internal/schedule.Weekly).Contains vxC05Contains
//vx:stub runtime/debug.FreeOSMemory vxC05Free

import (
	"context"
	"encoding/json"
	"net/http"
	"sync"
	"time"

	"github.com/AdguardTeam/AdGuardHome/internal/schedule"
	"github.com/AdguardTeam/AdGuardHome/internal/vx"
	"github.com/AdguardTeam/urlfilter"
	"github.com/AdguardTeam/urlfilter/filterlist"
	"github.com/miekg/dns"
)

var vxC05Filt *DNSFilter

func vxC05FMatchRequest(e *urlfilter.DNSEngine, r *urlfilter.DNSRequest) (*urlfilter.DNSResult, bool) {
	// using an engine means reading the rule storage behind it
	if vxC05Filt != nil {
		if e == vxC05Filt.filteringEngine {
			_ = vxC05Filt.rulesStorage
		}
	}
	return &urlfilter.DNSResult{}, false
}

func vxC05NewDNSEngine(s *filterlist.RuleStorage) *urlfilter.DNSEngine { return &urlfilter.DNSEngine{} }
func vxC05NewRuleStorage(l []filterlist.RuleList) (*filterlist.RuleStorage, error) {
	return &filterlist.RuleStorage{}, nil
}

// vxC05StorageClose: closing a rule storage invalidates it for every engine
// still using it, so it counts as a write to the state engineLock protects.
func vxC05StorageClose(s *filterlist.RuleStorage) error {
	if vxC05Filt != nil && vx.Held(&vxC05Filt.engineLock) != 2 {
		vx.Fail("a rule storage still reachable by in-flight matches is closed without engineLock write-locked")
	}
	return nil
}

func vxC05Contains(w *schedule.Weekly, t time.Time) bool { return false }
func vxC05Free()                                        {}

// VxC05NewFilter builds a minimal filter (used by the dnsforward entries too).
func VxC05NewFilter(c *Config) *DNSFilter {
	d := &DNSFilter{confMu: &sync.RWMutex{}, conf: c, refreshLock: &sync.Mutex{}}
	d.conf.filtersMu = &sync.RWMutex{}
	d.filteringEngine = &urlfilter.DNSEngine{}
	d.filteringEngineAllow = &urlfilter.DNSEngine{}
	d.rulesStorage = &filterlist.RuleStorage{}
	d.rulesStorageAllow = &filterlist.RuleStorage{}
	return d
}

func vxC05Filter() {
	c := &Config{ProtectionEnabled: true, FilteringEnabled: true, BlockedServices: &BlockedServices{Schedule: schedule.EmptyWeekly()},
		Rewrites: []*LegacyRewrite{{Domain: "a.b", Answer: "1.2.3.4"}}}
	d := VxC05NewFilter(c)
	_ = d.prepareRewrites()
	vxC05Filt = d
	vx.Guard(&d.filteringEngine, &d.engineLock, "DNSFilter.filteringEngine")
	vx.Guard(&d.filteringEngineAllow, &d.engineLock, "DNSFilter.filteringEngineAllow")
	vx.Guard(&d.rulesStorage, &d.engineLock, "DNSFilter.rulesStorage")
	vx.Guard(&d.rulesStorageAllow, &d.engineLock, "DNSFilter.rulesStorageAllow")
	vx.Guard(&d.conf.Rewrites, d.confMu, "DNSFilter.conf.Rewrites")
	vx.Guard(&d.conf.BlockedServices, d.confMu, "DNSFilter.conf.BlockedServices")
	vx.Guard(&d.conf.ProtectionEnabled, d.confMu, "DNSFilter.conf.ProtectionEnabled")
	vx.Guard(&d.conf.ProtectionDisabledUntil, d.confMu, "DNSFilter.conf.ProtectionDisabledUntil")
	vx.Guard(&d.conf.BlockingMode, d.confMu, "DNSFilter.conf.BlockingMode")

	setts := &Settings{ProtectionEnabled: true, FilteringEnabled: true}
	switch vx.Choice("op", 9) {
	case 0: // request path
		_, _ = d.matchHost("example.org", dns.TypeA, setts)
	case 1:
		_ = d.processRewrites("a.b", dns.TypeA)
	case 2:
		d.ApplyBlockedServices(setts)
	case 3:
		d.BlockingMode()
	case 4:
		d.ProtectionStatus()
	case 5: // admin path
		d.SetProtectionStatus(false, nil)
	case 6:
		d.SetBlockingMode(BlockingModeNullIP, d.conf.BlockingIPv4, d.conf.BlockingIPv6)
	case 7: // engine swap (filter refresh / rule change)
		_ = d.initFiltering(nil, nil)
	default:
		d.Settings()
	}
	if vx.GuardHits() > 0 {
		vx.Reach("guarded-access")
	}
	vx.Assert(vx.Held(&d.engineLock) == 0 && vx.Held(d.confMu) == 0, "locks are released on return")
}

// ---- filter lists, custom rules and the per-feature switches ----

// vxC05FJSONDecode stands for the JSON decoder of the admin API: the decoded
// request is a fixed valid one.
func vxC05FJSONDecode(dec *json.Decoder, v any) error {
	switch r := v.(type) {
	case *filteringRulesReq:
		r.Rules = []string{"||blocked.example^"}
	case *filteringConfig:
		r.Enabled = true
		r.Interval = 24
	case *rewriteEntryJSON:
		r.Domain, r.Answer = "a.b", "1.2.3.4"
	case *rewriteUpdateJSON:
		r.Target = rewriteEntryJSON{Domain: "a.b", Answer: "1.2.3.4"}
		r.Update = rewriteEntryJSON{Domain: "c.d", Answer: "5.6.7.8"}
	case *[]string:
		*r = []string{}
	case *BlockedServices:
		r.IDs = []string{}
	case *SafeSearchConfig:
		r.Enabled = true
	}
	return nil
}

// vxC05FNewFileRuleList: the list file on disk is not part of the lock discipline.
func vxC05FNewFileRuleList(id int, path string, ignoreCosmetic bool) (*filterlist.FileRuleList, error) {
	return &filterlist.FileRuleList{}, nil
}

func vxC05FWriteJSON(w http.ResponseWriter, r *http.Request, code int, resp any) {}

type vxC05FWriter struct{ h http.Header }

func (w *vxC05FWriter) Header() http.Header         { return w.h }
func (w *vxC05FWriter) Write(b []byte) (int, error) { return len(b), nil }
func (w *vxC05FWriter) WriteHeader(code int)        {}

// vxC05FilterLists: the filter lists, the custom rules and the filtering
// switch are owned by conf.filtersMu; the per-feature switches by confMu.  One
// admin operation, refresh-worker step or configuration save at a time; the
// configuration-modified callback saves the configuration like the production
// one (home.onConfigModified -> config.write -> WriteDiskConfig).
func vxC05FilterLists() {
	c := &Config{ProtectionEnabled: true, FilteringEnabled: true, BlockedServices: &BlockedServices{Schedule: schedule.EmptyWeekly()},
		Filters:          []FilterYAML{{Enabled: true, URL: "https://lists.example/a.txt", Name: "a", Filter: Filter{ID: 1}}},
		WhitelistFilters: []FilterYAML{{Enabled: true, URL: "https://lists.example/w.txt", Name: "w", Filter: Filter{ID: 2}, white: true}},
		UserRules:        []string{"||x.example^"},
		DataDir:          "/data",
	}
	d := VxC05NewFilter(c)
	d.filtersInitializerChan = make(chan filtersInitializerParams, 1)
	vxC05Filt = d
	d.conf.ConfigModified = func() {
		saved := Config{}
		d.WriteDiskConfig(&saved)
	}
	vx.Guard(&d.conf.Filters, d.conf.filtersMu, "DNSFilter.conf.Filters")
	vx.Guard(&d.conf.WhitelistFilters, d.conf.filtersMu, "DNSFilter.conf.WhitelistFilters")
	vx.Guard(&d.conf.UserRules, d.conf.filtersMu, "DNSFilter.conf.UserRules")
	vx.Guard(&d.conf.FilteringEnabled, d.conf.filtersMu, "DNSFilter.conf.FilteringEnabled")
	vx.Guard(&d.conf.FiltersUpdateIntervalHours, d.conf.filtersMu, "DNSFilter.conf.FiltersUpdateIntervalHours")
	vx.Guard(&d.conf.SafeBrowsingEnabled, d.confMu, "DNSFilter.conf.SafeBrowsingEnabled")
	vx.Guard(&d.conf.ParentalEnabled, d.confMu, "DNSFilter.conf.ParentalEnabled")
	vx.Guard(&d.conf.SafeSearchConf, d.confMu, "DNSFilter.conf.SafeSearchConf")

	w := &vxC05FWriter{h: http.Header{}}
	r := &http.Request{Method: http.MethodPost, Header: http.Header{"Content-Type": {"application/json"}}, Body: http.NoBody}
	switch vx.Choice("op", 11) {
	case 0: // configuration save
		saved := Config{}
		d.WriteDiskConfig(&saved)
	case 1: // admin: add a list
		_ = d.filterAdd(FilterYAML{Enabled: true, URL: "https://lists.example/b.txt", Name: "b", Filter: Filter{ID: 3}})
	case 2: // admin: rename a list
		_, _ = d.filterSetProperties("https://lists.example/a.txt", FilterYAML{Enabled: true, URL: "https://lists.example/a.txt", Name: "renamed"}, false)
	case 3: // refresh worker / start-up: rebuild the engines from the lists
		d.EnableFilters(false)
	case 4: // admin: set custom rules
		d.handleFilteringSetRules(w, r)
	case 5: // admin: filtering switch and interval
		d.handleFilteringConfig(w, r)
	case 6: // admin: status
		d.handleFilteringStatus(w, r)
	case 7: // refresh worker: which lists are due
		d.listsToUpdate(&d.conf.Filters, true)
	case 8: // request path: settings snapshot
		d.Settings()
	case 9: // admin: safe browsing switch
		d.handleSafeBrowsingEnable(w, r)
	default: // admin: parental switch
		d.handleParentalDisable(w, r)
	}
	if vx.GuardHits() > 0 {
		vx.Reach("guarded-access")
	}
	vx.Assert(vx.Held(&d.engineLock) == 0 && vx.Held(d.confMu) == 0 && vx.Held(d.conf.filtersMu) == 0, "locks are released on return")
}

type vxC05FSafeSearch struct{}

func (vxC05FSafeSearch) CheckHost(ctx context.Context, host string, qtype uint16) (Result, error) {
	return Result{}, nil
}
func (vxC05FSafeSearch) Update(ctx context.Context, conf SafeSearchConfig) error { return nil }

// vxC05FilterAdmin: the admin handlers for rewrites, blocked services and safe
// search (all owned by confMu), each followed by the configuration save.
func vxC05FilterAdmin() {
	c := &Config{ProtectionEnabled: true, FilteringEnabled: true, BlockedServices: &BlockedServices{Schedule: schedule.EmptyWeekly()},
		Rewrites: []*LegacyRewrite{{Domain: "a.b", Answer: "1.2.3.4"}}}
	d := VxC05NewFilter(c)
	d.safeSearch = vxC05FSafeSearch{}
	_ = d.prepareRewrites()
	vxC05Filt = d
	d.conf.ConfigModified = func() {
		saved := Config{}
		d.WriteDiskConfig(&saved)
	}
	vx.Guard(&d.conf.Rewrites, d.confMu, "DNSFilter.conf.Rewrites")
	vx.Guard(&d.conf.BlockedServices, d.confMu, "DNSFilter.conf.BlockedServices")
	vx.Guard(&d.conf.SafeSearchConf, d.confMu, "DNSFilter.conf.SafeSearchConf")
	vx.Guard(&d.conf.SafeBrowsingEnabled, d.confMu, "DNSFilter.conf.SafeBrowsingEnabled")
	vx.Guard(&d.conf.ParentalEnabled, d.confMu, "DNSFilter.conf.ParentalEnabled")

	w := &vxC05FWriter{h: http.Header{}}
	r := (&http.Request{Method: http.MethodPost, Header: http.Header{"Content-Type": {"application/json"}}, Body: http.NoBody}).WithContext(context.Background())
	switch vx.Choice("op", 14) {
	case 0:
		d.handleRewriteList(w, r)
	case 1:
		d.handleRewriteAdd(w, r)
	case 2:
		d.handleRewriteDelete(w, r)
	case 3:
		d.handleRewriteUpdate(w, r)
	case 4:
		d.handleBlockedServicesList(w, r)
	case 5:
		d.handleBlockedServicesSet(w, r)
	case 6:
		d.handleBlockedServicesGet(w, r)
	case 7:
		d.handleBlockedServicesUpdate(w, r)
	case 8:
		d.handleSafeSearchEnable(w, r)
	case 9:
		d.handleSafeSearchDisable(w, r)
	case 10:
		d.handleSafeSearchStatus(w, r)
	case 11:
		d.handleSafeSearchSettings(w, r)
	case 12:
		d.handleSafeBrowsingStatus(w, r)
	default:
		d.handleParentalStatus(w, r)
	}
	if vx.GuardHits() > 0 {
		vx.Reach("guarded-access")
	}
	vx.Assert(vx.Held(&d.engineLock) == 0 && vx.Held(d.confMu) == 0 && vx.Held(d.conf.filtersMu) == 0, "locks are released on return")
}
