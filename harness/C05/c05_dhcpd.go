//go:build verif

package dhcpd

// C05 (restricted) — lock discipline of dhcpd.v4Server: leases, hostsIndex,
// ipIndex and leasedOffsets only under leasesLock.
//
//vx:overlay internal/dhcpd/zz_vx_c05d.go
//vx:entry vxC05DHCP reach=guarded-access
//vx:entry vxC05DHCP6 reach=guarded-access
//vx:stub time.Now vxC05DNow
//vx:stub encoding/json.Marshal vxC05DMarshal
//vx:stub github.com/google/renameio/v2/maybe.WriteFile vxC05DWriteFile
//vx:stub (*github.com/AdguardTeam/AdGuardHome/internal/dhcpd.v4Server).addrAvailable vxC05DAddrAvailable
//vx:opaque (net/netip.Addr).String
//vx:opaque (net.IP).String
//vx:opaque (net.HardwareAddr).String

import (
	"net"
	"net/netip"
	"os"
	"time"

	"github.com/AdguardTeam/AdGuardHome/internal/dhcpsvc"
	"github.com/AdguardTeam/AdGuardHome/internal/vx"
	"github.com/insomniacslk/dhcp/dhcpv4"
)

func vxC05DNow() time.Time                                         { return time.Unix(1_700_000_000, 0) }
func vxC05DMarshal(v any) ([]byte, error)                          { return []byte("{}"), nil }
func vxC05DWriteFile(_ string, _ []byte, _ os.FileMode) error      { return nil }
func vxC05DAddrAvailable(s *v4Server, target net.IP) bool          { return true }

func vxC05DReq(t dhcpv4.MessageType, mac net.HardwareAddr) *dhcpv4.DHCPv4 {
	req := &dhcpv4.DHCPv4{Options: dhcpv4.Options{}, ClientHWAddr: append(net.HardwareAddr(nil), mac...), ClientIPAddr: net.IP{0, 0, 0, 0}}
	req.UpdateOption(dhcpv4.OptMessageType(t))
	return req
}

func vxC05DHCP() {
	srv := &server{conf: &ServerConfig{dbFilePath: "leases.json"}}
	conf := &V4ServerConf{
		Enabled:       true,
		RangeStart:    netip.AddrFrom4([4]byte{192, 168, 10, 100}),
		RangeEnd:      netip.AddrFrom4([4]byte{192, 168, 10, 101}),
		GatewayIP:     netip.AddrFrom4([4]byte{192, 168, 10, 1}),
		SubnetMask:    netip.AddrFrom4([4]byte{255, 255, 255, 0}),
		LeaseDuration: 3600,
		notify:        srv.onNotify,
		dnsIPAddrs:    []netip.Addr{netip.AddrFrom4([4]byte{192, 168, 10, 1})},
	}
	si, err := v4Create(conf)
	vx.Assert(err == nil, "configuration accepted")
	if err != nil {
		return
	}
	srv.srv4 = si
	s := si
	mac0 := net.HardwareAddr{2, 0, 0, 0, 0, 1}
	mac1 := net.HardwareAddr{2, 0, 0, 0, 0, 2}
	// one acknowledged lease to start from
	resp := &dhcpv4.DHCPv4{Options: dhcpv4.Options{}}
	s.handle(vxC05DReq(dhcpv4.MessageTypeDiscover, mac0), resp)

	vx.Guard(&s.leases, &s.leasesLock, "dhcpd.v4Server.leases")
	vx.Guard(&s.hostsIndex, &s.leasesLock, "dhcpd.v4Server.hostsIndex")
	vx.Guard(&s.ipIndex, &s.leasesLock, "dhcpd.v4Server.ipIndex")
	vx.Guard(&s.leasedOffsets, &s.leasesLock, "dhcpd.v4Server.leasedOffsets")

	static := &dhcpsvc.Lease{HWAddr: mac1, IP: netip.AddrFrom4([4]byte{192, 168, 10, 50}), Hostname: "printer", IsStatic: true}
	resp = &dhcpv4.DHCPv4{Options: dhcpv4.Options{}}
	switch vx.Choice("op", 10) {
	case 0: // DHCP packet path
		s.handle(vxC05DReq(dhcpv4.MessageTypeDiscover, mac1), resp)
	case 1:
		s.handle(vxC05DReq(dhcpv4.MessageTypeRelease, mac0), resp)
	case 2:
		s.handle(vxC05DReq(dhcpv4.MessageTypeDecline, mac0), resp)
	case 3: // DNS request path
		s.HostByIP(netip.AddrFrom4([4]byte{192, 168, 10, 100}))
	case 4:
		s.IPByHost("printer")
	case 5:
		s.FindMACbyIP(netip.AddrFrom4([4]byte{192, 168, 10, 100}))
	case 6: // admin path
		_ = s.AddStaticLease(static)
	case 7:
		_ = s.RemoveStaticLease(static)
	case 8:
		s.GetLeases(LeasesAll)
	default:
		_ = s.ResetLeases(nil)
	}
	if vx.GuardHits() > 0 {
		vx.Reach("guarded-access")
	}
	vx.Assert(vx.Held(&s.leasesLock) == 0, "leasesLock is released on return")
}

// vxC05DHCP6: the same discipline for dhcpd.v6Server (leases and the ipAddrs
// bitmap only under leasesLock), including the database store that the
// LeaseChangedDBStore notification runs.
func vxC05DHCP6() {
	srv := &server{conf: &ServerConfig{dbFilePath: "leases.json"}}
	conf4 := &V4ServerConf{
		Enabled:       true,
		RangeStart:    netip.AddrFrom4([4]byte{192, 168, 10, 100}),
		RangeEnd:      netip.AddrFrom4([4]byte{192, 168, 10, 101}),
		GatewayIP:     netip.AddrFrom4([4]byte{192, 168, 10, 1}),
		SubnetMask:    netip.AddrFrom4([4]byte{255, 255, 255, 0}),
		LeaseDuration: 3600,
		notify:        srv.onNotify,
		dnsIPAddrs:    []netip.Addr{netip.AddrFrom4([4]byte{192, 168, 10, 1})},
	}
	s4, err := v4Create(conf4)
	vx.Assert(err == nil, "v4 configuration accepted")
	if err != nil {
		return
	}
	srv.srv4 = s4
	start := net.IP{0x20, 1, 0xd, 0xb8, 0, 0, 0, 0, 0, 0, 0, 0, 0, 0, 0, 0x10}
	si, err := v6Create(V6ServerConf{Enabled: true, RangeStart: start, LeaseDuration: 3600, notify: srv.onNotify})
	vx.Assert(err == nil, "v6 configuration accepted")
	if err != nil {
		return
	}
	srv.srv6 = si
	s := si.(*v6Server)
	mac0 := net.HardwareAddr{2, 0, 0, 0, 0, 1}
	mac1 := net.HardwareAddr{2, 0, 0, 0, 0, 2}
	first := s.reserveLease(mac0)
	vx.Assert(first != nil, "first lease reserved")

	vx.Guard(&s.leases, &s.leasesLock, "dhcpd.v6Server.leases")
	vx.Guard(&s.ipAddrs, &s.leasesLock, "dhcpd.v6Server.ipAddrs")
	vx.Guard(&s4.leases, &s4.leasesLock, "dhcpd.v4Server.leases")

	ip := netip.AddrFrom16([16]byte{0x20, 1, 0xd, 0xb8, 0, 0, 0, 0, 0, 0, 0, 0, 0, 0, 0, 0x50})
	static := &dhcpsvc.Lease{HWAddr: mac1, IP: ip, Hostname: "printer", IsStatic: true}
	switch vx.Choice("op", 10) {
	case 0: // DHCP packet path
		l := s.reserveLease(mac1)
		if l != nil {
			s.commitDynamicLease(l)
		}
	case 1:
		s.commitDynamicLease(first)
	case 2: // DNS request path
		s.HostByIP(ip)
	case 3:
		s.IPByHost("printer")
	case 4:
		s.FindMACbyIP(ip)
	case 5: // admin path
		_ = s.AddStaticLease(static)
	case 6:
		_ = s.AddStaticLease(static)
		_ = s.RemoveStaticLease(static)
	case 7:
		_ = s.AddStaticLease(static)
		upd := &dhcpsvc.Lease{HWAddr: mac1, IP: ip, Hostname: "scanner", IsStatic: true}
		_ = s.UpdateStaticLease(upd)
	case 8:
		s.GetLeases(LeasesAll)
	default:
		_ = s.ResetLeases(nil)
	}
	if vx.GuardHits() > 0 {
		vx.Reach("guarded-access")
	}
	vx.Assert(vx.Held(&s.leasesLock) == 0, "v6 leasesLock is released on return")
	vx.Assert(vx.Held(&s4.leasesLock) == 0, "v4 leasesLock is released on return")
}
