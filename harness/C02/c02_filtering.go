//go:build verif

package filtering

// C02/C02 helper in package filtering: builds a DNSFilter through the real
// New() with symbolic rule-engine verdicts.
//
//vx:overlay internal/filtering/zz_vx_c02f.go
//vx:stub (*github.com/AdguardTeam/urlfilter.DNSEngine).MatchRequest VxC02MatchRequest
//vx:stub (*github.com/AdguardTeam/urlfilter/rules.NetworkRule).Match VxC02RuleMatch
//vx:stub (*github.com/AdguardTeam/AdGuardHome/internal/schedule.Weekly).Contains VxC02ScheduleContains
//vx:stub github.com/AdguardTeam/urlfilter/rules.NewRequestForHostname VxC02NewRequest
//vx:stub os.MkdirAll VxC02MkdirAll
//vx:stub time.Now VxC02Now

import (
	"io/fs"
	"net/netip"
	"time"

	"github.com/AdguardTeam/AdGuardHome/internal/filtering/rulelist"
	"github.com/AdguardTeam/AdGuardHome/internal/schedule"
	"github.com/AdguardTeam/AdGuardHome/internal/vx"
	"github.com/AdguardTeam/urlfilter"
	"github.com/AdguardTeam/urlfilter/rules"
)

// VxC02Call records one consultation of a rule engine.
type VxC02Call struct {
	Allow bool
	Host  string
	Qtype uint16
}

var (
	VxC02Calls       []VxC02Call
	VxC02AllowEngine *urlfilter.DNSEngine
	// VxC02Verdict produces the verdict of an engine for one request.
	VxC02Verdict func(allow bool, req *urlfilter.DNSRequest) (*urlfilter.DNSResult, bool)
	// VxC02SvcMatch[i] is the verdict of service rule i for the host.
	VxC02SvcRules []*rules.NetworkRule
	VxC02SvcMatch []bool
	VxC02Paused   bool
	VxC02Clock    int64
)

func VxC02MatchRequest(e *urlfilter.DNSEngine, req *urlfilter.DNSRequest) (*urlfilter.DNSResult, bool) {
	allow := e == VxC02AllowEngine
	VxC02Calls = append(VxC02Calls, VxC02Call{Allow: allow, Host: req.Hostname, Qtype: req.DNSType})
	return VxC02Verdict(allow, req)
}

func VxC02RuleMatch(r *rules.NetworkRule, req *rules.Request) bool {
	for i, sr := range VxC02SvcRules {
		if sr == r {
			return VxC02SvcMatch[i]
		}
	}
	return false
}

func VxC02NewRequest(host string) *rules.Request { return &rules.Request{Hostname: host} }

func VxC02ScheduleContains(w *schedule.Weekly, t time.Time) bool { return VxC02Paused }

func VxC02MkdirAll(path string, perm fs.FileMode) error { return nil }

func VxC02Now() time.Time { return time.Unix(VxC02Clock, 0) }

// VxC02NewFilter runs the real constructor and installs two (opaque) engines.
func VxC02NewFilter(c *Config, services []string) *DNSFilter {
	serviceRules = map[string][]*rules.NetworkRule{}
	VxC02SvcRules = nil
	for _, name := range services {
		r := &rules.NetworkRule{RuleText: "||" + name + "^", FilterListID: int(rulelist.URLFilterIDBlockedService)}
		serviceRules[name] = []*rules.NetworkRule{r}
		VxC02SvcRules = append(VxC02SvcRules, r)
	}
	d, err := New(c, nil)
	if err != nil {
		vx.Fail("filtering.New failed in the harness")
	}
	d.filteringEngine = &urlfilter.DNSEngine{}
	d.filteringEngineAllow = &urlfilter.DNSEngine{}
	VxC02AllowEngine = d.filteringEngineAllow
	return d
}

// VxC02HostRule builds a hosts-style rule with the given address.
func VxC02HostRule(text string, ip netip.Addr) *rules.HostRule {
	return &rules.HostRule{RuleText: text, IP: ip, FilterListID: 7}
}
