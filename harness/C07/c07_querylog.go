//go:build verif

package querylog

// C07 — the query-log API returns every recorded query exactly once, newest
// first, with paging.
//
//vx:overlay internal/querylog/zz_vx_c07.go
//vx:const internal/querylog/qlogfile.go maxEntrySize 4
//vx:const internal/querylog/qlogfile.go bufferSize 2*maxEntrySize
//vx:stub time.Now vxC07Now
//vx:stub os.OpenFile vxC07OpenFile
//vx:stub os.Rename vxC07Rename
//vx:stub os.Remove vxC07Remove
//vx:stub (*os.File).Stat vxC07Stat
//vx:stub (*os.File).Seek vxC07Seek
//vx:stub (*os.File).Read vxC07Read
//vx:stub (*os.File).Write vxC07Write
//vx:stub (*os.File).Close vxC07Close
//vx:stub (*os.File).Name vxC07Name
//vx:stub encoding/json.NewEncoder vxC07NewEncoder
//vx:stub (*encoding/json.Encoder).Encode vxC07Encode
//vx:stub github.com/AdguardTeam/AdGuardHome/internal/querylog.readQLogTimestamp vxC07Timestamp
//vx:stub (*github.com/AdguardTeam/AdGuardHome/internal/querylog.queryLog).decodeLogEntry vxC07Decode
//vx:entry vxC07History reach=recorded,auto-flush,flushed,rotated,cleared,restarted,disabled,from-memory,from-current,from-rotated
//vx:entry vxC07Paging reach=from-memory,from-current,from-rotated,all-three,empty-log,cursor-in-memory
//vx:entry vxC07Params reach=negative-total,returned
//vx:note History/Paging/Params run the REAL queryLog (newQueryLog, Add, ring buffer, flushLogBuffer/encodeEntries/flushToFile, rotate, clear, Shutdown, search, searchMemory, searchFiles, setQLogReader, seekRecord, readEntries, readNextEntry, qLogReader, qLogFile, slices.SortStableFunc) against an in-memory file system (stubs of os.OpenFile/Rename/Remove and of the *os.File methods); the flush goroutine that Add starts is run to completion before the next operation (records submitted while a flush is pending are outside)
//vx:note SCALED CONSTANTS: maxEntrySize=4, bufferSize=8 (real: 16384, 1638400); a stored line is 2 bytes + newline: time stamp byte and record number.  The JSON encoder and the token decoder are replaced by this line format in History/Paging/Params (json.NewEncoder/Encode, decodeLogEntry, readQLogTimestamp stubs); the decoder is exercised on real lines by vxC07RoundTrip
//vx:note time stamps are concrete and strictly increasing (the code only compares them; equal time stamps and clock steps backwards are outside); everything in History/Paging/Params is concrete per path: the engine enumerates the operation sequences and log shapes, the search parameters are looped over inside a path
//vx:note History: config (MemSize, files) in {(0,on),(1,on),(2,on),(2,off)} quick / {(0..3,on),(1,off),(2,off)} thorough; 1..5 (quick) / 1..7 (thorough) operations from record, flush, rotate, clear, restart (Shutdown + new instance on the same files), record-while-disabled; then cursor walks with limit 1,2,3 and every offset/limit window with every stored time as older_than.  MemSize=0 without files is not a configuration of the claim (nothing is retrievable by design)
//vx:note Paging: every distribution of 0..2 + 0..2 + 0..3 (quick) / 0..3 + 0..3 + 0..3 (thorough) records over rotated file, current file, memory; cursor walks with limit 1,2,3,4,500 x file scan cap 50000,1,2 x status filter none/blocked; every offset/limit window x every stored time as cursor x filter
//vx:note Params: limit, offset in {0,1,2,-1,-3,2^62,-2^63,2^63-1}, older_than none / far past / far future / every nanosecond from just before the oldest to just after the newest record; only crash-freedom and soundness of the returned list are asserted there (completeness is claimed for returned cursors only: an older_than strictly inside a file that is not a stored time stamp makes the file search fail by design)
//vx:note the cursor passes from response to request as the instant only (RFC 3339 text round trip and HTTP parameter parsing, parseSearchParams, are not executed: strconv/time.Parse of request text are outside); entriesToJSON is not executed
//vx:note outside: records submitted while a flush is pending; rotation ageing decision (checkAndRotate/readFileFirstTimeValue: rotate() is called directly); ignore list / ignored clients (C08); anonymisation; concurrent searches; equal time stamps; files without final newline, lines >= maxEntrySize (C20)

import (
	"context"
	"encoding/json"
	"fmt"
	"io"
	"io/fs"
	"log/slog"
	"net"
	"os"
	"time"

	"github.com/AdguardTeam/AdGuardHome/internal/aghnet"
	"github.com/AdguardTeam/AdGuardHome/internal/filtering"
	"github.com/AdguardTeam/AdGuardHome/internal/vx"
	"github.com/AdguardTeam/golibs/errors"
	"github.com/AdguardTeam/golibs/timeutil"
	"github.com/miekg/dns"
)

// ---- in-memory file system (two names) ---------------------------------------

type vxC07Inode struct{ data []byte }

type vxC07Handle struct {
	h      *os.File
	ino    *vxC07Inode
	off    int64
	app    bool
	closed bool
}

var (
	vxC07Cur, vxC07Old *vxC07Inode // nil: the file does not exist
	vxC07Handles       []*vxC07Handle
)

const (
	vxC07Dir     = "/vx"
	vxC07CurName = "/vx/querylog.json"
	vxC07OldName = "/vx/querylog.json.1"
)

const vxC07ErrInvalid errors.Error = "invalid argument"

func vxC07Slot(name string) **vxC07Inode {
	switch name {
	case vxC07CurName:
		return &vxC07Cur
	case vxC07OldName:
		return &vxC07Old
	}
	vx.Fail("harness: unexpected file name")
	return nil
}

func vxC07OpenFile(name string, flag int, perm os.FileMode) (*os.File, error) {
	slot := vxC07Slot(name)
	if *slot == nil {
		if flag&os.O_CREATE == 0 {
			return nil, &os.PathError{Op: "open", Path: name, Err: os.ErrNotExist}
		}
		*slot = &vxC07Inode{}
	}
	h := new(os.File)
	vxC07Handles = append(vxC07Handles, &vxC07Handle{h: h, ino: *slot, app: flag&os.O_APPEND != 0})
	return h, nil
}

func vxC07Rename(from, to string) error {
	s := vxC07Slot(from)
	if *s == nil {
		return &os.LinkError{Op: "rename", Old: from, New: to, Err: os.ErrNotExist}
	}
	*vxC07Slot(to) = *s
	*s = nil
	return nil
}

func vxC07Remove(name string) error {
	s := vxC07Slot(name)
	if *s == nil {
		return &os.PathError{Op: "remove", Path: name, Err: os.ErrNotExist}
	}
	*s = nil
	return nil
}

func vxC07H(f *os.File) *vxC07Handle {
	for _, m := range vxC07Handles {
		if m.h == f {
			return m
		}
	}
	vx.Fail("harness: unknown *os.File")
	return nil
}

type vxC07Info struct{ size int64 }

func (i vxC07Info) Name() string       { return "querylog.json" }
func (i vxC07Info) Size() int64        { return i.size }
func (i vxC07Info) Mode() fs.FileMode  { return 0o644 }
func (i vxC07Info) ModTime() time.Time { return time.Time{} }
func (i vxC07Info) IsDir() bool        { return false }
func (i vxC07Info) Sys() any           { return nil }

func vxC07Stat(f *os.File) (os.FileInfo, error) {
	return vxC07Info{size: int64(len(vxC07H(f).ino.data))}, nil
}

func vxC07Seek(f *os.File, offset int64, whence int) (int64, error) {
	m := vxC07H(f)
	switch whence {
	case io.SeekCurrent:
		offset += m.off
	case io.SeekEnd:
		offset += int64(len(m.ino.data))
	}
	if offset < 0 {
		return 0, vxC07ErrInvalid
	}
	m.off = offset
	return offset, nil
}

func vxC07Read(f *os.File, b []byte) (int, error) {
	m := vxC07H(f)
	if len(b) == 0 {
		return 0, nil
	}
	if m.off >= int64(len(m.ino.data)) {
		return 0, io.EOF
	}
	n := copy(b, m.ino.data[m.off:])
	m.off += int64(n)
	return n, nil
}

func vxC07Write(f *os.File, b []byte) (int, error) {
	m := vxC07H(f)
	if !m.app {
		vx.Fail("harness: write to a file not opened for appending")
	}
	m.ino.data = append(m.ino.data, b...)
	return len(b), nil
}

func vxC07Close(f *os.File) error {
	vxC07H(f).closed = true
	return nil
}

func vxC07Name(f *os.File) string { return "querylog.json" }

// ---- clock -------------------------------------------------------------------

var (
	vxC07Clock byte // time of the latest record
	vxC07Tick  bool // the next time.Now is the time of a new record
)

// vxC07Now: every record gets an instant strictly after the previous one.  The
// instants are concrete (the code under test only compares them: any other
// strictly increasing sequence takes the same branches) and fit the one-byte
// timestamp of the line format below.
func vxC07Now() time.Time {
	if vxC07Tick {
		vxC07Tick = false
		if vxC07Clock == 0 {
			vxC07Clock = 0x20
		} else {
			vxC07Clock += 3 + vxC07Clock%5
		}
	}
	return time.Unix(0, int64(vxC07Clock))
}

// ---- line format -------------------------------------------------------------
//
// A stored line is two bytes: the timestamp and 'a'+k where k is the number of
// the record.  The JSON encoder and the token decoder are replaced by this
// format (see vxC07Golden for the decoder on real lines).

type vxC07Enc struct {
	e *json.Encoder
	w io.Writer
}

var vxC07Encs []vxC07Enc

func vxC07NewEncoder(w io.Writer) *json.Encoder {
	e := new(json.Encoder)
	vxC07Encs = append(vxC07Encs, vxC07Enc{e, w})
	return e
}

func vxC07Encode(e *json.Encoder, v any) error {
	ent, ok := v.(*logEntry)
	if !ok {
		vx.Fail("harness: encoder used for something else than a log entry")
		return nil
	}
	for _, x := range vxC07Encs {
		if x.e == e {
			_, err := x.w.Write([]byte{byte(ent.Time.UnixNano()), ent.QHost[0], '\n'})
			return err
		}
	}
	vx.Fail("harness: unknown encoder")
	return nil
}

func vxC07Timestamp(ctx context.Context, logger *slog.Logger, str string) int64 {
	if len(str) == 0 {
		return 0
	}
	if str[0] == '{' {
		// a real line (vxC07RoundTrip): the real function
		return readQLogTimestamp(ctx, logger, str)
	}
	return int64(str[0])
}

func vxC07Decode(l *queryLog, ctx context.Context, ent *logEntry, str string) {
	if len(str) > 0 && str[0] == '{' {
		// a real line (vxC07RoundTrip): the real decoder
		l.decodeLogEntry(ctx, ent, str)
		return
	}
	if len(str) != 2 {
		vx.Fail("harness: mis-framed line handed to the decoder")
		return
	}
	k := int(str[1] - 'a')
	if k < 0 || k >= len(vxC07Recs) {
		vx.Fail("harness: unknown record in a line")
		return
	}
	*ent = *vxC07Entry(k)
	ent.Time = time.Unix(0, int64(str[0])).UTC()
}

// ---- records -----------------------------------------------------------------

// vxC07Rec is what the harness knows about record k, independently of the
// query log.
type vxC07Rec struct {
	ts      byte
	blocked bool
}

var vxC07Recs []*vxC07Rec

func vxC07Host(k int) string { return string(rune('a'+k)) + ".example.org" }

func vxC07IP(k int) net.IP { return net.IP{10, 0, 0, byte(k + 1)} }

func vxC07CID(k int) string {
	if k%3 == 0 {
		return "cid" + string(rune('0'+k))
	}
	return ""
}

func vxC07Result(k int) filtering.Result {
	if k%2 == 1 {
		return filtering.Result{
			IsFiltered: true,
			Reason:     filtering.FilteredBlockList,
			Rules:      []*filtering.ResultRule{{Text: "||" + vxC07Host(k) + "^", FilterListID: 7}},
		}
	}
	return filtering.Result{Reason: filtering.NotFilteredNotFound}
}

func vxC07Proto(k int) ClientProto {
	return []ClientProto{ClientProtoPlain, ClientProtoDoH, ClientProtoDoT, ClientProtoDoQ, ClientProtoDNSCrypt}[k%5]
}

func vxC07Upstream(k int) string { return "udp://9.9.9." + string(rune('0'+k)) + ":53" }

// vxC07Entry is the expected stored form of record k (without the time).
func vxC07Entry(k int) *logEntry {
	return &logEntry{
		QHost:             vxC07Host(k),
		QType:             "A",
		QClass:            "IN",
		ClientID:          vxC07CID(k),
		ClientProto:       vxC07Proto(k),
		Upstream:          vxC07Upstream(k),
		IP:                vxC07IP(k),
		Result:            vxC07Result(k),
		Elapsed:           time.Duration(1000 + k),
		Cached:            k%2 == 0,
		AuthenticatedData: k%3 == 1,
	}
}

func vxC07AddParams(k int) *AddParams {
	q := &dns.Msg{}
	// the question name as it arrives: fully qualified, mixed case
	q.Question = []dns.Question{{Name: string(rune('A'+k)) + ".Example.ORG.", Qtype: dns.TypeA, Qclass: dns.ClassINET}}
	res := vxC07Result(k)
	return &AddParams{
		Question:          q,
		Result:            &res,
		ClientID:          vxC07CID(k),
		Upstream:          vxC07Upstream(k),
		ClientProto:       vxC07Proto(k),
		ClientIP:          vxC07IP(k),
		Elapsed:           time.Duration(1000 + k),
		Cached:            k%2 == 0,
		AuthenticatedData: k%3 == 1,
	}
}

// ---- the world: the real query log + the reference model --------------------

type vxC07World struct {
	l    *queryLog
	conf Config

	// reference model: numbers of the live records, oldest first
	mem, cur, old  []int
	hasCur, hasOld bool
}

func vxC07NewWorld(memSize uint, fileEnabled bool) *vxC07World {
	vxC07Cur, vxC07Old, vxC07Handles, vxC07Encs = nil, nil, nil, nil
	vxC07Clock, vxC07Tick = 0, false
	vxC07Recs = nil
	_ = io.MultiReader()
	if io.EOF == nil {
		vx.Fail("harness: io.EOF is nil (package io not initialised by the engine)")
	}
	w := &vxC07World{conf: Config{
		Logger:      slog.Default(),
		Anonymizer:  aghnet.NewIPMut(nil),
		BaseDir:     vxC07Dir,
		RotationIvl: timeutil.Day,
		MemSize:     memSize,
		Enabled:     true,
		FileEnabled: fileEnabled,
	}}
	w.start()
	return w
}

func (w *vxC07World) start() {
	l, err := newQueryLog(w.conf)
	vx.Assert(err == nil, "query log constructed")
	w.l = l
}

func (w *vxC07World) refFlush() {
	if len(w.mem) == 0 {
		return
	}
	w.cur = append(w.cur, w.mem...)
	w.mem = nil
	w.hasCur = true
}

// record submits query number len(vxC07Recs) through the real Add and runs the
// flush goroutine, if Add started one, to completion before anything else
// happens (records submitted while a flush is pending are outside).
func (w *vxC07World) record() {
	k := len(vxC07Recs)
	r := &vxC07Rec{blocked: k%2 == 1}
	vxC07Recs = append(vxC07Recs, r)
	g0 := vx.Goroutines()
	vxC07Tick = true
	w.l.Add(vxC07AddParams(k))
	ticked := !vxC07Tick
	vxC07Tick = false
	r.ts = vxC07Clock
	enabled := w.l.conf.Enabled
	vx.Assert(ticked == enabled, "a query is recorded exactly when logging is enabled")
	if enabled {
		vx.Reach("recorded")
		w.mem = append(w.mem, k)
		if vx.Goroutines() > g0 {
			// Add has started a flush of the buffer to the file
			vx.Reach("auto-flush")
			vx.Assert(w.conf.FileEnabled, "nothing is written to files when they are disabled")
			w.refFlush()
		} else if !w.conf.FileEnabled && len(w.mem) > max(int(w.conf.MemSize), 1) {
			// memory-only log: the ring buffer keeps the newest MemSize records
			w.mem = w.mem[1:]
		}
	} else {
		vx.Reach("disabled")
	}
	for i := g0; i < vx.Goroutines(); i++ {
		vx.RunGoroutine(i)
	}
}

func (w *vxC07World) flush() {
	err := w.l.flushLogBuffer(context.Background())
	if len(w.mem) > 0 {
		vx.Reach("flushed")
		vx.Assert(err == nil, "flushing a non-empty buffer succeeds")
	}
	w.refFlush()
}

func (w *vxC07World) rotate() {
	err := w.l.rotate(context.Background())
	vx.Assert(err == nil, "rotation succeeds")
	if w.hasCur {
		vx.Reach("rotated")
		w.old, w.hasOld = w.cur, true
		w.cur, w.hasCur = nil, false
	}
}

func (w *vxC07World) clear() {
	vx.Reach("cleared")
	w.l.clear(context.Background())
	w.mem, w.cur, w.old, w.hasCur, w.hasOld = nil, nil, nil, false, false
}

func (w *vxC07World) restart() {
	vx.Reach("restarted")
	err := w.l.Shutdown(context.Background())
	if w.conf.FileEnabled {
		if len(w.mem) > 0 {
			vx.Assert(err == nil, "shutdown flushes the buffer")
		}
		w.refFlush()
	}
	w.mem = nil
	w.conf = *w.l.conf
	w.start()
}

// setEnabled does what the configuration handlers do: replace the
// configuration by a copy with the new value under the write lock.
func (w *vxC07World) setEnabled(on bool) {
	w.l.confMu.Lock()
	conf := *w.l.conf
	conf.Enabled = on
	w.l.conf = &conf
	w.l.confMu.Unlock()
}

// expected returns the numbers of the live records, newest first, that
// satisfy the status filter.
func (w *vxC07World) expected(blockedOnly bool) (exp []int) {
	for _, part := range [][]int{w.mem, w.cur, w.old} {
		for i := len(part) - 1; i >= 0; i-- {
			if !blockedOnly || vxC07Recs[part[i]].blocked {
				exp = append(exp, part[i])
			}
		}
	}
	return exp
}

// newestInFiles returns the time of the newest record stored in a file.
func (w *vxC07World) newestInFiles() (ts byte, ok bool) {
	if n := len(w.cur); n > 0 {
		return vxC07Recs[w.cur[n-1]].ts, true
	}
	if n := len(w.old); n > 0 {
		return vxC07Recs[w.old[n-1]].ts, true
	}
	return 0, false
}

// cursorPastFiles is the input class of the finding
// C07-cursor-newer-than-files: a non-zero older_than that is newer than every
// record in the (non-empty) files.
func (w *vxC07World) cursorPastFiles(cursor time.Time) bool {
	ts, ok := w.newestInFiles()
	return ok && !cursor.IsZero() && cursor.UnixNano() > int64(ts)
}

func (w *vxC07World) checkFiles() {
	vx.Assert((vxC07Cur != nil) == w.hasCur, "the current file exists exactly when something was flushed since the last rotation / clear")
	vx.Assert((vxC07Old != nil) == w.hasOld, "the rotated file exists exactly when a rotation happened since the last clear")
	for _, h := range vxC07Handles {
		vx.Assert(h.closed, "every opened file is closed again")
	}
}

// search runs one API search under the configuration read lock, like
// handleQueryLog does.
func (w *vxC07World) search(p *searchParams) (entries []*logEntry, oldest time.Time) {
	w.l.confMu.RLock()
	defer w.l.confMu.RUnlock()
	return w.l.search(context.Background(), p)
}

// vxC07Same asserts that the returned entry e is record k as it was recorded.
func vxC07Same(e *logEntry, k int) {
	want := vxC07Entry(k)
	ok := e.QHost == want.QHost && e.QType == want.QType && e.QClass == want.QClass &&
		e.ClientID == want.ClientID && e.ClientProto == want.ClientProto && e.Upstream == want.Upstream &&
		e.IP.Equal(want.IP) && e.Elapsed == want.Elapsed && e.Cached == want.Cached &&
		e.AuthenticatedData == want.AuthenticatedData &&
		e.Result.Reason == want.Result.Reason && e.Result.IsFiltered == want.Result.IsFiltered &&
		len(e.Result.Rules) == len(want.Result.Rules)
	if ok && len(e.Result.Rules) == 1 {
		ok = *e.Result.Rules[0] == *want.Result.Rules[0]
	}
	vx.Assert(ok, "an entry is returned with the client, question, upstream and filtering result it was recorded with")
	vx.Assert(e.Time.UnixNano() == int64(vxC07Recs[k].ts), "an entry is returned with the time it was recorded at")
}

// vxC07Number identifies the record a returned entry claims to be.
func vxC07Number(e *logEntry) int {
	if len(e.QHost) == 0 {
		return -1
	}
	k := int(e.QHost[0]) - 'a'
	if k < 0 || k >= len(vxC07Recs) {
		return -1
	}
	return k
}

// numbers checks every returned entry against its record and returns the
// record numbers.
func vxC07Numbers(entries []*logEntry) (got []int) {
	for _, e := range entries {
		k := vxC07Number(e)
		vx.Assert(k >= 0, "a returned entry is a recorded query")
		if k < 0 {
			return got
		}
		vxC07Same(e, k)
		got = append(got, k)
	}
	return got
}

func vxC07Criteria(blockedOnly bool) []searchCriterion {
	if !blockedOnly {
		return nil
	}
	return []searchCriterion{{criterionType: ctFilteringStatus, value: filteringStatusBlocked}}
}

// walk pages through the whole log with the older_than cursor, like the web
// client does: first page without cursor, then older_than = the "oldest" value
// of the previous response until that is empty.  It returns the numbers of
// all returned entries in the order of arrival; pastFiles tells that one of
// the cursors was in the class of C07-cursor-newer-than-files.
func (w *vxC07World) walk(limit, scanCap int, blockedOnly bool) (got []int, pastFiles bool) {
	var cursor time.Time
	total := len(w.mem) + len(w.cur) + len(w.old)
	for page := 0; ; page++ {
		if page > 2*total+2 {
			vx.Fail("paging with the returned cursor terminates")
			return got, pastFiles
		}
		p := newSearchParams()
		p.limit = limit
		p.maxFileScanEntries = scanCap
		p.olderThan = cursor
		p.searchCriteria = vxC07Criteria(blockedOnly)
		if w.cursorPastFiles(cursor) {
			pastFiles = true
		}
		entries, oldest := w.search(p)
		vx.Assert(len(entries) <= limit, "a page holds at most limit entries")
		got = append(got, vxC07Numbers(entries)...)
		if len(entries) > 0 {
			vx.Assert(oldest.Equal(entries[len(entries)-1].Time), "the cursor of a non-empty page is the time of its last entry")
		}
		if oldest.IsZero() {
			return got, pastFiles
		}
		vx.Assert(cursor.IsZero() || oldest.Before(cursor), "the returned cursor moves towards older records")
		// what survives the RFC 3339 text form of the cursor: the instant
		cursor = time.Unix(0, oldest.UnixNano()).UTC()
	}
}

func vxC07SameList(got, want []int) bool {
	if len(got) != len(want) {
		return false
	}
	for i := range got {
		if got[i] != want[i] {
			return false
		}
	}
	return true
}

func vxC07Clip(want []int, offset, limit int) []int {
	if offset >= len(want) {
		return nil
	}
	want = want[offset:]
	if limit < len(want) {
		want = want[:limit]
	}
	return want
}

// vxC07Pending is a comparison put off until the end of the path because its
// input is in the class of a known finding.
type vxC07Pending struct {
	got, want []int
	what      string
}

const (
	vxC07LabelWalk = "paging with the returned older_than cursor yields every live record exactly once, newest first"
	vxC07LabelPage = "offset/limit returns exactly that slice of the newest-first sequence of live records"
)

// checkWalks reads the whole log page by page for every page size and scan
// cap given and compares with the reference.
func (w *vxC07World) checkWalks(limits, scanCaps []int, filters []bool, pend []vxC07Pending) []vxC07Pending {
	for _, blockedOnly := range filters {
		want := w.expected(blockedOnly)
		for _, limit := range limits {
			for _, scanCap := range scanCaps {
				got, pastFiles := w.walk(limit, scanCap, blockedOnly)
				what := fmt.Sprintf("walk limit=%d scan=%d blockedOnly=%v: got %v want %v", limit, scanCap, blockedOnly, got, want)
				if pastFiles {
					pend = append(pend, vxC07Pending{got, want, what})
					continue
				}
				if !vxC07SameList(got, want) {
					vx.Note(what)
				}
				vx.Assert(vxC07SameList(got, want), vxC07LabelWalk)
			}
		}
	}
	return pend
}

// checkPages asks for every (offset, limit) window, without cursor and with
// the time of every live record as cursor.
func (w *vxC07World) checkPages(filters []bool, pend []vxC07Pending) []vxC07Pending {
	all := w.expected(false)
	for _, blockedOnly := range filters {
		for c := -1; c < len(all); c++ {
			var cursor time.Time
			var want []int
			if c >= 0 {
				cursor = time.Unix(0, int64(vxC07Recs[all[c]].ts)).UTC()
			}
			for _, k := range w.expected(blockedOnly) {
				if c < 0 || vxC07Recs[k].ts < vxC07Recs[all[c]].ts {
					want = append(want, k)
				}
			}
			pastFiles := w.cursorPastFiles(cursor)
			for offset := 0; offset <= len(want)+1; offset++ {
				for limit := 1; limit <= len(want)+1-offset || limit == 1; limit++ {
					p := newSearchParams()
					p.offset, p.limit = offset, limit
					// parseSearchParams: an explicit offset lifts the scan cap
					p.maxFileScanEntries = 0
					p.olderThan = cursor
					p.searchCriteria = vxC07Criteria(blockedOnly)
					entries, oldest := w.search(p)
					got := vxC07Numbers(entries)
					exp := vxC07Clip(want, offset, limit)
					what := fmt.Sprintf("page offset=%d limit=%d cursor=#%d blockedOnly=%v: got %v want %v", offset, limit, c, blockedOnly, got, exp)
					if len(entries) > 0 {
						vx.Assert(oldest.Equal(entries[len(entries)-1].Time), "the cursor of a non-empty page is the time of its last entry")
					}
					if pastFiles {
						pend = append(pend, vxC07Pending{got, exp, what})
						continue
					}
					if !vxC07SameList(got, exp) {
						vx.Note(what)
					}
					vx.Assert(vxC07SameList(got, exp), vxC07LabelPage)
				}
			}
		}
	}
	return pend
}

// vxC07Settle asserts the comparisons whose inputs are in the class of the
// known finding, after declaring it (last thing on the path).
func vxC07Settle(pend []vxC07Pending) {
	if len(pend) == 0 {
		return
	}
	vx.Known("C07-cursor-newer-than-files", true)
	for _, c := range pend {
		if !vxC07SameList(c.got, c.want) {
			vx.Note(c.what)
			label := vxC07LabelWalk
			if c.what[0] == 'p' {
				label = vxC07LabelPage
			}
			vx.Fail(label)
		}
	}
}

func (w *vxC07World) reachSources() {
	if len(w.mem) > 0 {
		vx.Reach("from-memory")
	}
	if len(w.cur) > 0 {
		vx.Reach("from-current")
	}
	if len(w.old) > 0 {
		vx.Reach("from-rotated")
	}
}

// ---- entries -----------------------------------------------------------------

var vxC07OpNames = []string{"record", "flush", "rotate", "clear", "restart", "record-while-disabled"}

// vxC07History: any sequence of record / flush / rotate / clear / restart /
// record-while-disabled operations, then the whole log is read page by page
// and window by window.
func vxC07History() {
	type cfg struct {
		memSize uint
		file    bool
	}
	// MemSize 0 without files keeps nothing retrievable ("the buffer can
	// contain a single log record" only to feed the file): not a configuration
	// of the claim.
	cfgs := []cfg{{0, true}, {1, true}, {2, true}, {2, false}}
	steps := 5
	if vx.Thorough() {
		cfgs = []cfg{{0, true}, {1, true}, {2, true}, {3, true}, {1, false}, {2, false}}
		steps = 7
	}
	c := cfgs[vx.Choice("config", len(cfgs))]
	w := vxC07NewWorld(c.memSize, c.file)
	n := 1 + vx.Choice("steps", steps)
	last, disabledDone := -1, false
	hist := ""
	for i := 0; i < n; i++ {
		ops := []int{0}
		if len(w.mem) > 0 && c.file {
			ops = append(ops, 1)
		}
		if w.hasCur {
			ops = append(ops, 2)
		}
		if len(w.mem) > 0 || w.hasCur || w.hasOld {
			ops = append(ops, 3)
		}
		if last != 4 {
			ops = append(ops, 4)
		}
		if !disabledDone {
			ops = append(ops, 5)
		}
		op := ops[vx.Choice("op", len(ops))]
		hist += " " + vxC07OpNames[op]
		switch op {
		case 0:
			w.record()
		case 1:
			w.flush()
		case 2:
			w.rotate()
		case 3:
			w.clear()
		case 4:
			w.restart()
		default:
			disabledDone = true
			w.setEnabled(false)
			w.record()
			w.setEnabled(true)
		}
		last = op
		w.checkFiles()
	}
	vx.Note("history:" + hist)
	w.reachSources()
	var pend []vxC07Pending
	pend = w.checkWalks([]int{1, 2, 3}, []int{50000}, []bool{false}, pend)
	pend = w.checkPages([]bool{false}, pend)
	w.checkFiles()
	vxC07Settle(pend)
}

// vxC07Canonical builds a log with a records in the rotated file, b in the
// current file and c in memory through the real operations (a == 0: no rotated
// file, b == 0: no current file).
func vxC07Canonical(a, b, c int) *vxC07World {
	w := vxC07NewWorld(4, true)
	for i := 0; i < a; i++ {
		w.record()
	}
	if a > 0 {
		w.flush()
		w.rotate()
	}
	for i := 0; i < b; i++ {
		w.record()
	}
	if b > 0 {
		w.flush()
	}
	for i := 0; i < c; i++ {
		w.record()
	}
	w.checkFiles()
	vx.Assert(len(w.old) == a && len(w.cur) == b && len(w.mem) == c, "harness: canonical state")
	return w
}

// vxC07Paging: every distribution of up to 2+2+3 (quick) / 3+3+3 (thorough)
// records over rotated file, current file and memory; every page size with
// the cursor walk, with and without a scan cap and a status filter; every
// offset/limit window with every stored time as cursor.
func vxC07Paging() {
	na, nb, nc := 2, 2, 3
	if vx.Thorough() {
		na, nb = 3, 3
	}
	a := vx.Choice("rotated", na+1)
	b := vx.Choice("current", nb+1)
	c := vx.Choice("memory", nc+1)
	w := vxC07Canonical(a, b, c)
	w.reachSources()
	if a > 0 && b > 0 && c > 0 {
		vx.Reach("all-three")
	}
	if a+b+c == 0 {
		vx.Reach("empty-log")
	}
	var pend []vxC07Pending
	pend = w.checkWalks([]int{1, 2, 3, 4, 500}, []int{50000, 1, 2}, []bool{false, true}, pend)
	pend = w.checkPages([]bool{false, true}, pend)
	w.checkFiles()
	if len(pend) > 0 {
		vx.Reach("cursor-in-memory")
	}
	vxC07Settle(pend)
}

// vxC07Odd lists the limit / offset values tried by vxC07Params.
var vxC07Odd = []int{0, 1, 2, -1, -3, 1 << 62, -1 << 63, 1<<63 - 1}

// vxC07Params: no value of limit, offset and older_than makes a search crash,
// and whatever is returned is a duplicate-free, newest-first list of live
// records older than the cursor, at most limit long.
func vxC07Params() {
	shapes := [][3]int{{1, 1, 1}, {0, 0, 2}, {0, 2, 0}, {2, 0, 1}, {2, 2, 0}}
	s := shapes[vx.Choice("shape", len(shapes))]
	w := vxC07Canonical(s[0], s[1], s[2])
	all := w.expected(false)
	// cursors: none, far past, far future, and every instant from just before
	// the oldest to just after the newest record (stored and absent ones)
	cursors := []int64{0, -1 << 62, 1 << 62, -5, 1}
	for ns := int64(vxC07Recs[0].ts) - 1; ns <= int64(vxC07Clock)+1; ns++ {
		cursors = append(cursors, ns)
	}
	offsetGiven := vx.Choice("offsetGiven", 2) == 1
	negative := vx.Choice("negativeTotal", 2) == 1
	if negative {
		// input class of the (fixed) finding: limit != 0 and offset+limit
		// negative, overflow included
		vx.Known("C07-negative-total-limit", true)
	}
	for _, limit := range vxC07Odd {
		for _, offset := range vxC07Odd {
			total := offset + limit // wraps like the code's
			if (limit != 0 && total < 0) != negative {
				continue
			}
			if negative {
				vx.Reach("negative-total")
			}
			for _, ns := range cursors {
				p := newSearchParams()
				p.limit, p.offset = limit, offset
				if offsetGiven {
					p.maxFileScanEntries = 0
				}
				if ns != 0 {
					p.olderThan = time.Unix(0, ns).UTC()
				}
				entries, oldest := w.search(p)
				vx.Reach("returned")
				got := vxC07Numbers(entries)
				pos := -1
				for _, k := range got {
					i := 0
					for i < len(all) && all[i] != k {
						i++
					}
					ok := i < len(all) && i > pos && (ns == 0 || int64(vxC07Recs[k].ts) < ns)
					if !ok {
						vx.Note(fmt.Sprintf("limit=%d offset=%d older_than=%d: got %v of %v", limit, offset, ns, got, all))
					}
					vx.Assert(ok, "whatever is returned is a list of live records older than older_than, newest first, none twice")
					pos = i
				}
				if limit > 0 {
					vx.Assert(len(got) <= limit, "a page holds at most limit entries")
				}
				if len(entries) > 0 {
					vx.Assert(oldest.Equal(entries[len(entries)-1].Time), "the cursor of a non-empty page is the time of its last entry")
				}
			}
		}
	}
	w.checkFiles()
}
