//go:build verif

package client

// C05 (restricted) — lock discipline of the client registry: every access to
// the persistent and runtime client indexes happens with Storage.mu held.
//
//vx:overlay internal/client/zz_vx_c05.go
//vx:entry vxC05Storage reach=guarded-access
//vx:stub (*github.com/AdguardTeam/AdGuardHome/internal/client.upstreamManager).updateCustomUpstreamConfig vxC05UpdCustom
//vx:stub (*github.com/AdguardTeam/AdGuardHome/internal/client.upstreamManager).customUpstreamConfig vxC05Custom
//vx:stub (*github.com/AdguardTeam/AdGuardHome/internal/client.upstreamManager).remove vxC05UpsRemove
//vx:stub github.com/google/uuid.NewRandom vxC05UUID
//vx:opaque (net/netip.Addr).String
//vx:opaque (net/netip.Prefix).String
//vx:note restricted claim (see DESIGN.md C05): a data race on lock-protected state is impossible if every access happens with the owning mutex held; the engine tracks the lock state of the single executing thread and checks every load/store/map operation on the guarded objects (vx.Guard) - interleavings, deadlock across threads, background workers and latency are outside

import (
	"context"
	"log/slog"
	"net/netip"

	"github.com/AdguardTeam/AdGuardHome/internal/filtering"
	"github.com/AdguardTeam/AdGuardHome/internal/vx"
	"github.com/AdguardTeam/AdGuardHome/internal/whois"
	"github.com/AdguardTeam/dnsproxy/proxy"
	"github.com/google/uuid"
)

func vxC05UpdCustom(m *upstreamManager, c *Persistent)                   {}
func vxC05UpsRemove(m *upstreamManager, uid UID) error                   { return nil }
func vxC05Custom(m *upstreamManager, uid UID) *proxy.CustomUpstreamConfig { return nil }

var vxC05UIDs byte

func vxC05UUID() (uuid.UUID, error) {
	vxC05UIDs++
	return uuid.UUID{15: vxC05UIDs}, nil
}


func vxC05NewPersistent(name string, ip netip.Addr, cid string) *Persistent {
	vxC05UIDs++
	p := &Persistent{Name: name, UID: UID(uuid.UUID{15: vxC05UIDs}), BlockedServices: &filtering.BlockedServices{}}
	if ip.IsValid() {
		p.IPs = []netip.Addr{ip}
	}
	if cid != "" {
		p.ClientIDs = []string{cid}
	}
	return p
}



func vxC05Storage() {
	ctx := context.Background()
	ipA := netip.AddrFrom4([4]byte{192, 168, 1, 10})
	ipB := netip.AddrFrom4([4]byte{192, 168, 1, 11})
	s, err := NewStorage(ctx, &StorageConfig{
		Logger:         slog.Default(),
		DHCP:           EmptyDHCP{},
		InitialClients: []*Persistent{vxC05NewPersistent("a", ipA, "cid-a")},
	})
	vx.Assert(err == nil, "storage construction")
	if err != nil {
		return
	}
	vx.Guard(s.index, s.mu, "client.Storage.index (persistent clients)")
	vx.Guard(s.runtimeIndex, s.mu, "client.Storage.runtimeIndex (runtime clients)")
	um := s.upstreamManager
	umConfs := um.uidToCustomConf
	vx.Guard(um, s.mu, "client.Storage.upstreamManager (custom upstream configurations)")
	vx.Guard(umConfs, s.mu, "client.Storage.upstreamManager.uidToCustomConf")

	switch vx.Choice("op", 16) {
	case 0: // request path
		setts := &filtering.Settings{}
		s.ApplyClientFiltering("cid-a", ipA, setts)
	case 1: // request path, by address
		setts := &filtering.Settings{}
		s.ApplyClientFiltering("", ipB, setts)
	case 2:
		s.CustomUpstreamConfig("cid-a", ipA)
	case 3:
		s.Find("192.168.1.10")
	case 4:
		s.FindByName("a")
	case 5:
		s.FindLoose(ipA, "cid-a")
	case 6: // admin path
		_ = s.Add(ctx, vxC05NewPersistent("b", ipB, "cid-b"))
	case 7:
		_ = s.Update(ctx, "a", vxC05NewPersistent("a2", ipB, "cid-a"))
	case 8:
		s.RemoveByName(ctx, "a")
	case 9:
		s.RangeByName(func(c *Persistent) bool { return true })
	case 10:
		s.Size()
	case 11:
		s.ClientRuntime(ipA)
	case 12:
		s.UpdateAddress(ctx, ipB, "host-b", &whois.Info{})
	case 13:
		s.RangeRuntime(func(rc *Runtime) bool { return true })
	case 14:
		s.UpdateDHCP(ctx)
	default: // admin path: POST /control/cache_clear (real upstreamManager.clearUpstreamCache)
		s.ClearUpstreamCache()
	}
	if vx.GuardHits() > 0 {
		vx.Reach("guarded-access")
	}
	vx.Assert(vx.Held(s.mu) == 0, "the registry mutex is released on return")
}
