#!/usr/bin/env python3
"""Regenerates /verif/MANIFEST.json from tools/checks.json (one record per claimed property)."""
import json, os
root = os.path.dirname(os.path.dirname(os.path.abspath(__file__)))
checks = json.load(open(os.path.join(root, 'tools', 'checks.json')))
props = [json.loads(l) for l in open(os.path.join(root, 'properties.jsonl'))]
ids = [p['id'] for p in props]
man = {
 "version": 1,
 "setup_cmd": "make -C /verif build",
 "hooks": {
  "guard": "verif",
  "enable": "no source hooks are needed: harness files (//go:build verif) and the tiny runtime package internal/vx are injected into the package under test through a go/packages overlay at check time; nothing is written into /repo",
  "baseline_off_cmd": "cd /repo && PATH=/root/go/pkg/mod/golang.org/toolchain@v0.0.1-go1.24.2.linux-amd64/bin:$PATH GOTOOLCHAIN=local GOFLAGS=-mod=mod GOPROXY=off GOSUMDB=off go test -vet=off -count=1 -timeout 25m ./...",
  "source_commits": [],
  "add_only": True
 },
 "engines": [{
  "name": "gosymx",
  "path": "/verif/engine",
  "serves_properties": [c['id'] for c in checks['claimed']],
  "kind_free_text": "bounded symbolic (concolic, exhaustive DFS) execution of go/ssa built from /repo's working tree; bit-vector path conditions and assertions decided by z3 4.8.12 (incremental, QF_BV) with a cvc5 --solve-bv-as-int / fresh-z3 portfolio fall-back; interval pre-solver; counterexamples re-executed concretely on the real SSA code"
 }],
 "checks": [],
 "notes": checks.get('notes', ''),
 "not_applicable": []
}
claimed = set()
for c in checks['claimed']:
    claimed.add(c['id'])
    man['checks'].append({
     "property_id": c['id'],
     "quick_cmd": "bin/vchk run %s --tier quick" % c['id'],
     "thorough_cmd": "bin/vchk run %s --tier thorough" % c['id'],
     "evidence_file": "/verif/evidence/%s.json" % c['id'],
     "replay_cmd_template": "bin/vchk replay %s {path}" % c['id'],
     "engine": "gosymx",
     "level_claimed": {"category": "model_checking", "text": c['text'], "design_ref": c.get('design_ref', 'DESIGN.md §4 ' + c['id'])},
     "level_note": c['note'],
     "technique": c.get('technique', "SMT-based bounded symbolic execution of the real Go SSA (z3/cvc5), all inputs within the stated bounds"),
    })
for i in ids:
    if i not in claimed:
        man['not_applicable'].append({"property_id": i, "reason": checks['not_applicable'].get(i, "no check registered yet")})
json.dump(man, open(os.path.join(root, 'MANIFEST.json'), 'w'), indent=1)
print("claimed:", sorted(claimed))
