//go:build verif

package stats

// C05 (restricted) — lock discipline of stats.StatsCtx: curr under currMu;
// ignored, limit, enabled under confMu.
//
//vx:overlay internal/stats/zz_vx_c05.go
//vx:entry vxC05Stats reach=guarded-access
//vx:stub (*github.com/AdguardTeam/AdGuardHome/internal/aghnet.IgnoreEngine).Has vxC05IgnoreHas

import (
	"log/slog"
	"net/netip"
	"sync"
	"time"

	"github.com/AdguardTeam/AdGuardHome/internal/aghnet"
	"github.com/AdguardTeam/AdGuardHome/internal/vx"
	"github.com/miekg/dns"
)

func vxC05IgnoreHas(e *aghnet.IgnoreEngine, host string) bool { return false }

func vxC05Stats() {
	s := &StatsCtx{
		logger:            slog.Default(),
		currMu:            &sync.RWMutex{},
		confMu:            &sync.RWMutex{},
		ignored:           &aghnet.IgnoreEngine{},
		shouldCountClient: func([]string) bool { return true },
		limit:             24 * time.Hour,
		enabled:           true,
		curr:              newUnit(1),
		unitIDGen:         func() uint32 { return 1 },
		configModified:    func() {},
	}
	vx.Guard(&s.curr, s.currMu, "stats.StatsCtx.curr")
	vx.Guard(&s.ignored, s.confMu, "stats.StatsCtx.ignored")
	vx.Guard(&s.limit, s.confMu, "stats.StatsCtx.limit")
	vx.Guard(&s.enabled, s.confMu, "stats.StatsCtx.enabled")

	switch vx.Choice("op", 5) {
	case 0: // request path
		s.ShouldCount("example.org", dns.TypeA, dns.ClassINET, []string{"1.2.3.4"})
	case 1: // request path
		s.Update(&Entry{Domain: "example.org", Client: "1.2.3.4", Result: RNotFiltered, ProcessingTime: time.Millisecond})
	case 2: // admin / API
		c := Config{}
		s.WriteDiskConfig(&c)
	case 3:
		s.TopClientsIP(1)
	default: // hourly worker without a database
		s.flush()
	}
	if vx.GuardHits() > 0 {
		vx.Reach("guarded-access")
	}
	vx.Assert(vx.Held(s.currMu) == 0 && vx.Held(s.confMu) == 0, "locks are released on return")
	_ = netip.Addr{}
}
