//go:build verif

package stats

// C11 — registration helper: runs the real (*StatsCtx).initWeb with the
// registration callback supplied by the home harness.
//
//vx:overlay internal/stats/zz_vx_c11.go

import "github.com/AdguardTeam/AdGuardHome/internal/aghhttp"

// VxC11Register registers the statistics HTTP API through reg.
func VxC11Register(reg aghhttp.RegisterFunc) {
	s := &StatsCtx{httpRegister: reg}
	s.initWeb()
}
