//go:build verif

package querylog

// C08 — the query-log API never returns entries whose name or client is
// currently ignored, and reports anonymised addresses.
//
//vx:overlay internal/querylog/zz_vx_c08.go
//vx:entry vxC08SearchFiles reach=file-returned,file-name-ignored,file-client-ignored,reported-masked-v4,reported-masked-v6,reported-plain
//vx:entry vxC08SearchMemory reach=mem-returned,mem-name-ignored,mem-client-ignored
//vx:stub github.com/AdguardTeam/AdGuardHome/internal/querylog.newQLogReader vxC08NewReader
//vx:stub (*github.com/AdguardTeam/AdGuardHome/internal/querylog.qLogReader).SeekStart vxC08SeekStart
//vx:stub (*github.com/AdguardTeam/AdGuardHome/internal/querylog.qLogReader).ReadNext vxC08ReadNext
//vx:stub (*github.com/AdguardTeam/AdGuardHome/internal/querylog.qLogReader).Close vxC08Close
//vx:stub (*github.com/AdguardTeam/AdGuardHome/internal/querylog.queryLog).decodeLogEntry vxC08Decode
//vx:note the query log is the real queryLog (ShouldLog, Add, ring buffer, search, searchMemory, readNextEntry, entriesToJSON); log files are a harness list of already decoded entries: the file reader (C20) and the JSON line decoder are replaced (newQLogReader, qLogReader.SeekStart/ReadNext/Close, decodeLogEntry)
//vx:note SearchFiles: 1..2 (quick) / 1..3 (thorough) file entries, each with a distinct name (symbolic "currently ignored" bit), v4 / v6 / 4-in-6 stored address with symbolic bytes (first byte tags the entry), optional ClientID, client record none / present with symbolic IgnoreQueryLog found by ClientID or address; anonymisation on/off at the time of the API call
//vx:note both Search entries: the second entry may carry the first entry's client address (two clients, or one client with and without a ClientID, behind one address); the oracle resolves each entry's client independently (ClientID record first, else address record), so a result reused across entries of one search is caught
//vx:note SearchMemory: 1..2 entries recorded through the real ShouldLog+Add while nothing was ignored and anonymisation was off, then the ignore verdict / client flag changes and anonymisation may be switched on, then the API is queried

import (
	"context"
	"io"
	"log/slog"
	"net"
	"time"

	"github.com/AdguardTeam/AdGuardHome/internal/aghnet"
	"github.com/AdguardTeam/AdGuardHome/internal/filtering"
	"github.com/AdguardTeam/AdGuardHome/internal/vx"
	"github.com/AdguardTeam/golibs/timeutil"
	"github.com/miekg/dns"
)

// ---- file model -----------------------------------------------------------

var (
	vxC08File []*logEntry // newest first
	vxC08Pos  int
)

var vxC08Lines = []string{"0", "1", "2", "3"}

func vxC08NewReader(ctx context.Context, logger *slog.Logger, files []string) (*qLogReader, error) {
	return &qLogReader{logger: logger}, nil
}

func vxC08SeekStart(r *qLogReader) error { vxC08Pos = 0; return nil }

func vxC08ReadNext(r *qLogReader) (string, error) {
	if vxC08Pos >= len(vxC08File) {
		return "", io.EOF
	}
	vxC08Pos++
	return vxC08Lines[vxC08Pos-1], nil
}

func vxC08Close(r *qLogReader) error { return nil }

func vxC08Decode(l *queryLog, ctx context.Context, ent *logEntry, str string) {
	for i := range vxC08File {
		if vxC08Lines[i] == str {
			*ent = *vxC08File[i]
		}
	}
}

// ---- helpers for the other packages ------------------------------------------

// VxC08New returns a real, enabled, memory-only query log.
func VxC08New(findClient func(ids []string) (*Client, error), ignored *aghnet.IgnoreEngine, anonymizer *aghnet.IPMut) QueryLog {
	l, err := newQueryLog(Config{
		Logger:      slog.Default(),
		Ignored:     ignored,
		Anonymizer:  anonymizer,
		FindClient:  findClient,
		BaseDir:     "/vx",
		RotationIvl: timeutil.Day,
		MemSize:     8,
		Enabled:     true,
		FileEnabled: false,
	})
	vx.Assert(err == nil, "query log constructed")
	vxC08File, vxC08Pos = nil, 0
	return l
}

// VxC08Rec is what is kept / reported about one query.
type VxC08Rec struct {
	IP       net.IP
	ClientID string
	Host     string
}

// VxC08Stored returns the entries in the memory buffer (what a flush writes to
// disk).
func VxC08Stored(ql QueryLog) (recs []VxC08Rec) {
	l := ql.(*queryLog)
	l.buffer.Range(func(e *logEntry) bool {
		recs = append(recs, VxC08Rec{IP: e.IP, ClientID: e.ClientID, Host: e.QHost})
		return true
	})
	return recs
}

// VxC08Report runs the real API search (first page, no criteria) and the real
// JSON conversion and returns what the API reports.
func VxC08Report(ql QueryLog) (recs []VxC08Rec) {
	l := ql.(*queryLog)
	ctx := context.Background()
	params := newSearchParams()
	var entries []*logEntry
	var oldest time.Time
	func() {
		l.confMu.RLock()
		defer l.confMu.RUnlock()
		entries, oldest = l.search(ctx, params)
	}()
	resp := l.entriesToJSON(ctx, entries, oldest, l.anonymizer.Load())
	data, _ := resp["data"].([]jobject)
	vx.Assert(len(data) == len(entries), "one report item per entry")
	for _, je := range data {
		r := VxC08Rec{}
		r.IP, _ = je["client"].(net.IP)
		r.ClientID, _ = je["client_id"].(string)
		if q, ok := je["question"].(jobject); ok {
			r.Host, _ = q["name"].(string)
		}
		recs = append(recs, r)
	}
	return recs
}

// VxC08Masked reports whether the address has its last 16 (IPv4, 4-in-6
// included) resp. 80 (IPv6) bits zeroed.  The reference is written on the
// bytes, independently of net.IP.To4.
func VxC08Masked(ip []byte) bool {
	switch len(ip) {
	case 4:
		return vx.And(ip[2] == 0, ip[3] == 0)
	case 16:
		pre := ip[0] | ip[1] | ip[2] | ip[3] | ip[4] | ip[5] | ip[6] | ip[7] | ip[8] | ip[9]
		is4in6 := vx.And(pre == 0, vx.And(ip[10] == 0xff, ip[11] == 0xff))
		tail2 := ip[14] | ip[15]
		tail10 := ip[6] | ip[7] | ip[8] | ip[9] | ip[10] | ip[11] | ip[12] | ip[13] | tail2
		// a 4-in-6 address is an IPv4 address: 16 bits; anything else: 80 bits
		return vx.Or(vx.And(is4in6, tail2 == 0), tail10 == 0)
	}
	return false
}

// ---- entries -----------------------------------------------------------------

var vxC08Hosts = []string{"h0.example.org", "h1.example.org", "h2.example.org"}
var vxC08CIDs = []string{"cid0", "cid1", "cid2"}

// vxC08Addr returns a stored address for entry i: form 0 = v4, 1 = v6,
// 2 = 4-in-6.  One byte outside the anonymised tail is the concrete tag 10+i.
func vxC08Addr(i, form int) net.IP {
	switch form {
	case 0:
		b := vx.Bytes("ip4", 4)
		b[0] = byte(10 + i)
		return net.IP(b)
	case 1:
		b := vx.Bytes("ip6", 16)
		b[0] = byte(0x20 + i)
		return net.IP(b)
	default:
		b := make([]byte, 16)
		b[10], b[11] = 0xff, 0xff
		copy(b[12:], vx.Bytes("ip4in6", 4))
		b[12] = byte(10 + i)
		return net.IP(b)
	}
}

// vxC08EntryOf finds which harness entry an address text or ClientID denotes.
func vxC08EntryOf(id string) int {
	for i, c := range vxC08CIDs {
		if c == id {
			return i
		}
	}
	b := aghnet.VxC08TokenBytes(id)
	switch len(b) {
	case 4:
		return int(b[0]) - 10
	case 16:
		if b[0] == 0 {
			return int(b[12]) - 10
		}
		return int(b[0]) - 0x20
	}
	return -1
}

type vxC08World struct {
	n         int
	ignored   []bool // name currently on the ignore list
	hasClient []bool // a persistent client record exists for the entry's client
	byCID     []bool // ... identified by ClientID (else by address)
	ignoring  []bool // ... with ignore_querylog set
	hasCID    []bool
	addrOf    []int // entry whose client address entry i carries (i itself, or 0 when the second entry comes from the first one's address)
	active    bool // verdicts / flags in force (false while recording)
}

func (w *vxC08World) findClient(ids []string) (*Client, error) {
	for _, id := range ids {
		i := vxC08EntryOf(id)
		if i < 0 || i >= w.n || !w.hasClient[i] {
			continue
		}
		isCID := id == vxC08CIDs[i]
		if isCID != w.byCID[i] {
			continue
		}
		return &Client{Name: "client", IgnoreQueryLog: w.active && w.ignoring[i]}, nil
	}
	return nil, nil
}

func (w *vxC08World) verdict(e *aghnet.IgnoreEngine, host string) bool {
	if !w.active {
		return false
	}
	for i := 0; i < w.n; i++ {
		if vxC08Hosts[i] == host {
			return w.ignored[i]
		}
	}
	return false
}

func vxC08NewWorld(n int) *vxC08World {
	w := &vxC08World{n: n}
	for i := 0; i < n; i++ {
		w.ignored = append(w.ignored, vx.Bool("nameIgnoredNow"))
		hasCID := vx.Bool("hasClientID")
		w.hasCID = append(w.hasCID, hasCID)
		w.hasClient = append(w.hasClient, vx.Bool("clientRecord"))
		w.byCID = append(w.byCID, vx.And(hasCID, vx.Bool("recordByClientID")))
		w.ignoring = append(w.ignoring, vx.Bool("clientIgnoreQueryLog"))
		w.addrOf = append(w.addrOf, i)
	}
	if n >= 2 && vx.Bool("secondEntrySharesAddress") {
		w.addrOf[1] = 0
	}
	return w
}

// clientIgnored is the reference: the client of entry i is the persistent
// client found by its ClientID, else the one found by its address (which
// another entry may share); is that client's ignore_querylog flag set.
func (w *vxC08World) clientIgnored(i int) bool {
	a := w.addrOf[i]
	byID := vx.And(w.hasClient[i], w.byCID[i])
	byAddr := vx.And(w.hasClient[a], !w.byCID[a])
	return vx.Or(vx.And(byID, w.ignoring[i]), vx.And(!byID, vx.And(byAddr, w.ignoring[a])))
}

// vxC08CheckReport: nothing that is currently ignored is reported; reported
// addresses are anonymised when anonymisation is on.
func vxC08CheckReport(w *vxC08World, rep []VxC08Rec, anon bool, mem bool) {
	for _, r := range rep {
		i := -1
		for k := 0; k < w.n; k++ {
			if vxC08Hosts[k] == r.Host {
				i = k
			}
		}
		vx.Assert(i >= 0, "a reported entry is one of the stored ones")
		if i < 0 {
			continue
		}
		if mem {
			vx.Known("C08-memory-not-refiltered", vx.Or(w.ignored[i], w.clientIgnored(i)))
		}
		vx.Assert(!w.ignored[i], "the log API does not return an entry whose name is currently ignored")
		vx.Assert(!w.clientIgnored(i), "the log API does not return an entry whose client is currently ignored")
		if mem {
			vx.Reach("mem-returned")
		} else {
			vx.Reach("file-returned")
		}
		if anon {
			vx.Assert(VxC08Masked(r.IP), "anonymisation on: a reported client address has its last 16 / 80 bits zeroed")
			if len(r.IP) == 4 {
				vx.Reach("reported-masked-v4")
			} else {
				vx.Reach("reported-masked-v6")
			}
		} else {
			vx.Reach("reported-plain")
		}
	}
}

func vxC08SearchFiles() {
	aghnet.VxC08Reset()
	max := 2
	if vx.Thorough() {
		max = 3
	}
	n := 1 + vx.Choice("fileEntries", max)
	w := vxC08NewWorld(n)
	w.active = true
	anon := vx.Bool("anonymize")
	anonymizer := aghnet.NewIPMut(nil)
	if anon {
		anonymizer.Store(AnonymizeIP)
	}
	aghnet.VxC08Verdict = w.verdict
	ql := VxC08New(w.findClient, &aghnet.IgnoreEngine{}, anonymizer)
	form := vx.Choice("addrForm", 3)
	var addrs []net.IP
	for i := 0; i < n; i++ {
		// the first entry has any of the three address forms, the next ones the
		// following forms in turn
		addrs = append(addrs, vxC08Addr(i, (form+i)%3))
		e := &logEntry{
			Time:   time.Unix(1_600_000_000-int64(i), 0).UTC(),
			QHost:  vxC08Hosts[i],
			QType:  "A",
			QClass: "IN",
			IP:     addrs[w.addrOf[i]],
		}
		if w.hasCID[i] {
			e.ClientID = vxC08CIDs[i]
		}
		vxC08File = append(vxC08File, e)
		if w.ignored[i] {
			vx.Reach("file-name-ignored")
		} else if w.hasClient[i] && w.ignoring[i] {
			vx.Reach("file-client-ignored")
		}
	}
	rep := VxC08Report(ql)
	vxC08CheckReport(w, rep, anon, false)
}

func vxC08SearchMemory() {
	aghnet.VxC08Reset()
	n := 1 + vx.Choice("memEntries", 2)
	w := vxC08NewWorld(n)
	anonymizer := aghnet.NewIPMut(nil)
	aghnet.VxC08Verdict = w.verdict
	ql := VxC08New(w.findClient, &aghnet.IgnoreEngine{}, anonymizer)
	// recorded while nothing is ignored
	var addrs []net.IP
	for i := 0; i < n; i++ {
		addrs = append(addrs, vxC08Addr(i, 0))
		ip := addrs[w.addrOf[i]]
		ids := []string{ip.String()}
		cid := ""
		if w.hasCID[i] {
			cid = vxC08CIDs[i]
			ids = []string{cid, ids[0]}
		}
		ok := ql.ShouldLog(vxC08Hosts[i], dns.TypeA, dns.ClassINET, ids)
		vx.Assert(ok, "nothing ignored yet: the query is logged")
		q := &dns.Msg{}
		q.Question = []dns.Question{{Name: vxC08Hosts[i] + ".", Qtype: dns.TypeA, Qclass: dns.ClassINET}}
		ql.Add(&AddParams{Question: q, Result: &filtering.Result{}, ClientID: cid, ClientIP: ip})
		aghnet.VxC08Clock++
	}
	vx.Assert(len(VxC08Stored(ql)) == n, "entries are in the memory buffer")
	// the administrator now puts names on the ignore list / marks clients and
	// may switch anonymisation on
	w.active = true
	anon := vx.Bool("anonymizeNow")
	if anon {
		anonymizer.Store(AnonymizeIP)
	}
	for i := 0; i < n; i++ {
		if w.ignored[i] {
			vx.Reach("mem-name-ignored")
		} else if w.hasClient[i] && w.ignoring[i] {
			vx.Reach("mem-client-ignored")
		}
	}
	rep := VxC08Report(ql)
	vxC08CheckReport(w, rep, anon, true)
}
