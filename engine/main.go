package main

import (
	"encoding/json"
	"flag"
	"fmt"
	"os"
	"os/exec"
	"path/filepath"
	"runtime"
	"runtime/debug"
	"runtime/pprof"
	"slices"
	"sort"
	"strconv"
	"strings"
	"time"
)

type KnownFinding struct {
	ID       string `json:"id"`
	Property string `json:"property"`
	Status   string `json:"status"` // "known" | "fixed"
	Commit   string `json:"commit,omitempty"`
	What     string `json:"what"`
}

type EntryResult struct {
	Entry       string            `json:"entry"`
	Paths       int               `json:"paths"`
	Forks       int               `json:"forks"`
	Branches    int               `json:"symbolic_branches"`
	EndReasons  map[string]int    `json:"path_ends"`
	Obligations int               `json:"obligations"`
	ConcreteObl int               `json:"obligations_trivially_concrete"`
	IvObl       int               `json:"obligations_discharged_by_intervals"`
	IvDecided   int               `json:"branches_decided_by_intervals"`
	Queries     map[string]int    `json:"queries"`
	SolverS     float64           `json:"solver_s"`
	WallS       float64           `json:"wall_s"`
	Steps       int64             `json:"ssa_instructions_executed"`
	Reach       map[string]int    `json:"reach"`
	Violations  int               `json:"violations"`
	Known       []string          `json:"known_findings_hit,omitempty"`
	Unknowns    map[string]int    `json:"unknowns,omitempty"`
	Unsupported map[string]int    `json:"unsupported,omitempty"`
	EngineErrs  []string          `json:"engine_errors,omitempty"`
	Samples     []Sample          `json:"samples"`
	Status      string            `json:"status"`
	Opts        map[string]string `json:"bounds,omitempty"`
	funcs       map[string]struct{}
}

func main() {
	// the loaded SSA program is a large, stable heap: collect rarely
	debug.SetGCPercent(300)
	debug.SetMemoryLimit(5 << 30)
	if len(os.Args) < 2 {
		usage()
	}
	switch os.Args[1] {
	case "run":
		os.Exit(cmdRun(os.Args[2:]))
	case "replay":
		os.Exit(cmdReplay(os.Args[2:]))
	case "selftest":
		os.Exit(cmdSelftest(os.Args[2:]))
	case "atomics":
		os.Exit(cmdAtomics(os.Args[2:]))
	default:
		usage()
	}
}

func usage() {
	fmt.Fprintln(os.Stderr, "usage: vchk run <ID> [--tier quick|thorough] [--entry name] [--workers n]\n       vchk replay <ID> <cex.json>")
	os.Exit(2)
}

func loadKnown() []KnownFinding {
	var kf []KnownFinding
	b, err := os.ReadFile(filepath.Join(verifDir(), "known_findings.json"))
	if err != nil {
		return nil
	}
	if err := json.Unmarshal(b, &kf); err != nil {
		fmt.Fprintln(os.Stderr, "known_findings.json:", err)
		os.Exit(2)
	}
	return kf
}

func cmdRun(args []string) int {
	fs := flag.NewFlagSet("run", flag.ExitOnError)
	tier := fs.String("tier", envOr("VERIF_TIER", "quick"), "quick|thorough")
	only := fs.String("entry", "", "run only this entry")
	workers := fs.Int("workers", runtime.NumCPU(), "parallel workers")
	solverK := fs.String("solver", envOr("VX_SOLVER", "z3"), "z3|z3-new|cvc5")
	verbose := fs.Bool("v", false, "verbose")
	noEvidence := fs.Bool("no-evidence", false, "do not write the evidence file")
	maxPaths := fs.Int("max-paths", 0, "path cap (0 = tier default)")
	cpuprof := fs.String("cpuprofile", "", "write a CPU profile")
	if len(args) < 1 {
		usage()
	}
	id := args[0]
	fs.Parse(args[1:])
	if *tier != "quick" && *tier != "thorough" {
		*tier = "quick"
	}
	if *cpuprof != "" {
		f, _ := os.Create(*cpuprof)
		pprof.StartCPUProfile(f)
		defer pprof.StopCPUProfile()
	}
	seed, _ := strconv.Atoi(os.Getenv("VERIF_SEED"))
	start := time.Now()

	h, err := parseHarness(id, filepath.Join(verifDir(), "harness", id))
	if err != nil {
		fmt.Println("INCONCLUSIVE:", err)
		return 2
	}
	cfg := &Config{MaxSteps: 200_000_000, Unwind: 256, Thorough: *tier == "thorough", knownIDs: map[string]bool{}, skipInitPkgs: map[string]bool{}}
	known := loadKnown()
	knownWhat := map[string]string{}
	for _, k := range known {
		if k.Property == id && k.Status == "known" {
			cfg.knownIDs[k.ID] = true
			knownWhat[k.ID] = k.What
		}
	}
	loadStart := time.Now()
	if err := loadProgram(h, cfg); err != nil {
		fmt.Println("INCONCLUSIVE: cannot load /repo with harness:", err)
		writeEvidence(id, *tier, seed, nil, h, cfg, time.Since(start), 0, "inconclusive: load failed: "+err.Error(), *noEvidence)
		return 2
	}
	loadS := time.Since(loadStart).Seconds()
	if *verbose {
		fmt.Fprintf(os.Stderr, "loaded in %.1fs\n", loadS)
	}

	var results []*EntryResult
	status := 0
	knownHit := map[string]bool{}
	outDir := filepath.Join(verifDir(), "out", id)
	os.MkdirAll(outDir, 0o755)
	nviol := 0
	for _, e := range h.Entries {
		if *only != "" && e.Name != *only {
			continue
		}
		if e.Tiers != "both" && e.Tiers != *tier {
			continue
		}
		var ex *Explorer
		var t0 time.Time
		var confirmed []bool
		var details []string
	attempts:
		for attempt := 0; attempt < 2; attempt++ {
			ex = newExplorer(cfg, e.Fn)
			ex.workers = *workers
			ex.solverK = *solverK
			ex.verbose = *verbose
			ex.timeout = 3_000
			ex.maxPaths = 200_000
			budget := 15 * time.Minute
			if cfg.Thorough {
				ex.timeout = 10_000
				ex.maxPaths = 2_000_000
				budget = 90 * time.Minute
			}
			ex.fbTimeout = 150
			if cfg.Thorough {
				ex.fbTimeout = 600
			}
			if v, ok := e.Opts["first_ms"]; ok {
				// short incremental attempt, then the portfolio fall-back
				ex.timeout, _ = strconv.Atoi(v)
			}
			if v, ok := e.Opts["fallback_s"]; ok {
				ex.fbTimeout, _ = strconv.Atoi(v)
			}
			if v, ok := e.Opts["timeout_ms"]; ok {
				ex.timeout, _ = strconv.Atoi(v)
			}
			if v := os.Getenv("VX_FIRST_MS"); v != "" {
				ex.timeout, _ = strconv.Atoi(v)
			}
			if v, ok := e.Opts["budget_s"]; ok {
				n, _ := strconv.Atoi(v)
				budget = time.Duration(n) * time.Second
			}
			if *maxPaths > 0 {
				ex.maxPaths = *maxPaths
			}
			if attempt > 0 {
				// second attempt after solver-undecided queries or an unconfirmed
				// model (both happen under heavy machine load): longer timeouts
				ex.timeout *= 5
				ex.fbTimeout *= 2
			}
			ex.deadline = time.Now().Add(budget)
			t0 = time.Now()
			ex.Run()
			confirmed, details = nil, nil
			anyConfirmed, anyUnconfirmed := false, false
			for _, v := range ex.violations {
				ok, detail := confirmConcrete(cfg, e, v)
				confirmed = append(confirmed, ok)
				details = append(details, detail)
				if ok {
					anyConfirmed = true
				} else {
					anyUnconfirmed = true
				}
			}
			if attempt == 0 && !anyConfirmed && (len(ex.unknowns) > 0 || anyUnconfirmed) && len(ex.unsupported) == 0 {
				fmt.Printf("note: entry %s had %d solver-undecided queries / unconfirmed models; re-running once with longer timeouts\n", e.Name, len(ex.unknowns))
				continue attempts
			}
			break
		}
		r := &EntryResult{Entry: e.Name, Paths: ex.paths, Forks: ex.forks, Branches: ex.branches, EndReasons: ex.endReasons,
			Obligations: ex.obligations, ConcreteObl: ex.concreteObl, IvObl: ex.ivObl, IvDecided: ex.ivDecided,
			Queries: map[string]int{"total": ex.sstats.Queries, "sat": ex.sstats.Sat, "unsat": ex.sstats.Unsat, "unknown": ex.sstats.Unknown, "solver_errors": ex.sstats.Errors, "fallback_calls": ex.fbCalls, "fallback_decided_by_cvc5_bv_as_int": ex.fbCvc5, "fallback_decided_by_fresh_z3": ex.fbZ3, "fallback_models_rejected_by_evaluation": ex.fbBad, "solver_processes_recycled": ex.recycled, "solver_processes_restarted_after_death": ex.revived},
			funcs:   ex.funcs,
			SolverS: ex.sstats.Time.Seconds(), WallS: time.Since(t0).Seconds(), Steps: ex.steps, Reach: ex.reach,
			Violations: len(ex.violations), Unknowns: ex.unknowns, Unsupported: ex.unsupported, EngineErrs: ex.engineErrs, Samples: ex.samples, Opts: e.Opts}
		results = append(results, r)
		if *verbose {
			fmt.Fprintln(os.Stderr, "slowest path:", ex.slowestDesc)
		}
		if len(ex.forkSites) > 0 {
			type kv struct {
				k string
				v int
			}
			var kvs []kv
			for k, v := range ex.forkSites {
				kvs = append(kvs, kv{k, v})
			}
			sort.Slice(kvs, func(i, j int) bool { return kvs[i].v > kvs[j].v })
			for i, e := range kvs {
				if i >= 25 {
					break
				}
				fmt.Fprintf(os.Stderr, "fork %7d  %s\n", e.v, e.k)
			}
		}
		es := 0
		// confirmed violations
		for i, v := range ex.violations {
			path := filepath.Join(outDir, fmt.Sprintf("cex-%s-%d.json", e.Name, i))
			writeJSON(path, map[string]any{"property": id, "tier": *tier, "entry": e.Name, "label": v.Label, "model": v.Model, "var_order": v.VarOrder, "decisions": v.Decisions, "stack": v.Stack, "notes": v.Notes})
			ok, detail := confirmed[i], details[i]
			if ok {
				fmt.Printf("VIOLATION property=%s replay=%s\n", id, path)
				fmt.Printf("  entry=%s label=%q (reproduced by concrete re-execution of the real SSA code)\n", e.Name, v.Label)
				if h.Native && i == 0 {
					nat, _, nerr := nativeReplay(h, cfg, e, path, false)
					switch {
					case nerr != nil:
						fmt.Printf("  native replay: %v\n", nerr)
					case nat:
						fmt.Printf("  native replay: reproduced by `go test` against the natively compiled repository\n")
					default:
						fmt.Printf("  native replay: NOT reproduced natively (stub or encoding difference?)\n")
					}
				}
				printModel(v)
				es = 1
				nviol++
			} else {
				fmt.Printf("UNCONFIRMED: property=%s entry=%s label=%q: solver model did not reproduce concretely (%s); encoding bug in /verif\n", id, e.Name, v.Label, detail)
				if es == 0 {
					es = 2
				}
			}
		}
		for kid, vs := range ex.known {
			knownHit[kid] = true
			r.Known = append(r.Known, kid)
			path := filepath.Join(outDir, fmt.Sprintf("known-%s-%s.json", e.Name, kid))
			v := vs[0]
			writeJSON(path, map[string]any{"property": id, "tier": *tier, "entry": e.Name, "label": v.Label, "known": kid, "model": v.Model, "var_order": v.VarOrder, "decisions": v.Decisions, "stack": v.Stack})
		}
		sort.Strings(r.Known)
		if es == 0 {
			var why []string
			if len(ex.unknowns) > 0 {
				why = append(why, fmt.Sprintf("%d solver-undecided queries", len(ex.unknowns)))
			}
			if len(ex.unsupported) > 0 {
				why = append(why, "unsupported operations reached: "+firstKeys(ex.unsupported, 3))
			}
			if len(ex.engineErrs) > 0 {
				why = append(why, "engine: "+strings.Join(firstN(ex.engineErrs, 2), "; "))
			}
			if ex.sstats.Errors > 0 {
				why = append(why, "solver printed (error lines: "+ex.sstats.FirstError)
			}
			for _, lbl := range reachFor(h, e) {
				if ex.reach[lbl] == 0 {
					why = append(why, "vacuity guard: marker '"+lbl+"' never reached")
				}
			}
			for name := range cfg.stubs {
				if ex.stubHits[name] == 0 && e.Opts["stubs"] != "optional" {
					// a stub that is never hit on any entry is checked globally below
				}
			}
			if len(why) > 0 {
				es = 2
				fmt.Printf("INCONCLUSIVE property=%s entry=%s: %s\n", id, e.Name, strings.Join(why, "; "))
			}
		}
		switch es {
		case 0:
			r.Status = "held"
		case 1:
			r.Status = "violation"
		default:
			r.Status = "inconclusive"
		}
		fmt.Printf("entry %-28s %-12s paths=%d queries=%d (sat %d unsat %d unknown %d) obligations=%d solver=%.1fs wall=%.1fs\n",
			e.Name, r.Status, r.Paths, ex.sstats.Queries, ex.sstats.Sat, ex.sstats.Unsat, ex.sstats.Unknown, r.Obligations, r.SolverS, r.WallS)
		if es == 1 || (es == 2 && status == 0) {
			status = es
		}
		_ = loadS
	}
	scans, scanViol, scanGaps := runScans(h, cfg)
	scanResults = scans
	for _, g := range scanGaps {
		fmt.Printf("INCONCLUSIVE property=%s coverage gap: %s\n", id, g)
		if status == 0 {
			status = 2
		}
	}
	for _, v := range scanViol {
		p := filepath.Join(outDir, "scan-violation.json")
		writeJSON(p, map[string]any{"property": id, "label": v})
		fmt.Printf("VIOLATION property=%s replay=%s\n  %s\n", id, p, v)
		status = 1
		nviol++
	}
	for kid := range knownHit {
		fmt.Printf("KNOWN-FINDING: property=%s %s: %s\n", id, kid, knownWhat[kid])
	}
	for kid := range cfg.knownIDs {
		if !knownHit[kid] {
			fmt.Printf("note: known finding %s did not reproduce in this run\n", kid)
		}
	}
	if len(results) == 0 {
		fmt.Println("INCONCLUSIVE: no entries ran")
		status = 2
	}
	st := "held"
	if status == 1 {
		st = "violation"
	} else if status == 2 {
		st = "inconclusive"
	}
	validated := 0
	if h.Native && status != 1 && *only == "" {
		per := 2
		if cfg.Thorough {
			per = 5
		}
		agree, total := selftest(id, per, false)
		validated = agree
		fmt.Printf("translator validation: %d/%d sampled models give the same observable values in the interpreter and in the natively compiled harness\n", agree, total)
		if agree != total && cfg.Thorough && status == 0 {
			fmt.Println("INCONCLUSIVE: interpreter and native build disagree on a sampled model (run `bin/vchk selftest " + id + "`)")
			status, st = 2, "inconclusive"
		}
	}
	tracesValidated = validated
	writeEvidence(id, *tier, seed, results, h, cfg, time.Since(start), nviol, st, *noEvidence)
	return status
}

var tracesValidated int
var scanResults []scanResult

func reachFor(h *Harness, e *EntrySpec) []string {
	if v, ok := e.Opts["reach"]; ok {
		return strings.Split(v, ",")
	}
	return nil
}

func firstKeys(m map[string]int, n int) string {
	var ks []string
	for k := range m {
		ks = append(ks, k)
	}
	sort.Strings(ks)
	if len(ks) > n {
		ks = ks[:n]
	}
	return strings.Join(ks, " | ")
}

func printModel(v *Violation) {
	n := 0
	for _, name := range v.VarOrder {
		if n >= 40 {
			fmt.Println("    …")
			break
		}
		fmt.Printf("    %s = %d\n", name, v.Model[name])
		n++
	}
	for i, s := range v.Stack {
		if i > 6 {
			break
		}
		fmt.Println("    at", s)
	}
}

// confirmConcrete re-executes the entry with all nondeterministic values
// fixed to the model (no solver) and reports whether the same label fails.
func confirmConcrete(cfg *Config, e *EntrySpec, v *Violation) (bool, string) {
	ex := newExplorer(cfg, e.Fn)
	ex.maxViol = 1
	ex.runPath(nil, WorkItem{model: v.Model})
	if len(ex.violations) > 0 {
		if ex.violations[0].Label == v.Label || strings.HasPrefix(v.Label, "uncaught panic") && strings.HasPrefix(ex.violations[0].Label, "uncaught panic") {
			return true, ""
		}
		return true, "different label: " + ex.violations[0].Label
	}
	for _, ks := range ex.known {
		if len(ks) > 0 {
			return false, "hit known finding instead"
		}
	}
	return false, fmt.Sprintf("ended %v %v %v", ex.endReasons, ex.unsupported, ex.engineErrs)
}

func cmdReplay(args []string) int {
	if len(args) < 2 {
		usage()
	}
	id, file := args[0], args[1]
	b, err := os.ReadFile(file)
	if err != nil {
		fmt.Println(err)
		return 2
	}
	var cex struct {
		Entry string            `json:"entry"`
		Label string            `json:"label"`
		Tier  string            `json:"tier"`
		Model map[string]uint64 `json:"model"`
	}
	if err := json.Unmarshal(b, &cex); err != nil {
		fmt.Println(err)
		return 2
	}
	h, err := parseHarness(id, filepath.Join(verifDir(), "harness", id))
	if err != nil {
		fmt.Println(err)
		return 2
	}
	cfg := &Config{MaxSteps: 200_000_000, Unwind: 256, knownIDs: map[string]bool{}, skipInitPkgs: map[string]bool{}}
	// the counterexample records the tier it was found in (harness bounds differ)
	cfg.Thorough = cex.Tier == "thorough"
	for _, a := range args[2:] {
		if a == "--thorough" {
			cfg.Thorough = true
		}
	}
	if err := loadProgram(h, cfg); err != nil {
		fmt.Println("cannot load:", err)
		return 2
	}
	for _, e := range h.Entries {
		if e.Name != cex.Entry {
			continue
		}
		ok, detail := confirmConcrete(cfg, e, &Violation{Label: cex.Label, Model: cex.Model})
		if slices.Contains(args[2:], "--native") {
			nat, out, nerr := nativeReplay(h, cfg, e, file, os.Getenv("VX_KEEP") != "")
			fmt.Printf("native replay: reproduced=%v err=%v\n", nat, nerr)
			if true {
				lines := strings.Split(out, "\n")
				if len(lines) > 40 {
					lines = lines[len(lines)-40:]
				}
				fmt.Println(strings.Join(lines, "\n"))
			}
		}
		if ok {
			fmt.Printf("VIOLATION property=%s replay=%s\n  reproduced: %s %s\n", id, file, cex.Label, detail)
			return 1
		}
		fmt.Println("not reproduced:", detail)
		return 0
	}
	fmt.Println("entry not found:", cex.Entry)
	return 2
}

func envOr(k, d string) string {
	if v := os.Getenv(k); v != "" {
		return v
	}
	return d
}

func writeJSON(path string, v any) {
	b, _ := json.MarshalIndent(v, "", " ")
	os.WriteFile(path, b, 0o644)
}

func writeEvidence(id, tier string, seed int, results []*EntryResult, h *Harness, cfg *Config, wall time.Duration, nviol int, status string, skip bool) {
	if skip {
		return
	}
	states, trans, obl, disch := 0, 0, 0, 0
	q := map[string]int{}
	solverS := 0.0
	funcs := map[string]struct{}{}
	var samples []any
	var steps int64
	for _, r := range results {
		states += r.Paths
		trans += r.Branches
		obl += r.Obligations
		for k, v := range r.Queries {
			q[k] += v
		}
		solverS += r.SolverS
		steps += r.Steps
		for i, s := range r.Samples {
			if i < 3 {
				samples = append(samples, map[string]any{"entry": r.Entry, "path": s})
			}
		}
		if r.Status == "held" {
			disch += r.Obligations
		}
		for f := range r.funcs {
			funcs[f] = struct{}{}
		}
	}
	// functions of the repository under test whose SSA was executed
	// symbolically (harness functions excluded), and how many functions of
	// dependencies and the standard library were executed with them
	var repoFuncs []string
	otherFuncs := 0
	for f := range funcs {
		if strings.Contains(f, repoMod+"/") && !strings.Contains(f, "/internal/vx.") {
			name := f[strings.LastIndex(f, "/")+1:]
			if strings.Contains(name, ".vx") || strings.Contains(name, ".Vx") {
				continue
			}
			repoFuncs = append(repoFuncs, strings.ReplaceAll(f, repoMod+"/", ""))
		} else {
			otherFuncs++
		}
	}
	sort.Strings(repoFuncs)
	if len(samples) == 0 {
		samples = append(samples, map[string]any{"note": "no path completed: " + status})
	}
	if states == 0 {
		states = 1
	}
	if trans == 0 {
		trans = 1
	}
	var stubs []string
	if cfg != nil {
		stubs = append(stubs, cfg.stubNames...)
		sort.Strings(stubs)
	}
	var entryFuncs []string
	for _, e := range h.Entries {
		entryFuncs = append(entryFuncs, e.Name)
	}
	ev := map[string]any{
		"property_id": id,
		"tier":        tier,
		"seed":        seed,
		"level":       "model_checking",
		"wall_s":      wall.Seconds(),
		"violations":  nviol,
		"coverage": map[string]any{
			"states":                         states,
			"transitions":                    trans,
			"traces_validated_against_impl":  tracesValidated,
			"samples":                        samples,
			"status":                         status,
			"repo_revision":                  repoRevision(),
			"functions_encoded":              repoFuncs,
			"functions_encoded_dependencies": otherFuncs,
			"technique":                      "bounded symbolic execution of go/ssa from /repo's working tree; every path condition and assertion decided by z3 (QF_BV); states = feasible paths, transitions = symbolic branch decisions",
			"entries":                        results,
			"obligations":                    obl,
			"discharged":                     disch,
			"queries":                        q,
			"solver_s":                       solverS,
			"ssa_instructions_executed":      steps,
			"stubs":                          stubs,
			"harness_notes":                  h.Notes,
			"closed_world_scans":             scanResults,
			"exhaustive":                     status == "held",
		},
		"assumptions": append([]string{
			"environment stubs listed under coverage.stubs return arbitrary values within their contract",
			"heap shape, slice/string lengths and map sizes are concrete per path (forked by the harness); scalars are 8..64-bit bit-vectors with Go wrap-around semantics",
			"engine intrinsics: sync (lock state tracked), sync/atomic (sequential), fmt/log (formatting not interpreted), internal/bytealg, strings.Builder, errors.Is/As, unique.Make",
		}, h.Notes...),
	}
	dir := filepath.Join(verifDir(), "evidence")
	os.MkdirAll(dir, 0o755)
	writeJSON(filepath.Join(dir, id+".json"), ev)
	// per-tier copy (the main file is rewritten by whichever tier ran last)
	tdir := filepath.Join(verifDir(), "evidence_tiers", tier)
	os.MkdirAll(tdir, 0o755)
	writeJSON(filepath.Join(tdir, id+".json"), ev)
}

// cmdSelftest validates the translator: sample models of completed paths are
// run (a) concretely through the interpreter and (b) natively (go test with
// the same stubs); the observable values recorded with vx.Note and the set of
// violated assertions must agree.
func cmdSelftest(args []string) int {
	if len(args) < 1 {
		usage()
	}
	id := args[0]
	n := 8
	if len(args) > 1 {
		n, _ = strconv.Atoi(args[1])
	}
	agree, total := selftest(id, n, true)
	fmt.Printf("selftest %s: %d/%d sampled models agree between the interpreter and the native build\n", id, agree, total)
	if agree != total {
		return 2
	}
	return 0
}

func selftest(id string, perEntry int, verbose bool) (agree, total int) {
	h, err := parseHarness(id, filepath.Join(verifDir(), "harness", id))
	if err != nil || (!h.Native && os.Getenv("VX_FORCE_NATIVE") == "") {
		return 0, 0
	}
	cfg := &Config{MaxSteps: 200_000_000, Unwind: 256, knownIDs: map[string]bool{}, skipInitPkgs: map[string]bool{}}
	if err := loadProgram(h, cfg); err != nil {
		fmt.Println("selftest: cannot load:", err)
		return 0, 0
	}
	dir := filepath.Join(verifDir(), ".work")
	os.MkdirAll(dir, 0o755)
	for _, e := range h.Entries {
		if e.Tiers == "thorough" {
			continue
		}
		ex := newExplorer(cfg, e.Fn)
		ex.workers = 4
		ex.solverK = "z3"
		ex.timeout = 3000
		ex.fbTimeout = 30
		ex.maxPaths = 400
		ex.collect = perEntry
		ex.stride = 400 / (perEntry + 1)
		ex.deadline = time.Now().Add(2 * time.Minute)
		ex.Run()
		// evenly spaced sample of the completed paths
		models := ex.models
		if len(models) > perEntry {
			var pick []map[string]uint64
			for k := 0; k < perEntry; k++ {
				pick = append(pick, models[k*len(models)/perEntry])
			}
			models = pick
		}
		for i, m := range models {
			total++
			// (a) interpreter, concrete
			cx := newExplorer(cfg, e.Fn)
			cx.maxViol = 1
			cx.runPath(nil, WorkItem{model: m})
			engNotes := strings.Join(cx.lastNotes, "|")
			engViol := len(cx.violations) > 0
			// (b) native
			mf := filepath.Join(dir, fmt.Sprintf("selftest-%s-%s-%d.json", id, e.Name, i))
			writeJSON(mf, map[string]any{"entry": e.Name, "model": m})
			natViol, out, nerr := nativeReplay(h, cfg, e, mf, false)
			os.Remove(mf)
			if nerr != nil {
				if verbose {
					nl := 15
					if os.Getenv("VX_SELFTEST_DEBUG") != "" {
						nl = 400
					}
					fmt.Printf("  %s #%d: native run failed: %v\n%s\n", e.Name, i, nerr, lastLines(out, nl))
				}
				continue
			}
			var nn []string
			for _, l := range strings.Split(out, "\n") {
				if k := strings.Index(l, "VXNOTE: "); k >= 0 {
					nn = append(nn, l[k+len("VXNOTE: "):])
				}
			}
			natNotes := strings.Join(nn, "|")
			if natNotes == engNotes && natViol == engViol {
				agree++
			} else if verbose {
				fmt.Printf("  %s #%d DISAGREE: interpreter notes=[%s] viol=%v ; native notes=[%s] viol=%v\n", e.Name, i, engNotes, engViol, natNotes, natViol)
				if os.Getenv("VX_SELFTEST_DEBUG") != "" {
					fmt.Println(lastLines(out, 25))
					fmt.Println("model:", m)
				}
			}
		}
	}
	return agree, total
}

func lastLines(s string, n int) string {
	l := strings.Split(s, "\n")
	if len(l) > n {
		l = l[len(l)-n:]
	}
	return strings.Join(l, "\n")
}

// repoRevision names the tree the encoding was generated from: HEAD of the
// repository under test plus whether the working tree differs from it.
func repoRevision() string {
	out, err := exec.Command("git", "-C", repoDir, "rev-parse", "--short", "HEAD").Output()
	if err != nil {
		return "unknown"
	}
	rev := strings.TrimSpace(string(out))
	st, _ := exec.Command("git", "-C", repoDir, "status", "--porcelain", "--untracked-files=no").Output()
	if len(strings.TrimSpace(string(st))) > 0 {
		rev += "+modified-working-tree"
	}
	return repoDir + "@" + rev
}
