package main

// A persistent SMT solver process (z3 -in by default) spoken to in SMT-LIB2.

import (
	"bufio"
	"fmt"
	"io"
	"os"
	"os/exec"
	"path/filepath"
	"strconv"
	"strings"
	"time"
)

type SolverStats struct {
	Queries, Sat, Unsat, Unknown int
	Errors                       int
	FirstError                   string
	Time                         time.Duration
}

type Solver struct {
	cmd     *exec.Cmd
	in      io.WriteCloser
	out     *bufio.Reader
	buf     strings.Builder
	session uint32
	stats   SolverStats
	log     *os.File
	kind    string
	timeout int // ms
	dead    bool
	lastSat bool

	// portfolio fall-back for queries the incremental solver cannot decide
	pathText  strings.Builder // everything asserted on the current path
	vars      *[]*Term
	fbTimeout int // seconds; 0 = no fall-back
	fbModel   map[string]uint64
	fbStats   struct{ Calls, ByCvc5Int, ByZ3, BadModels int }
	asserted  []*Term // terms asserted on the current path
	evalVer   uint32
	tmpDir    string
	recycled  int
	revived   int
	lastExtra []*Term
}

func solverArgv(kind string, timeoutMs int) []string {
	switch kind {
	case "z3-new":
		return []string{"z3-new", "-in"}
	case "cvc5":
		return []string{"cvc5", "--incremental", "--lang=smt2", "--produce-models", fmt.Sprintf("--tlimit-per=%d", timeoutMs)}
	default:
		return []string{"z3", "-in"}
	}
}

func NewSolver(kind string, timeoutMs int, logPath string) (*Solver, error) {
	s := &Solver{kind: kind, timeout: timeoutMs}
	if err := s.spawn(); err != nil {
		return nil, err
	}
	if logPath != "" {
		s.log, _ = os.Create(logPath)
	}
	return s, nil
}

// spawn starts the solver process and sends the prologue.
func (s *Solver) spawn() error {
	argv := solverArgv(s.kind, s.timeout)
	cmd := exec.Command(argv[0], argv[1:]...)
	in, err := cmd.StdinPipe()
	if err != nil {
		return err
	}
	out, err := cmd.StdoutPipe()
	if err != nil {
		return err
	}
	cmd.Stderr = os.Stderr
	if err := cmd.Start(); err != nil {
		return err
	}
	s.cmd, s.in, s.out = cmd, in, bufio.NewReaderSize(out, 1<<16)
	s.raw("(set-option :print-success false)\n")
	if s.kind != "cvc5" {
		s.raw(fmt.Sprintf("(set-option :timeout %d)\n", s.timeout))
	}
	s.raw("(set-option :produce-models true)\n")
	s.raw("(set-logic QF_BV)\n")
	return nil
}

// rssKB returns the resident set size of the solver process.
func (s *Solver) rssKB() int {
	b, err := os.ReadFile(fmt.Sprintf("/proc/%d/statm", s.cmd.Process.Pid))
	if err != nil {
		return 0
	}
	f := strings.Fields(string(b))
	if len(f) < 2 {
		return 0
	}
	n := 0
	fmt.Sscanf(f[1], "%d", &n)
	return n * (os.Getpagesize() / 1024)
}

// Recycle replaces the solver process by a fresh one when it has grown beyond
// limitKB (incremental z3 keeps memory across push/pop scopes).  Only valid
// between paths (no open scope).
func (s *Solver) Recycle(limitKB int) {
	if s.dead || s.rssKB() < limitKB {
		return
	}
	s.flush()
	s.in.Close()
	s.cmd.Process.Kill()
	s.cmd.Wait()
	s.buf.Reset()
	if err := s.spawn(); err != nil {
		s.dead = true
		return
	}
	s.recycled++
}

func (s *Solver) raw(txt string) {
	s.buf.WriteString(txt)
}

func (s *Solver) flush() {
	if s.buf.Len() == 0 {
		return
	}
	txt := s.buf.String()
	s.buf.Reset()
	if s.log != nil {
		s.log.WriteString(txt)
	}
	if _, err := io.WriteString(s.in, txt); err != nil {
		s.dead = true
	}
}

func (s *Solver) Close() {
	s.raw("(exit)\n")
	s.flush()
	s.in.Close()
	done := make(chan struct{})
	go func() { s.cmd.Wait(); close(done) }()
	select {
	case <-done:
	case <-time.After(2 * time.Second):
		s.cmd.Process.Kill()
	}
	if s.log != nil {
		s.log.Close()
	}
	if s.tmpDir != "" {
		os.RemoveAll(s.tmpDir)
	}
}

// BeginPath opens a fresh scope for one path.
func (s *Solver) BeginPath() uint32 {
	s.session++
	s.raw("(push 1)\n")
	s.pathText.Reset()
	s.asserted = s.asserted[:0]
	return s.session
}

func (s *Solver) perm(txt string) {
	s.buf.WriteString(txt)
	s.pathText.WriteString(txt)
}

func (s *Solver) EndPath() {
	s.raw("(pop 1)\n")
	s.flush()
}

func (s *Solver) Declare(t *Term) {
	s.perm(fmt.Sprintf("(declare-const %s %s)\n", quoteName(t.name), sortOf(t.w)))
}

func (s *Solver) emitPerm(t *Term) {
	var sb strings.Builder
	t.emit(&sb, s.session)
	if sb.Len() > 0 {
		s.perm(sb.String())
	}
}

// modelSatisfies evaluates every assertion of the path and the extra terms
// under the values m with the engine's own evaluator.
func (s *Solver) modelSatisfies(m map[string]uint64, extra []*Term) bool {
	if s.evalVer < 1<<30 {
		s.evalVer = 1 << 30
	}
	s.evalVer++
	mod := &Model{ver: s.evalVer, vals: m}
	for _, t := range s.asserted {
		if t.Eval(mod) == 0 {
			return false
		}
	}
	for _, t := range extra {
		if t.Eval(mod) == 0 {
			return false
		}
	}
	return true
}

func (s *Solver) Assert(t *Term) {
	s.asserted = append(s.asserted, t)
	s.emitPerm(t)
	s.perm("(assert " + t.ref() + ")\n")
}

func (s *Solver) readLine() string {
	line, err := s.out.ReadString('\n')
	if err != nil {
		s.dead = true
		return ""
	}
	return strings.TrimSpace(line)
}

// Check decides sat(current assertions ∧ extra...).  Returns "sat", "unsat" or "unknown".
func (s *Solver) Check(extra ...*Term) string {
	for _, t := range extra {
		s.emitPerm(t)
	}
	s.fbModel = nil
	s.raw("(push 1)\n")
	for _, t := range extra {
		s.raw("(assert " + t.ref() + ")\n")
	}
	s.raw("(check-sat)\n")
	start := time.Now()
	s.flush()
	res := s.readResult()
	s.lastExtra = extra
	if s.dead && s.revive() {
		res = s.reissue()
	}
	if res != "sat" && res != "unsat" && s.fbTimeout > 0 && !s.dead {
		res = s.fallback(extra)
	}
	s.stats.Time += time.Since(start)
	s.stats.Queries++
	if s.log != nil {
		fmt.Fprintf(s.log, "; -> %s in %.3fs\n", res, time.Since(start).Seconds())
	}
	switch res {
	case "sat":
		s.stats.Sat++
	case "unsat":
		s.stats.Unsat++
	default:
		s.stats.Unknown++
		res = "unknown"
	}
	s.lastSat = res == "sat"
	return res
}

// revive replaces a solver process that died (typically killed by the kernel
// under memory pressure) and replays the current path's assertions into the
// new one.
func (s *Solver) revive() bool {
	if s.revived >= 8 {
		return false
	}
	s.revived++
	fmt.Fprintln(os.Stderr, "solver: process died; restarting it and replaying the path")
	s.in.Close()
	s.cmd.Process.Kill()
	s.cmd.Wait()
	s.buf.Reset()
	if err := s.spawn(); err != nil {
		return false
	}
	s.dead = false
	s.raw("(push 1)\n")
	s.raw(s.pathText.String())
	return true
}

// reviveIdle replaces a dead solver process between paths.
func (s *Solver) reviveIdle() bool {
	if s.revived >= 8 {
		return false
	}
	s.revived++
	s.in.Close()
	s.cmd.Process.Kill()
	s.cmd.Wait()
	s.buf.Reset()
	if err := s.spawn(); err != nil {
		return false
	}
	s.dead = false
	return true
}

// reissue repeats the last Check on a revived process.
func (s *Solver) reissue() string {
	s.raw("(push 1)\n")
	for _, t := range s.lastExtra {
		s.raw("(assert " + t.ref() + ")\n")
	}
	s.raw("(check-sat)\n")
	s.flush()
	return s.readResult()
}

// PopCheck closes the scope opened by Check (call after optional GetModel).
func (s *Solver) PopCheck() {
	s.raw("(pop 1)\n")
}

func (s *Solver) readResult() string {
	for {
		line := s.readLine()
		if line == "" {
			if s.dead {
				return "unknown"
			}
			continue
		}
		if strings.HasPrefix(line, "(error") && strings.Contains(line, "canceled") {
			// z3 reports a query cut off by the timeout this way: an unknown
			continue
		}
		if strings.HasPrefix(line, "(error") {
			s.stats.Errors++
			if s.stats.FirstError == "" {
				s.stats.FirstError = line
			}
			fmt.Fprintln(os.Stderr, "solver:", line)
			if s.dead {
				return "unknown"
			}
			continue
		}
		if line == "sat" || line == "unsat" || line == "unknown" || line == "timeout" {
			return line
		}
		if strings.HasPrefix(line, "unsupported") || strings.HasPrefix(line, ";") {
			continue
		}
		fmt.Fprintln(os.Stderr, "solver: unexpected output:", line)
	}
}

// GetModel fetches values for the given variables; must be called after a sat
// Check and before PopCheck.
func (s *Solver) GetModel(vars []*Term) map[string]uint64 {
	if s.fbModel != nil {
		return s.fbModel
	}
	res := map[string]uint64{}
	if len(vars) == 0 {
		return res
	}
	s.raw("(get-value (")
	for _, v := range vars {
		s.raw(quoteName(v.name) + " ")
	}
	s.raw("))\n")
	s.flush()
	// read a balanced s-expression
	var sb strings.Builder
	depth := 0
	started := false
	inBar := false
	retried := false
	for {
		line, err := s.out.ReadString('\n')
		if err != nil {
			s.dead = true
			if !retried && s.revive() && s.reissue() == "sat" {
				retried = true
				sb.Reset()
				depth, started, inBar = 0, false, false
				s.raw("(get-value (")
				for _, v := range vars {
					s.raw(quoteName(v.name) + " ")
				}
				s.raw("))\n")
				s.flush()
				continue
			}
			return res
		}
		if !started && strings.HasPrefix(strings.TrimSpace(line), "(error") {
			s.stats.Errors++
			fmt.Fprintln(os.Stderr, "solver:", strings.TrimSpace(line))
			return res
		}
		for _, ch := range line {
			if ch == '|' {
				inBar = !inBar
			}
			if inBar {
				continue
			}
			if ch == '(' {
				depth++
				started = true
			} else if ch == ')' {
				depth--
			}
		}
		sb.WriteString(line)
		if started && depth == 0 {
			break
		}
	}
	parseValues(sb.String(), res)
	return res
}

// parseValues reads ((|v:name| #x..) (|v:name| true) ...) into res.
func parseValues(txt string, res map[string]uint64) {
	i := 0
	n := len(txt)
	for i < n {
		j := strings.IndexByte(txt[i:], '|')
		if j < 0 {
			break
		}
		j += i
		k := strings.IndexByte(txt[j+1:], '|')
		if k < 0 {
			break
		}
		k += j + 1
		name := strings.TrimPrefix(txt[j+1:k], "v:")
		// value follows until ')' at depth 0 relative
		rest := txt[k+1:]
		rest = strings.TrimLeft(rest, " \n\t")
		var val uint64
		adv := 0
		switch {
		case strings.HasPrefix(rest, "#x"):
			e := 2
			for e < len(rest) && isHex(rest[e]) {
				e++
			}
			val, _ = strconv.ParseUint(rest[2:e], 16, 64)
			adv = e
		case strings.HasPrefix(rest, "#b"):
			e := 2
			for e < len(rest) && (rest[e] == '0' || rest[e] == '1') {
				e++
			}
			val, _ = strconv.ParseUint(rest[2:e], 2, 64)
			adv = e
		case strings.HasPrefix(rest, "true"):
			val = 1
			adv = 4
		case strings.HasPrefix(rest, "false"):
			val = 0
			adv = 5
		case strings.HasPrefix(rest, "(_ bv"):
			e := 5
			for e < len(rest) && rest[e] >= '0' && rest[e] <= '9' {
				e++
			}
			val, _ = strconv.ParseUint(rest[5:e], 10, 64)
			adv = e
		}
		res[name] = val
		i = k + 1 + adv
	}
}

// fallback decides the current path condition plus extra with one-shot
// solver runs: cvc5 with the integer encoding of bit-vectors (exact, keeps
// the mod-2^k semantics) and a fresh z3, in parallel; first verdict wins.
func (s *Solver) fallback(extra []*Term) string {
	s.fbStats.Calls++
	var q strings.Builder
	q.WriteString("(set-option :produce-models true)\n(set-logic QF_BV)\n")
	q.WriteString(s.pathText.String())
	for _, t := range extra {
		q.WriteString("(assert " + t.ref() + ")\n")
	}
	q.WriteString("(check-sat)\n")
	if s.vars != nil && len(*s.vars) > 0 {
		q.WriteString("(get-value (")
		for _, v := range *s.vars {
			q.WriteString(quoteName(v.name) + " ")
		}
		q.WriteString("))\n")
	}
	if s.tmpDir == "" {
		work := filepath.Join(verifDir(), ".work")
		os.MkdirAll(work, 0o755)
		d, err := os.MkdirTemp(work, "fb-")
		if err != nil {
			return "unknown"
		}
		s.tmpDir = d
	}
	file := fmt.Sprintf("%s/q%d.smt2", s.tmpDir, s.fbStats.Calls)
	if err := os.WriteFile(file, []byte(q.String()), 0o644); err != nil {
		return "unknown"
	}
	defer os.Remove(file)
	type answer struct {
		who, res string
		out      string
	}
	ch := make(chan answer, 2)
	run := func(who string, argv ...string) *exec.Cmd {
		cmd := exec.Command(argv[0], argv[1:]...)
		go func() {
			out, _ := cmd.Output()
			txt := string(out)
			first, _, _ := strings.Cut(strings.TrimSpace(txt), "\n")
			first = strings.TrimSpace(first)
			if first != "sat" && first != "unsat" {
				first = "unknown"
			}
			ch <- answer{who, first, txt}
		}()
		return cmd
	}
	c1 := run("cvc5int", "cvc5", "--solve-bv-as-int=sum", "--produce-models", fmt.Sprintf("--tlimit=%d", s.fbTimeout*1000), file)
	c2 := run("z3", "z3", fmt.Sprintf("-T:%d", s.fbTimeout), file)
	res := "unknown"
	if os.Getenv("VX_FB_DIFF") != "" {
		// differential mode: wait for both back ends and compare the verdicts
		a1, a2 := <-ch, <-ch
		if a1.res != "unknown" && a2.res != "unknown" && a1.res != a2.res {
			keep := file + ".disagree"
			os.WriteFile(keep, []byte(q.String()), 0o644)
			fmt.Fprintf(os.Stderr, "FALLBACK-DISAGREE %s=%s %s=%s file=%s\n", a1.who, a1.res, a2.who, a2.res, keep)
			s.stats.Errors++
			if s.stats.FirstError == "" {
				s.stats.FirstError = "fall-back solvers disagree: " + keep
			}
			return "unknown"
		}
		fmt.Fprintf(os.Stderr, "FALLBACK-DIFF %s=%s %s=%s\n", a1.who, a1.res, a2.who, a2.res)
		ch <- a1
		ch <- a2
	}
	for i := 0; i < 2; i++ {
		a := <-ch
		if a.res == "sat" || a.res == "unsat" {
			res = a.res
			if a.who == "cvc5int" {
				s.fbStats.ByCvc5Int++
			} else {
				s.fbStats.ByZ3++
			}
			if a.res == "sat" {
				m := map[string]uint64{}
				if j := strings.Index(a.out, "("); j >= 0 {
					parseValues(a.out[j:], m)
				}
				if !s.modelSatisfies(m, extra) {
					// a back end answered sat with values that do not satisfy the
					// path condition under the engine's own evaluator: not trusted
					s.fbStats.BadModels++
					fmt.Fprintf(os.Stderr, "solver: fall-back model of %s rejected by evaluation\n", a.who)
					res = "unknown"
					if a.who == "cvc5int" {
						s.fbStats.ByCvc5Int--
					} else {
						s.fbStats.ByZ3--
					}
					continue
				}
				s.fbModel = m
			}
			break
		}
	}
	for _, c := range []*exec.Cmd{c1, c2} {
		if c.Process != nil {
			c.Process.Kill()
		}
	}
	return res
}

func isHex(c byte) bool {
	return c >= '0' && c <= '9' || c >= 'a' && c <= 'f' || c >= 'A' && c <= 'F'
}
