//go:build verif

package filtering

// C01/C02 helper in package filtering: builds a DNSFilter through the real
// New() with symbolic rule-engine verdicts.
//
//vx:overlay internal/filtering/zz_vx_c01f.go
//vx:stub (*github.com/AdguardTeam/urlfilter.DNSEngine).MatchRequest VxC01MatchRequest
//vx:stub (*github.com/AdguardTeam/urlfilter/rules.NetworkRule).Match VxC01RuleMatch
//vx:stub (*github.com/AdguardTeam/AdGuardHome/internal/schedule.Weekly).Contains VxC01ScheduleContains
//vx:stub github.com/AdguardTeam/urlfilter/rules.NewRequestForHostname VxC01NewRequest
//vx:stub os.MkdirAll VxC01MkdirAll
//vx:stub time.Now VxC01Now

import (
	"io/fs"
	"net/netip"
	"time"

	"github.com/AdguardTeam/AdGuardHome/internal/filtering/rulelist"
	"github.com/AdguardTeam/AdGuardHome/internal/schedule"
	"github.com/AdguardTeam/AdGuardHome/internal/vx"
	"github.com/AdguardTeam/urlfilter"
	"github.com/AdguardTeam/urlfilter/rules"
)

// VxC01Call records one consultation of a rule engine.
type VxC01Call struct {
	Allow bool
	Host  string
	Qtype uint16
}

var (
	VxC01Calls       []VxC01Call
	VxC01AllowEngine *urlfilter.DNSEngine
	// VxC01Verdict produces the verdict of an engine for one request.
	VxC01Verdict func(allow bool, req *urlfilter.DNSRequest) (*urlfilter.DNSResult, bool)
	// VxC01SvcMatch[i] is the verdict of service rule i for the host.
	VxC01SvcRules []*rules.NetworkRule
	VxC01SvcMatch []bool
	// VxC01SvcMatchFn, when set, decides service rule i from the request the
	// real code built (NameCase entry: the rule matches the lower-case name).
	VxC01SvcMatchFn func(i int, req *rules.Request) bool
	VxC01Paused   bool
	VxC01Clock    int64
)

func VxC01MatchRequest(e *urlfilter.DNSEngine, req *urlfilter.DNSRequest) (*urlfilter.DNSResult, bool) {
	allow := e == VxC01AllowEngine
	VxC01Calls = append(VxC01Calls, VxC01Call{Allow: allow, Host: req.Hostname, Qtype: req.DNSType})
	return VxC01Verdict(allow, req)
}

func VxC01RuleMatch(r *rules.NetworkRule, req *rules.Request) bool {
	for i, sr := range VxC01SvcRules {
		if sr == r {
			if VxC01SvcMatchFn != nil {
				return VxC01SvcMatchFn(i, req)
			}
			return VxC01SvcMatch[i]
		}
	}
	return false
}

func VxC01NewRequest(host string) *rules.Request { return &rules.Request{Hostname: host} }

func VxC01ScheduleContains(w *schedule.Weekly, t time.Time) bool { return VxC01Paused }

func VxC01MkdirAll(path string, perm fs.FileMode) error { return nil }

func VxC01Now() time.Time { return time.Unix(VxC01Clock, 0) }

// VxC01NewFilter runs the real constructor and installs two (opaque) engines.
func VxC01NewFilter(c *Config, services []string) *DNSFilter {
	serviceRules = map[string][]*rules.NetworkRule{}
	VxC01SvcRules = nil
	VxC01SvcMatchFn = nil
	for _, name := range services {
		r := &rules.NetworkRule{RuleText: "||" + name + "^", FilterListID: int(rulelist.URLFilterIDBlockedService)}
		serviceRules[name] = []*rules.NetworkRule{r}
		VxC01SvcRules = append(VxC01SvcRules, r)
	}
	d, err := New(c, nil)
	if err != nil {
		vx.Fail("filtering.New failed in the harness")
	}
	d.filteringEngine = &urlfilter.DNSEngine{}
	d.filteringEngineAllow = &urlfilter.DNSEngine{}
	VxC01AllowEngine = d.filteringEngineAllow
	return d
}

// VxC01HostRule builds a hosts-style rule with the given address.
func VxC01HostRule(text string, ip netip.Addr) *rules.HostRule {
	return &rules.HostRule{RuleText: text, IP: ip, FilterListID: 7}
}
