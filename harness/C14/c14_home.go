//go:build verif

package home

// C14 — the configuration file is replaced atomically.
//
//vx:overlay internal/home/zz_vx_c14.go
//vx:entry vxC14Config reach=crashed,saved,save-failed
//vx:stub path/filepath.EvalSymlinks vxC14EvalSymlinks
//vx:stub gopkg.in/yaml.v3.NewEncoder vxC14NewEncoder
//vx:stub (*gopkg.in/yaml.v3.Encoder).SetIndent vxC14SetIndent
//vx:stub (*gopkg.in/yaml.v3.Encoder).Encode vxC14Encode
//vx:stub (*github.com/AdguardTeam/AdGuardHome/internal/home.clientsContainer).forConfig vxC14ForConfig
//vx:callsites-gap os.WriteFile github.com/AdguardTeam/AdGuardHome/internal/home github.com/AdguardTeam/AdGuardHome/internal/home.writePIDFile,github.com/AdguardTeam/AdGuardHome/internal/home.disableDNSStubListener
//vx:callsites-gap os.WriteFile github.com/AdguardTeam/AdGuardHome/internal/dhcpd none
//vx:callsites-gap os.WriteFile github.com/AdguardTeam/AdGuardHome/internal/filtering none
//vx:callsites-gap os.Create github.com/AdguardTeam/AdGuardHome/internal/home none
//vx:callsites-gap os.Create github.com/AdguardTeam/AdGuardHome/internal/dhcpd none
//vx:callsites-gap os.Create github.com/AdguardTeam/AdGuardHome/internal/filtering none
//vx:callsites-gap github.com/google/renameio/v2/maybe.WriteFile github.com/AdguardTeam/AdGuardHome/internal/home github.com/AdguardTeam/AdGuardHome/internal/home.parseConfig,(*github.com/AdguardTeam/AdGuardHome/internal/home.configuration).write
//vx:callsites-gap github.com/google/renameio/v2/maybe.WriteFile github.com/AdguardTeam/AdGuardHome/internal/dhcpd github.com/AdguardTeam/AdGuardHome/internal/dhcpd.writeDB
//vx:note closed world (recomputed from the SSA on every run): in internal/home, internal/dhcpd and internal/filtering the only callers of os.WriteFile are writePIDFile and disableDNSStubListener (neither writes one of the three files), nobody calls os.Create, and the atomic writer maybe.WriteFile is called only from the save paths the entries execute; another site ends the run INCONCLUSIVE (coverage gap), not as a violation
//vx:entry vxC14ConfigUpgrade reach=crashed,saved,save-failed
//vx:stub (*github.com/AdguardTeam/AdGuardHome/internal/configmigrate.Migrator).Migrate vxC14Migrate
//vx:stub gopkg.in/yaml.v3.Unmarshal vxC14Unmarshal
//vx:note ConfigUpgrade entry: the second writer of AdGuardHome.yaml, the rewrite after a schema upgrade at start-up (real parseConfig up to and including its write; the migrator returns arbitrary new bytes, an arbitrary `upgraded` flag or an error; parseConfig is cut at yaml.Unmarshal, which follows the write), over the same file-system model with crash / fault at every step

import (
	"errors"
	"io"

	"github.com/AdguardTeam/AdGuardHome/internal/configmigrate"

	"github.com/AdguardTeam/AdGuardHome/internal/aghrenameio"
	"github.com/AdguardTeam/AdGuardHome/internal/vx"
	"gopkg.in/yaml.v3"
)

var (
	vxC14Writer     io.Writer
	vxC14NewContent []byte
)

func vxC14EvalSymlinks(p string) (string, error) { return p, nil }

func vxC14NewEncoder(w io.Writer) *yaml.Encoder {
	vxC14Writer = w
	return &yaml.Encoder{}
}

func vxC14SetIndent(e *yaml.Encoder, n int) {}

// vxC14Encode: the encoder produces arbitrary bytes (the new version).
func vxC14Encode(e *yaml.Encoder, v any) error {
	_, err := vxC14Writer.Write(vxC14NewContent)
	return err
}

func vxC14ForConfig(c *clientsContainer) []*clientObject { return nil }

func vxC14Config() {
	const dest = "/w/AdGuardHome.yaml"
	globalContext.confFilePath = dest
	hasOld := vx.Bool("hasOldVersion")
	old := vx.Bytes("old", vx.Choice("oldLen", 4))
	vxC14NewContent = vx.Bytes("new", vx.Choice("newLen", 4))
	aghrenameio.VxC14Init(dest, old, hasOld, func() [][]byte { return [][]byte{vxC14NewContent} })
	var err error
	func() {
		defer func() {
			if r := recover(); r != nil {
				if _, ok := r.(aghrenameio.VxC14Crash); !ok {
					panic(r)
				}
				vx.Assume(false)
			}
		}()
		err = config.write(nil)
	}()
	aghrenameio.VxC14Finish(err, "configuration file", true)
}

var errVxC14Stop = errors.New("vx: parseConfig cut after the upgrade write")

var vxC14Upgraded bool

// vxC14Migrate: the migrator returns an arbitrary document, says whether it
// differs from the input, or fails.
func vxC14Migrate(m *configmigrate.Migrator, body []byte, target uint) ([]byte, bool, error) {
	if vx.Bool("migrateFails") {
		return body, false, errors.New("vx: migration failed")
	}
	vxC14Upgraded = vx.Bool("upgraded")
	if !vxC14Upgraded {
		return body, false, nil
	}
	return vxC14NewContent, true, nil
}

func vxC14Unmarshal(in []byte, out any) error { return errVxC14Stop }

func vxC14ConfigUpgrade() {
	const dest = "/w/AdGuardHome.yaml"
	globalContext.confFilePath = dest
	old := vx.Bytes("old", 1+vx.Choice("oldLen", 3))
	vxC14NewContent = vx.Bytes("new", vx.Choice("newLen", 4))
	vxC14Upgraded = false
	aghrenameio.VxC14Init(dest, old, true, func() [][]byte { return [][]byte{vxC14NewContent} })
	config.fileData = old
	var err error
	func() {
		defer func() {
			if r := recover(); r != nil {
				if _, ok := r.(aghrenameio.VxC14Crash); !ok {
					panic(r)
				}
				vx.Assume(false)
			}
		}()
		err = parseConfig()
	}()
	if errors.Is(err, errVxC14Stop) {
		err = nil
	}
	aghrenameio.VxC14Finish(err, "configuration file (schema upgrade)", vxC14Upgraded)
}
