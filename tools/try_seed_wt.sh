#!/bin/sh
# usage: tools/try_seed_wt.sh <ID> <patch.diff> [vchk args] — runs the quick check against a scratch worktree with the patch applied (never touches /repo)
ID=$1; PATCH=$2; shift 2
WT=/tmp/tsw-$ID-$$
git -C /repo worktree add --detach $WT HEAD >/dev/null 2>&1 || exit 3
( cd $WT && git apply "$PATCH" ) || { echo "patch does not apply"; git -C /repo worktree remove --force $WT; exit 3; }
cd /verif
VX_REPO=$WT bin/vchk run "$ID" --no-evidence "$@" > /tmp/tsw.$$.log 2>&1
rc=$?
git -C /repo worktree remove --force $WT
grep -E "^(VIOLATION|INCONCLUSIVE|KNOWN|UNCONFIRMED|entry)|label=|coverage gap" /tmp/tsw.$$.log | cut -c1-260 | head -14
rm -f /tmp/tsw.$$.log
echo "exit=$rc"
exit $rc
