//go:build verif

package stats

// C09 — statistics totals equal the queries counted inside the retention
// window.
//
//vx:native
//vx:overlay internal/stats/zz_vx_c09.go
//vx:entry vxC09Step reach=s-counted,s-not-counted,s-not-filtered,s-blocked,s-upstream,s-upstream-skipped
//vx:entry vxC09Codec reach=c-roundtrip
//vx:entry vxC09Aggregate reach=a-hourly,a-daily,a-daily-partial
//vx:entry vxC09History reach=h-update,h-rolled,h-gap,h-restart,h-clear,h-reported,h-aged-out,h-survived-roll,h-survived-restart,h-flush-locked,h-guarded
//vx:entry vxC09Limits reach=h-update,h-rolled,h-restart,h-reported,h-aged-out,l-disabled-rejected,l-shrunk,l-raised,l-legacy-off,l-legacy-on,l-may-be-purged,l-back-in-window
//vx:stub github.com/AdguardTeam/AdGuardHome/internal/aghnet.NewIgnoreEngine vxC09NewIgnoreEngine
//vx:note reference = the list of counted queries (hour that was current when counted, category); the API (GET /control/stats through handleStats) must report, per total / category / hourly cell, the number of listed queries whose hour is in (cur-limit, cur]; hourly series must add up to the totals, client table and queried+blocked domain tables must add up to the total; windows of more than 7 days: daily series never exceed the totals and the last day contains the current hour
//vx:note vxC09History (no configuration change, every comparison is an equality): steps over {update not-filtered, update blocking category (rotating filtered/safe-browsing/safe-search/parental), hour +1 without flush, hour +1 / +limit-1 / +limit / +limit+2 with flush, flush alone, clean Close + New with the written-back configuration, POST stats_reset}, the API is read and compared after every step; quick: all 10^4 histories of 4 steps with a 3-hour window and update + 3 free steps with a 2-hour window; thorough adds update + 4 free steps, update + 5 free steps over 7 of the operations (3-hour window) and update + 3 free steps with a 24-hour window
//vx:note vxC09Limits (retention limit changes): initial window 2 h; steps over {update parental, update safe-browsing, hour +1 / +2 with flush, PUT stats/config/update 1 h on, 4 h on, 2 h 30 min off, POST stats_config 0 days (off + clear), 1 day, restart}; quick: update + 4 free steps; thorough: the same over 12 operations (plus POST stats_config 30 days, PUT 192 h: daily series) and update + 5 free steps over 8 of the 10 operations; a query that was outside the window at an hour roll or restart and is inside again after the limit was raised may or may not be reported (lower bound = never-left queries, upper bound = all in-window queries); everything else is exact
//vx:note vxC09Step: unit with symbolic 64-bit counters (2 domains, 1 blocked domain, 2 clients, 1 upstream) and an entry with any category >= 0, domain/client known | new | empty, statistics on | off | limit 0, or 1..2 upstream results (cached / failed symbolic, known | new address): counted entries add exactly 1 to the total, to their own category cell, to exactly one of the domain tables and to the client; entries not counted change nothing.  vxC09Codec: the same unit survives serialize -> flushUnitToDB -> loadUnitFromDB -> deserialize (time sum excluded: stored as an average)
//vx:note vxC09Aggregate: dataFromUnits on windows of 1, 24, 191 hours (hourly) and 192, 720 hours (daily) with any current hour >= 10000; the newest and oldest units carry symbolic counters < 2^40 (quick 24 / 4, thorough 48 / 8 units incl. the units 23 and 24), the others are empty: totals = sums over units, hourly cells = unit counts, daily sums between the sums of the last (days-1)*24+1 and days*24 hours
//vx:note restricted concurrency claim (instead of interleavings): the engine checks that every access to StatsCtx.curr and to the counters of the current unit happens with currMu held (vx.Guard), that the hourly flush touches the database only with confMu and currMu write-held (swap-then-persist is one critical section against Update and against the API read, which holds confMu for its whole duration), and that no operation returns with a lock held
//vx:note environment: bbolt = transactional bucket store written in the harness (one writable transaction at a time, Begin/Open/Close that would block are violations, buckets iterated in byte order, commit/rollback, ErrBucketNotFound/ErrBucketExists/ErrTxClosed); gob = 8-byte handle of a deep copy; os.Remove unlinks the model file; JSON request/response codecs hand the structs over; ignore engine = nothing ignored; clock = harness hour counter starting at 480005
//vx:note outside: real bbolt and gob (incl. deleting buckets inside Tx.ForEach), I/O errors and crashes in the middle of a flush, true interleavings (reset and Close do not take confMu), clock going backwards and 32-bit hour wrap, 64-bit counter wrap, averages of processing time, ordering / top-100 cut of the tables, TopClientsIP, where exactly a day of the daily series starts, negative Result values (Entry.validate accepts them and unit.add would index out of range; no caller produces them)
//vx:stub go.etcd.io/bbolt.Open vxC09Open
//vx:stub (*go.etcd.io/bbolt.DB).Begin vxC09Begin
//vx:stub (*go.etcd.io/bbolt.DB).Close vxC09DBClose
//vx:stub (*go.etcd.io/bbolt.Tx).Bucket vxC09TxBucket
//vx:stub (*go.etcd.io/bbolt.Tx).CreateBucket vxC09TxCreateBucket
//vx:stub (*go.etcd.io/bbolt.Tx).CreateBucketIfNotExists vxC09TxCreateBucketIfNotExists
//vx:stub (*go.etcd.io/bbolt.Tx).DeleteBucket vxC09TxDeleteBucket
//vx:stub (*go.etcd.io/bbolt.Tx).ForEach vxC09TxForEach
//vx:stub (*go.etcd.io/bbolt.Tx).Commit vxC09TxCommit
//vx:stub (*go.etcd.io/bbolt.Tx).Rollback vxC09TxRollback
//vx:stub (*go.etcd.io/bbolt.Bucket).Get vxC09BktGet
//vx:stub (*go.etcd.io/bbolt.Bucket).Put vxC09BktPut
//vx:stub encoding/gob.NewEncoder vxC09NewEncoder
//vx:stub encoding/gob.NewDecoder vxC09NewDecoder
//vx:stub (*encoding/gob.Encoder).Encode vxC09Encode
//vx:stub (*encoding/gob.Decoder).Decode vxC09Decode
//vx:stub os.Remove vxC09Remove
//vx:stub time.Now vxC09Now
//vx:stub github.com/AdguardTeam/AdGuardHome/internal/aghhttp.WriteJSONResponseOK vxC09WriteJSON
//vx:stub github.com/AdguardTeam/AdGuardHome/internal/aghhttp.ErrorAndLog vxC09ErrorAndLog
//vx:stub (*encoding/json.Decoder).Decode vxC09JSONDecode

import (
	"bytes"
	"context"
	"encoding/gob"
	"encoding/json"
	"io"
	"io/fs"
	"log/slog"
	"net/http"
	"os"
	"sync"
	"time"

	"github.com/AdguardTeam/AdGuardHome/internal/aghalg"
	"github.com/AdguardTeam/AdGuardHome/internal/aghnet"
	"github.com/AdguardTeam/AdGuardHome/internal/vx"
	"github.com/AdguardTeam/dnsproxy/proxy"
	"github.com/AdguardTeam/golibs/errors"
	"go.etcd.io/bbolt"
	bbolterrors "go.etcd.io/bbolt/errors"
)

// ---------------------------------------------------------------------------
// Environment: a transactional key/value store standing for bbolt, and a
// handle round-trip standing for encoding/gob.
// ---------------------------------------------------------------------------

// vxC09Bkt is one top-level bucket.  Values are immutable once stored.
type vxC09Bkt struct {
	name []byte
	keys [][]byte
	vals [][]byte
}

// vxC09File is the committed content of one database file.
type vxC09File struct {
	path   string
	bkts   []*vxC09Bkt // sorted by name, bytewise
	locked bool        // flock held by an open DB handle
}

type vxC09DB struct {
	ptr    *bbolt.DB
	file   *vxC09File
	closed bool
	tx     *vxC09Tx // the open writable transaction, if any
}

type vxC09Tx struct {
	ptr      *bbolt.Tx
	db       *vxC09DB
	writable bool
	done     bool
	work     []*vxC09Bkt
}

type vxC09BktRef struct {
	ptr  *bbolt.Bucket
	tx   *vxC09Tx
	name []byte
}

type vxC09Enc struct {
	ptr *gob.Encoder
	w   io.Writer
}

type vxC09Dec struct {
	ptr *gob.Decoder
	r   io.Reader
}

var vxC09Env struct {
	files []*vxC09File
	dbs   []*vxC09DB
	txs   []*vxC09Tx
	refs  []*vxC09BktRef
	encs  []vxC09Enc
	decs  []vxC09Dec
	blobs []*unitDB

	clock uint32
	tick  int64

	// what the HTTP layer was asked to send
	resp     *StatsResp
	httpCode int

	// request bodies "decoded" by the JSON stub
	cfgReq configResp
	putReq getConfigResp

	// the context whose locks the store checks while a flush is running
	flushing *StatsCtx
	lockedIO int
}

func vxC09Reset() {
	vxC09Env.files = nil
	vxC09Env.dbs = nil
	vxC09Env.txs = nil
	vxC09Env.refs = nil
	vxC09Env.encs = nil
	vxC09Env.decs = nil
	vxC09Env.blobs = nil
	vxC09Env.clock = 0
	vxC09Env.tick = 0
	vxC09Env.resp = nil
	vxC09Env.httpCode = 0
	vxC09Env.flushing = nil
	vxC09Env.lockedIO = 0
}

func vxC09FindFile(path string) *vxC09File {
	for _, f := range vxC09Env.files {
		if f.path == path {
			return f
		}
	}
	return nil
}

func vxC09FindDB(p *bbolt.DB) *vxC09DB {
	for _, d := range vxC09Env.dbs {
		if d.ptr == p {
			return d
		}
	}
	vx.Fail("store model: unknown *bbolt.DB")
	return nil
}

func vxC09FindTx(p *bbolt.Tx) *vxC09Tx {
	for _, t := range vxC09Env.txs {
		if t.ptr == p {
			return t
		}
	}
	vx.Fail("store model: unknown *bbolt.Tx")
	return nil
}

func vxC09FindRef(p *bbolt.Bucket) *vxC09BktRef {
	for _, r := range vxC09Env.refs {
		if r.ptr == p {
			return r
		}
	}
	vx.Fail("store model: unknown *bbolt.Bucket")
	return nil
}

// vxC09Open: bbolt.Open creates the file when missing and takes an exclusive
// file lock (a second Open of the same file would block forever).
func vxC09Open(path string, mode os.FileMode, options *bbolt.Options) (*bbolt.DB, error) {
	f := vxC09FindFile(path)
	if f == nil {
		f = &vxC09File{path: path}
		vxC09Env.files = append(vxC09Env.files, f)
	}
	if f.locked {
		vx.Fail("database file opened while another handle holds its lock (bbolt.Open would block)")
	}
	f.locked = true
	d := &vxC09DB{ptr: new(bbolt.DB), file: f}
	vxC09Env.dbs = append(vxC09Env.dbs, d)
	return d.ptr, nil
}

// vxC09Remove stands for os.Remove of the database file.
func vxC09Remove(name string) error {
	for i, f := range vxC09Env.files {
		if f.path == name {
			if f.locked {
				// unlinking an open file: the open handle keeps the old content,
				// the name is gone
				f.path = "\x00unlinked"
			}
			vxC09Env.files = append(vxC09Env.files[:i:i], vxC09Env.files[i+1:]...)
			return nil
		}
	}
	return &fs.PathError{Op: "remove", Path: name, Err: fs.ErrNotExist}
}

// vxC09Begin: one writable transaction at a time; a second one blocks.
func vxC09Begin(p *bbolt.DB, writable bool) (*bbolt.Tx, error) {
	d := vxC09FindDB(p)
	if d.closed {
		return nil, bbolterrors.ErrDatabaseNotOpen
	}
	if writable && d.tx != nil {
		vx.Fail("writable transaction begun while another one is still open (bbolt would block)")
	}
	t := &vxC09Tx{ptr: new(bbolt.Tx), db: d, writable: writable}
	t.work = make([]*vxC09Bkt, len(d.file.bkts))
	for i, b := range d.file.bkts {
		t.work[i] = &vxC09Bkt{
			name: b.name,
			keys: append([][]byte(nil), b.keys...),
			vals: append([][]byte(nil), b.vals...),
		}
	}
	if writable {
		d.tx = t
	}
	vxC09Env.txs = append(vxC09Env.txs, t)
	return t.ptr, nil
}

// vxC09DBClose: Close waits for open transactions; it releases the file lock.
func vxC09DBClose(p *bbolt.DB) error {
	d := vxC09FindDB(p)
	if d.closed {
		return nil
	}
	if d.tx != nil {
		vx.Fail("database closed while a transaction is still open (bbolt would block)")
	}
	d.closed = true
	d.file.locked = false
	return nil
}

func (t *vxC09Tx) find(name []byte) int {
	for i, b := range t.work {
		if bytes.Equal(b.name, name) {
			return i
		}
	}
	return -1
}

func (t *vxC09Tx) ref(name []byte) *bbolt.Bucket {
	r := &vxC09BktRef{ptr: new(bbolt.Bucket), tx: t, name: name}
	vxC09Env.refs = append(vxC09Env.refs, r)
	return r.ptr
}

// vxC09LockCheck: while the hourly flush runs, the store is only touched with
// both locks of the context write-held (swap-then-persist is one critical
// section for updates and for readers).
func vxC09LockCheck() {
	s := vxC09Env.flushing
	if s == nil {
		return
	}
	vxC09Env.lockedIO++
	vx.Assert(vx.Held(s.confMu) == 2, "flush touches the database without holding the configuration lock")
	vx.Assert(vx.Held(s.currMu) == 2, "flush touches the database without holding the current-unit lock")
}

func vxC09TxBucket(p *bbolt.Tx, name []byte) *bbolt.Bucket {
	t := vxC09FindTx(p)
	vxC09LockCheck()
	if t.done || t.find(name) < 0 {
		return nil
	}
	return t.ref(name)
}

func vxC09TxCreateBucket(p *bbolt.Tx, name []byte) (*bbolt.Bucket, error) {
	t := vxC09FindTx(p)
	vxC09LockCheck()
	switch {
	case t.done:
		return nil, bbolterrors.ErrTxClosed
	case !t.writable:
		return nil, bbolterrors.ErrTxNotWritable
	case len(name) == 0:
		return nil, bbolterrors.ErrBucketNameRequired
	case t.find(name) >= 0:
		return nil, bbolterrors.ErrBucketExists
	}
	nb := &vxC09Bkt{name: append([]byte(nil), name...)}
	at := len(t.work)
	for i, b := range t.work {
		if bytes.Compare(b.name, name) > 0 {
			at = i
			break
		}
	}
	w := make([]*vxC09Bkt, 0, len(t.work)+1)
	w = append(w, t.work[:at]...)
	w = append(w, nb)
	w = append(w, t.work[at:]...)
	t.work = w
	return t.ref(nb.name), nil
}

func vxC09TxCreateBucketIfNotExists(p *bbolt.Tx, name []byte) (*bbolt.Bucket, error) {
	t := vxC09FindTx(p)
	if !t.done && t.writable && t.find(name) >= 0 {
		vxC09LockCheck()
		return t.ref(append([]byte(nil), name...)), nil
	}
	return vxC09TxCreateBucket(p, name)
}

func vxC09TxDeleteBucket(p *bbolt.Tx, name []byte) error {
	t := vxC09FindTx(p)
	vxC09LockCheck()
	switch {
	case t.done:
		return bbolterrors.ErrTxClosed
	case !t.writable:
		return bbolterrors.ErrTxNotWritable
	}
	i := t.find(name)
	if i < 0 {
		return bbolterrors.ErrBucketNotFound
	}
	w := make([]*vxC09Bkt, 0, len(t.work))
	w = append(w, t.work[:i]...)
	w = append(w, t.work[i+1:]...)
	t.work = w
	return nil
}

// vxC09TxForEach visits the buckets in byte order of their names.  The
// visited set is the one present when the iteration starts.
func vxC09TxForEach(p *bbolt.Tx, fn func(name []byte, b *bbolt.Bucket) error) error {
	t := vxC09FindTx(p)
	if t.done {
		return bbolterrors.ErrTxClosed
	}
	snapshot := append([]*vxC09Bkt(nil), t.work...)
	for _, b := range snapshot {
		if err := fn(b.name, t.ref(b.name)); err != nil {
			return err
		}
	}
	return nil
}

func (t *vxC09Tx) finish() {
	t.done = true
	if t.db.tx == t {
		t.db.tx = nil
	}
}

func vxC09TxCommit(p *bbolt.Tx) error {
	t := vxC09FindTx(p)
	vxC09LockCheck()
	switch {
	case t.done:
		return bbolterrors.ErrTxClosed
	case !t.writable:
		return bbolterrors.ErrTxNotWritable
	}
	t.db.file.bkts = t.work
	t.finish()
	return nil
}

func vxC09TxRollback(p *bbolt.Tx) error {
	t := vxC09FindTx(p)
	if t.done {
		return bbolterrors.ErrTxClosed
	}
	t.finish()
	return nil
}

func vxC09BktGet(p *bbolt.Bucket, key []byte) []byte {
	r := vxC09FindRef(p)
	i := r.tx.find(r.name)
	if r.tx.done || i < 0 {
		vx.Fail("store model: bucket used after its transaction or after deletion")
		return nil
	}
	b := r.tx.work[i]
	for j, k := range b.keys {
		if bytes.Equal(k, key) {
			return b.vals[j]
		}
	}
	return nil
}

func vxC09BktPut(p *bbolt.Bucket, key, value []byte) error {
	r := vxC09FindRef(p)
	vxC09LockCheck()
	i := r.tx.find(r.name)
	switch {
	case r.tx.done:
		return bbolterrors.ErrTxClosed
	case !r.tx.writable:
		return bbolterrors.ErrTxNotWritable
	case len(key) == 0:
		return bbolterrors.ErrKeyRequired
	case i < 0:
		vx.Fail("store model: put into a deleted bucket")
		return nil
	}
	b := r.tx.work[i]
	v := append([]byte(nil), value...)
	for j, k := range b.keys {
		if bytes.Equal(k, key) {
			b.vals[j] = v
			return nil
		}
	}
	b.keys = append(b.keys, append([]byte(nil), key...))
	b.vals = append(b.vals, v)
	return nil
}

// ---- gob: a value is written as an 8-byte handle of a deep copy ----

func vxC09NewEncoder(w io.Writer) *gob.Encoder {
	e := new(gob.Encoder)
	vxC09Env.encs = append(vxC09Env.encs, vxC09Enc{e, w})
	return e
}

func vxC09NewDecoder(r io.Reader) *gob.Decoder {
	d := new(gob.Decoder)
	vxC09Env.decs = append(vxC09Env.decs, vxC09Dec{d, r})
	return d
}

func vxC09CopyPairs(a []countPair) []countPair {
	if len(a) == 0 {
		return nil // gob omits empty slices
	}
	return append([]countPair(nil), a...)
}

func vxC09CopyUnit(u *unitDB) *unitDB {
	c := &unitDB{
		Domains:            vxC09CopyPairs(u.Domains),
		BlockedDomains:     vxC09CopyPairs(u.BlockedDomains),
		Clients:            vxC09CopyPairs(u.Clients),
		UpstreamsResponses: vxC09CopyPairs(u.UpstreamsResponses),
		UpstreamsTimeSum:   vxC09CopyPairs(u.UpstreamsTimeSum),
		NTotal:             u.NTotal,
		TimeAvg:            u.TimeAvg,
	}
	if len(u.NResult) > 0 {
		c.NResult = append([]uint64(nil), u.NResult...)
	}
	return c
}

func vxC09Encode(e *gob.Encoder, v any) error {
	udb, ok := v.(*unitDB)
	if !ok {
		vx.Fail("gob model: unexpected value type")
		return nil
	}
	var w io.Writer
	for _, x := range vxC09Env.encs {
		if x.ptr == e {
			w = x.w
		}
	}
	vxC09Env.blobs = append(vxC09Env.blobs, vxC09CopyUnit(udb))
	h := len(vxC09Env.blobs)
	b := []byte{'g', 'o', 'b', 0, byte(h >> 24), byte(h >> 16), byte(h >> 8), byte(h)}
	_, err := w.Write(b)
	return err
}

func vxC09Decode(d *gob.Decoder, v any) error {
	udb, ok := v.(*unitDB)
	if !ok {
		vx.Fail("gob model: unexpected value type")
		return nil
	}
	var r io.Reader
	for _, x := range vxC09Env.decs {
		if x.ptr == d {
			r = x.r
		}
	}
	var b [8]byte
	n, _ := io.ReadFull(r, b[:])
	if n == 0 {
		return io.EOF
	}
	if n < 8 || b[0] != 'g' || b[1] != 'o' || b[2] != 'b' {
		return io.ErrUnexpectedEOF
	}
	h := int(b[4])<<24 | int(b[5])<<16 | int(b[6])<<8 | int(b[7])
	if h < 1 || h > len(vxC09Env.blobs) {
		return io.ErrUnexpectedEOF
	}
	*udb = *vxC09CopyUnit(vxC09Env.blobs[h-1])
	return nil
}

// ---- clock, HTTP ----

func vxC09Now() time.Time {
	vxC09Env.tick++
	return time.Unix(int64(vxC09Env.clock)*3600+vxC09Env.tick, 0)
}

func vxC09UnitID() uint32 { return vxC09Env.clock }

func vxC09WriteJSON(w http.ResponseWriter, r *http.Request, v any) {
	vxC09Env.httpCode = http.StatusOK
	if resp, ok := v.(*StatsResp); ok {
		vxC09Env.resp = resp
	}
}

func vxC09ErrorAndLog(
	ctx context.Context,
	l *slog.Logger,
	r *http.Request,
	w http.ResponseWriter,
	code int,
	format string,
	args ...any,
) {
	vxC09Env.httpCode = code
}

// vxC09JSONDecode stands for the JSON codec of the request bodies.
func vxC09JSONDecode(dec *json.Decoder, v any) error {
	switch p := v.(type) {
	case *configResp:
		*p = vxC09Env.cfgReq
	case *getConfigResp:
		*p = vxC09Env.putReq
	default:
		vx.Fail("json model: unexpected request type")
	}
	return nil
}

// vxC09NewIgnoreEngine: no host name is ignored (a nil engine matches nothing).
func vxC09NewIgnoreEngine(ignored []string) (*aghnet.IgnoreEngine, error) { return nil, nil }

type vxC09Writer struct {
	h    http.Header
	code int
}

func (w *vxC09Writer) Header() http.Header         { return w.h }
func (w *vxC09Writer) WriteHeader(c int)           { w.code = c }
func (w *vxC09Writer) Write(b []byte) (int, error) { return len(b), nil }

// ---------------------------------------------------------------------------
// Reference: the list of counted queries (hour, category).
// ---------------------------------------------------------------------------

type vxC09Rec struct {
	hour    uint32
	cat     Result
	blocked bool
	// left is set once the record was outside the window at an hour roll or a
	// restart: from then on the system may have purged it.
	left bool
	// hidden: the record was outside the window at some read
	hidden bool
	// rolled / restarted: the record has gone through an hour roll / a restart
	rolled    bool
	restarted bool
}

type vxC09Ref struct {
	recs    []*vxC09Rec
	cur     uint32 // hour of the current unit
	limit   uint32 // window length, hours
	enabled bool
}

const vxC09File0 = "/vx/stats.db"

// vxC09BaseHour is an hour number of the 2020s.
const vxC09BaseHour = 480005

func vxC09Config(limit time.Duration, enabled bool) Config {
	return Config{
		Logger:            slog.Default(),
		UnitID:            vxC09UnitID,
		ConfigModified:    func() {},
		ShouldCountClient: func([]string) bool { return true },
		Filename:          vxC09File0,
		Limit:             limit,
		Enabled:           enabled,
	}
}

func vxC09New(limit time.Duration, enabled bool) *StatsCtx {
	s, err := New(vxC09Config(limit, enabled))
	vx.Assert(err == nil, "New fails on a healthy database")
	if err != nil {
		vx.Assume(false)
	}
	vxC09GuardCurr(s)
	return s
}

// vxC09GuardCurr declares the current unit (the pointer and the unit it
// points to) as protected by currMu: from here on the engine checks that
// every access happens with the lock held (restricted concurrency claim).
func vxC09GuardCurr(s *StatsCtx) {
	s.currMu.Lock()
	u := s.curr
	s.currMu.Unlock()
	vx.Guard(&s.curr, s.currMu, "StatsCtx.curr (pointer to the current unit)")
	if u != nil {
		vx.Guard(u, s.currMu, "current unit (counters)")
	}
}

// inWindow: hour in (cur-limit, cur].
func (r *vxC09Ref) inWindow(hour uint32) bool {
	return hour <= r.cur && hour+r.limit > r.cur
}

// roll records that the current hour became cur: everything outside the
// window now may be purged by the system.
func (r *vxC09Ref) roll(cur uint32) {
	r.cur = cur
	for _, q := range r.recs {
		if !r.inWindow(q.hour) {
			q.left = true
		}
	}
}

var vxC09Domains = []string{"a.example", "b.example"}
var vxC09Clients = []string{"192.0.2.1", "client-b"}

// vxC09Update sends one valid query of category cat to the statistics.
func vxC09Update(s *StatsCtx, r *vxC09Ref, cat Result, who int) {
	e := &Entry{
		Domain:         vxC09Domains[who],
		Client:         vxC09Clients[who],
		Result:         cat,
		ProcessingTime: 5 * time.Millisecond,
	}
	s.Update(e)
	vx.Assert(vx.Held(s.confMu) == 0 && vx.Held(s.currMu) == 0, "Update returns with a lock held")

	// nothing is counted while statistics are off
	if r.enabled {
		r.recs = append(r.recs, &vxC09Rec{hour: r.cur, cat: cat, blocked: cat != RNotFiltered})
		vx.Reach("h-update")
	} else {
		vx.Reach("l-disabled-rejected")
	}
}

func vxC09Flush(s *StatsCtx, r *vxC09Ref) {
	vxC09Env.flushing = s
	s.flush()
	vxC09Env.flushing = nil
	vx.Assert(vx.Held(s.confMu) == 0 && vx.Held(s.currMu) == 0, "flush returns with a lock held")
	vxC09GuardCurr(s)
	if vxC09Env.clock != r.cur {
		if vxC09Env.clock-r.cur > 1 {
			vx.Reach("h-gap")
		}
		vx.Reach("h-rolled")
		if vxC09Env.lockedIO > 0 {
			vx.Reach("h-flush-locked")
		}
		r.roll(vxC09Env.clock)
		for _, q := range r.recs {
			q.rolled = true
		}
	}
}

func vxC09Restart(s *StatsCtx, r *vxC09Ref) *StatsCtx {
	dc := Config{}
	s.WriteDiskConfig(&dc)
	err := s.Close()
	vx.Assert(err == nil, "Close fails on a healthy database")
	vx.Assert(vx.Held(s.confMu) == 0 && vx.Held(s.currMu) == 0, "Close returns with a lock held")
	s = vxC09New(dc.Limit, dc.Enabled)
	r.roll(vxC09Env.clock)
	for _, q := range r.recs {
		q.restarted = true
	}
	vx.Reach("h-restart")
	return s
}

func vxC09Clear(s *StatsCtx, r *vxC09Ref) {
	w := &vxC09Writer{h: http.Header{}}
	vxC09Env.httpCode = 0
	s.handleStatsReset(w, &http.Request{Method: http.MethodPost})
	vx.Assert(vxC09Env.httpCode == 0, "reset reports an error")
	vxC09GuardCurr(s)
	r.recs = nil
	r.cur = vxC09Env.clock
	vx.Reach("h-clear")
}

// vxC09PutConfig: PUT /control/stats/config/update.
func vxC09PutConfig(s *StatsCtx, r *vxC09Ref, ivl time.Duration, enabled bool) {
	w := &vxC09Writer{h: http.Header{}}
	vxC09Env.httpCode = 0
	vxC09Env.putReq = getConfigResp{
		Interval: float64(ivl.Milliseconds()),
		Enabled:  aghalg.BoolToNullBool(enabled),
	}
	s.handlePutStatsConfig(w, &http.Request{Method: http.MethodPut})
	vx.Assert(vxC09Env.httpCode == 0, "a valid configuration update is rejected")
	old := r.limit
	r.limit = uint32(ivl / time.Hour)
	r.enabled = enabled
	if r.limit < old {
		vx.Reach("l-shrunk")
	} else if r.limit > old {
		vx.Reach("l-raised")
	}
}

// vxC09LegacyConfig: POST /control/stats_config with an interval in days.
func vxC09LegacyConfig(s *StatsCtx, r *vxC09Ref, days uint32) {
	w := &vxC09Writer{h: http.Header{}}
	vxC09Env.httpCode = 0
	vxC09Env.cfgReq = configResp{IntervalDays: days}
	s.handleStatsConfig(w, &http.Request{Method: http.MethodPost})
	vx.Assert(vxC09Env.httpCode == 0, "a valid legacy configuration is rejected")
	vxC09GuardCurr(s)
	if days == 0 {
		// statistics are switched off and everything collected is dropped
		r.enabled = false
		r.recs = nil
		r.cur = vxC09Env.clock
		vx.Reach("l-legacy-off")
		return
	}
	r.enabled = true
	r.limit = days * 24
	vx.Reach("l-legacy-on")
}

// vxC09Read asks the API for the statistics.
func vxC09Read(s *StatsCtx) *StatsResp {
	w := &vxC09Writer{h: http.Header{}}
	vxC09Env.resp, vxC09Env.httpCode = nil, 0
	s.handleStats(w, &http.Request{Method: http.MethodGet})
	vx.Assert(vxC09Env.httpCode == http.StatusOK && vxC09Env.resp != nil, "the statistics API fails")
	vx.Assert(vx.Held(s.confMu) == 0 && vx.Held(s.currMu) == 0, "the statistics API returns with a lock held")
	if vxC09Env.resp == nil {
		vx.Assume(false)
	}
	return vxC09Env.resp
}

func vxC09SumTop(a []topAddrs) (n uint64) {
	for _, m := range a {
		for _, c := range m {
			n += c
		}
	}
	return n
}

func vxC09Sum(a []uint64) (n uint64) {
	for _, c := range a {
		n += c
	}
	return n
}

func vxC09Between(lo, x, hi uint64) bool { return vx.And(lo <= x, x <= hi) }

// vxC09Check compares what the API reports with the reference.  must = the
// records inside the window that never left it; may = all records inside the
// window (a record that was outside at some roll and came back in because the
// limit was raised may or may not have been purged).  Without limit changes
// must = may.
func vxC09Check(s *StatsCtx, r *vxC09Ref) {
	resp := vxC09Read(s)

	var must, may [resultLast]uint64
	var mustAll, mayAll, mustBlk, mayBlk uint64
	for _, q := range r.recs {
		if !r.inWindow(q.hour) {
			q.hidden = true
			vx.Reach("h-aged-out")
			continue
		}
		may[q.cat]++
		mayAll++
		if q.blocked {
			mayBlk++
		}
		if q.left {
			vx.Reach("l-may-be-purged")
			continue
		}
		must[q.cat]++
		mustAll++
		if q.blocked {
			mustBlk++
		}
		if q.rolled {
			vx.Reach("h-survived-roll")
		}
		if q.restarted {
			vx.Reach("h-survived-restart")
		}
		if q.hidden {
			vx.Reach("l-back-in-window")
		}
	}
	if mustAll > 0 {
		vx.Reach("h-reported")
	}

	vx.Assert(vxC09Between(mustAll, resp.NumDNSQueries, mayAll), "total of queries differs from the queries counted inside the window")
	vx.Assert(vxC09Between(must[RFiltered], resp.NumBlockedFiltering, may[RFiltered]), "blocked total differs from the queries counted inside the window")
	vx.Assert(vxC09Between(must[RSafeBrowsing], resp.NumReplacedSafebrowsing, may[RSafeBrowsing]), "safe-browsing total differs from the queries counted inside the window")
	vx.Assert(vxC09Between(must[RSafeSearch], resp.NumReplacedSafesearch, may[RSafeSearch]), "safe-search total differs from the queries counted inside the window")
	vx.Assert(vxC09Between(must[RParental], resp.NumReplacedParental, may[RParental]), "parental total differs from the queries counted inside the window")

	// every query is in exactly one of the queried / blocked domain tables and
	// in the client table
	vx.Assert(vxC09SumTop(resp.TopClients) == resp.NumDNSQueries, "client table does not add up to the total")
	vx.Assert(vxC09SumTop(resp.TopQueried)+vxC09SumTop(resp.TopBlocked) == resp.NumDNSQueries, "domain tables do not add up to the total")
	vx.Assert(vxC09Between(mustBlk, vxC09SumTop(resp.TopBlocked), mayBlk), "blocked-domain table differs from the blocked queries inside the window")

	if r.limit/24 <= 7 {
		vx.Assert(resp.TimeUnits == timeUnitsHours, "a window of up to a week is not reported in hours")
		vx.Assert(len(resp.DNSQueries) == int(r.limit), "hourly series has the wrong length")
		if resp.TimeUnits != timeUnitsHours || len(resp.DNSQueries) != int(r.limit) {
			return
		}
		// one cell per hour of the window, oldest first
		for i := range resp.DNSQueries {
			hour := r.cur - r.limit + 1 + uint32(i)
			var lo, hi, loB, hiB uint64
			for _, q := range r.recs {
				if q.hour != hour {
					continue
				}
				hi++
				if q.cat == RFiltered {
					hiB++
				}
				if !q.left {
					lo++
					if q.cat == RFiltered {
						loB++
					}
				}
			}
			vx.Assert(vxC09Between(lo, resp.DNSQueries[i], hi), "hourly cell differs from the queries counted in that hour")
			vx.Assert(vxC09Between(loB, resp.BlockedFiltering[i], hiB), "hourly blocked cell differs from the queries blocked in that hour")
		}
		vx.Assert(vxC09Sum(resp.DNSQueries) == resp.NumDNSQueries, "hourly series does not add up to the total")
		vx.Assert(vxC09Sum(resp.BlockedFiltering) == resp.NumBlockedFiltering, "hourly blocked series does not add up to the total")
		vx.Assert(vxC09Sum(resp.ReplacedSafebrowsing) == resp.NumReplacedSafebrowsing, "hourly safe-browsing series does not add up to the total")
		vx.Assert(vxC09Sum(resp.ReplacedParental) == resp.NumReplacedParental, "hourly parental series does not add up to the total")
		return
	}
	vx.Reach("l-daily")
	vx.Assert(resp.TimeUnits == timeUnitsDays, "a window of more than a week is not reported in days")
	vx.Assert(vxC09Sum(resp.DNSQueries) <= resp.NumDNSQueries, "daily series exceeds the total")
	vx.Assert(vxC09Sum(resp.BlockedFiltering) <= resp.NumBlockedFiltering, "daily blocked series exceeds the total")
	vx.Assert(vxC09Sum(resp.ReplacedSafebrowsing) <= resp.NumReplacedSafebrowsing, "daily safe-browsing series exceeds the total")
	vx.Assert(vxC09Sum(resp.ReplacedParental) <= resp.NumReplacedParental, "daily parental series exceeds the total")
	// the current hour is in the last day
	var now uint64
	for _, q := range r.recs {
		if q.hour == r.cur {
			now++
		}
	}
	vx.Assert(len(resp.DNSQueries) > 0 && resp.DNSQueries[len(resp.DNSQueries)-1] >= now, "the last day does not contain the current hour")
}

// vxC09HistoryStep performs step i of a history without configuration
// changes.
func vxC09HistoryStep(s *StatsCtx, r *vxC09Ref, i, op int) *StatsCtx {
	switch op {
	case 0:
		vxC09Update(s, r, RNotFiltered, 0)
	case 1:
		// one of the blocking categories
		vxC09Update(s, r, []Result{RFiltered, RSafeBrowsing, RSafeSearch, RParental}[i%4], 1)
	case 2:
		// the hour advances, the flusher has not run yet
		vxC09Env.clock++
	case 3, 4, 5, 6:
		// the hour advances and the flusher runs: by one, to the edge of the
		// window, just past it, far past it
		vxC09Env.clock += []uint32{1, r.limit - 1, r.limit, r.limit + 2}[op-3]
		vxC09Flush(s, r)
	case 7:
		s = vxC09Restart(s, r)
	case 8:
		vxC09Clear(s, r)
	default:
		// the flusher runs (late, or with nothing to do)
		vxC09Flush(s, r)
	}
	vxC09Check(s, r)
	return s
}

// vxC09History: bounded histories without configuration changes; must = may,
// so every comparison is an equality.
func vxC09History() {
	vxC09Reset()
	vxC09Env.clock = vxC09BaseHour

	// quick: 4 free steps, window of 3 hours | an update + 3 free steps, 2 hours
	// thorough adds: an update + 4 free steps and + 5 steps over 7 operations,
	// window of 3 hours |
	// an update + 3 free steps, window of 24 hours
	limit, steps, free := uint32(3), 4, true
	nb := 2
	if vx.Thorough() {
		nb = 5
	}
	switch vx.Choice("bounds", nb) {
	case 0:
	case 1:
		limit, free = 2, false
	case 2:
		steps, free = 5, false
	case 3:
		steps, free = 6, false
	default:
		limit, free = 24, false
	}
	r := &vxC09Ref{cur: vxC09Env.clock, limit: limit, enabled: true}
	s := vxC09New(time.Duration(limit)*time.Hour, true)

	// the longest histories run over 7 of the 10 operations
	short := []int{0, 1, 3, 4, 5, 7, 8}
	for i := 0; i < steps; i++ {
		n := 10
		if steps == 6 {
			n = len(short)
		}
		if i == 0 && !free {
			n = 2
		}
		op := vx.Choice("op", n)
		if steps == 6 {
			op = short[op]
		}
		s = vxC09HistoryStep(s, r, i, op)
	}
	if vx.GuardHits() > 0 {
		vx.Reach("h-guarded")
	}
}

// vxC09Limits: bounded histories with changes of the retention limit (both
// configuration endpoints), switching statistics off and on, restarts.
func vxC09Limits() {
	vxC09Reset()
	vxC09Env.clock = vxC09BaseHour

	// quick: an update + 4 free steps over 10 operations; thorough: + 4 free
	// steps over 12 operations (with windows of 8 and 30 days) | + 5 steps over
	// 8 operations
	steps, nops := 5, 10
	if vx.Thorough() {
		if vx.Choice("bounds", 2) == 0 {
			nops = 12
		} else {
			steps = 6
		}
	}
	// the longest histories run over 8 of the 10 operations
	short := []int{0, 1, 2, 3, 4, 5, 6, 8}
	r := &vxC09Ref{cur: vxC09Env.clock, limit: 2, enabled: true}
	s := vxC09New(2*time.Hour, true)

	for i := 0; i < steps; i++ {
		n := nops
		if steps == 6 {
			n = len(short)
		}
		if i == 0 {
			n = 1
		}
		op := vx.Choice("op", n)
		if steps == 6 {
			op = short[op]
		}
		switch op {
		case 0:
			vxC09Update(s, r, RParental, 0)
		case 1:
			vxC09Env.clock++
			vxC09Flush(s, r)
		case 2:
			vxC09Env.clock += 2
			vxC09Flush(s, r)
		case 3:
			vxC09PutConfig(s, r, time.Hour, true)
		case 4:
			vxC09PutConfig(s, r, 4*time.Hour, true)
		case 5:
			// 2 h 30 min: a window of two full hours; statistics off
			vxC09PutConfig(s, r, 150*time.Minute, false)
		case 6:
			vxC09LegacyConfig(s, r, 0)
		case 7:
			vxC09LegacyConfig(s, r, 1)
		case 8:
			s = vxC09Restart(s, r)
		case 9:
			vxC09Update(s, r, RSafeBrowsing, 1)
		case 10:
			vxC09LegacyConfig(s, r, 30)
		default:
			vxC09PutConfig(s, r, 192*time.Hour, true)
		}
		vxC09Check(s, r)
	}
}

// ---------------------------------------------------------------------------
// One step: an arbitrary unit and an arbitrary entry.
// ---------------------------------------------------------------------------

type vxC09Snap struct {
	nTotal, timeSum uint64
	nResult         [resultLast]uint64
	domains         map[string]uint64
	blocked         map[string]uint64
	clients         map[string]uint64
	upResp          map[string]uint64
	upTime          map[string]uint64
}

func vxC09CopyMap(m map[string]uint64) map[string]uint64 {
	c := map[string]uint64{}
	for k, v := range m {
		c[k] = v
	}
	return c
}

func vxC09Snapshot(u *unit) *vxC09Snap {
	sn := &vxC09Snap{
		nTotal:  u.nTotal,
		timeSum: u.timeSum,
		domains: vxC09CopyMap(u.domains),
		blocked: vxC09CopyMap(u.blockedDomains),
		clients: vxC09CopyMap(u.clients),
		upResp:  vxC09CopyMap(u.upstreamsResponses),
		upTime:  vxC09CopyMap(u.upstreamsTimeSum),
	}
	copy(sn.nResult[:], u.nResult)
	return sn
}

// vxC09SameMap: got equals want except that key bump (if non-empty) is delta
// higher.
func vxC09SameMap(got, want map[string]uint64, bump string, delta uint64) bool {
	ok := true
	for k, v := range want {
		g, has := got[k]
		if !has {
			return false
		}
		if k == bump {
			v += delta
		}
		ok = vx.And(ok, g == v)
	}
	for k, g := range got {
		if _, has := want[k]; !has {
			if k != bump {
				return false
			}
			ok = vx.And(ok, g == delta)
		}
	}
	return ok
}

// vxC09ArbitraryUnit: symbolic counters, one or two names in every table.
func vxC09ArbitraryUnit(id uint32) *unit {
	u := newUnit(id)
	u.nTotal = vx.Uint64("nTotal")
	u.timeSum = 0
	for i := range u.nResult {
		u.nResult[i] = vx.Uint64("nResult")
	}
	u.domains["a.example"] = vx.Uint64("dom-a")
	u.domains["b.example"] = vx.Uint64("dom-b")
	u.blockedDomains["a.example"] = vx.Uint64("blk-a")
	u.clients["192.0.2.1"] = vx.Uint64("cli-a")
	u.clients["client-b"] = vx.Uint64("cli-b")
	u.upstreamsResponses["up1"] = vx.Uint64("up1-n")
	u.upstreamsTimeSum["up1"] = vx.Uint64("up1-t")
	return u
}

func vxC09BareCtx(u *unit) *StatsCtx {
	return &StatsCtx{
		logger:            slog.Default(),
		currMu:            &sync.RWMutex{},
		confMu:            &sync.RWMutex{},
		shouldCountClient: func([]string) bool { return true },
		unitIDGen:         vxC09UnitID,
		limit:             24 * time.Hour,
		enabled:           true,
		curr:              u,
	}
}

// vxC09Step: Update on an arbitrary unit counts a valid entry exactly once, in
// exactly one category, and an invalid one not at all.
func vxC09Step() {
	vxC09Reset()
	u := vxC09ArbitraryUnit(7)
	s := vxC09BareCtx(u)
	before := vxC09Snapshot(u)

	res := vx.Int("result")
	vx.Assume(res >= 0) // categories are positive; see the notes
	e := &Entry{
		Domain:         "a.example",
		Client:         "192.0.2.1",
		Result:         Result(res),
		ProcessingTime: 7 * time.Millisecond,
	}
	counted := true
	var wantUp [2]uint64 // responses counted for up1, up2
	if vx.Choice("shape", 2) == 0 {
		// any domain / client (known, new, empty), statistics on or off
		e.Domain = []string{"a.example", "n.example", ""}[vx.Choice("domain", 3)]
		e.Client = []string{"192.0.2.1", "client-n", ""}[vx.Choice("client", 3)]
		switch vx.Choice("conf", 3) {
		case 1:
			s.enabled = false
			counted = false
		case 2:
			s.limit = 0
			counted = false
		}
	} else {
		// upstream statistics: up to two, cached or not, failed or not
		n := 1 + vx.Choice("upstreams", 2)
		for i := 0; i < n; i++ {
			us := &proxy.UpstreamStatistics{
				Address:       []string{"up1", "up2"}[vx.Choice("addr", 2)],
				QueryDuration: 3 * time.Millisecond,
				IsCached:      vx.Bool("cached"),
			}
			failed := vx.Bool("failed")
			if failed {
				us.Error = errors.Error("vx: upstream failure")
			}
			if !us.IsCached && !failed {
				if us.Address == "up1" {
					wantUp[0]++
				} else {
					wantUp[1]++
				}
			}
			e.UpstreamStats = append(e.UpstreamStats, us)
		}
	}

	s.Update(e)
	vx.Assert(s.curr == u, "Update replaces the current unit")
	vx.Assert(vx.Held(s.confMu) == 0 && vx.Held(s.currMu) == 0, "Update returns with a lock held")

	valid := vx.And(res >= 1, res <= 5) && e.Domain != "" && e.Client != ""
	if !(valid && counted) {
		vx.Reach("s-not-counted")
		ok := vx.And(u.nTotal == before.nTotal, u.timeSum == before.timeSum)
		for i := range u.nResult {
			ok = vx.And(ok, u.nResult[i] == before.nResult[i])
		}
		vx.Assert(ok, "an entry that is not counted changes the counters")
		vx.Assert(vxC09SameMap(u.domains, before.domains, "", 0), "an entry that is not counted changes the domain table")
		vx.Assert(vxC09SameMap(u.blockedDomains, before.blocked, "", 0), "an entry that is not counted changes the blocked-domain table")
		vx.Assert(vxC09SameMap(u.clients, before.clients, "", 0), "an entry that is not counted changes the client table")
		vx.Assert(vxC09SameMap(u.upstreamsResponses, before.upResp, "", 0), "an entry that is not counted changes the upstream table")
		return
	}

	vx.Reach("s-counted")
	vx.Assert(u.nTotal == before.nTotal+1, "a counted entry does not add exactly one to the total")
	ok := len(u.nResult) == int(resultLast)
	for i := range u.nResult {
		want := before.nResult[i]
		if i == res {
			want++
		}
		ok = vx.And(ok, u.nResult[i] == want)
	}
	vx.Assert(ok, "a counted entry is not added to exactly its own category")
	if res == int(RNotFiltered) {
		vx.Reach("s-not-filtered")
		vx.Assert(vxC09SameMap(u.domains, before.domains, e.Domain, 1), "a not-filtered entry is not counted once in the domain table")
		vx.Assert(vxC09SameMap(u.blockedDomains, before.blocked, "", 0), "a not-filtered entry changes the blocked-domain table")
	} else {
		vx.Reach("s-blocked")
		vx.Assert(vxC09SameMap(u.blockedDomains, before.blocked, e.Domain, 1), "a blocked entry is not counted once in the blocked-domain table")
		vx.Assert(vxC09SameMap(u.domains, before.domains, "", 0), "a blocked entry changes the domain table")
	}
	vx.Assert(vxC09SameMap(u.clients, before.clients, e.Client, 1), "a counted entry is not counted once in the client table")
	if wantUp[0] > 0 || wantUp[1] > 0 {
		vx.Reach("s-upstream")
	}
	if len(e.UpstreamStats) > 0 && wantUp[0] == 0 && wantUp[1] == 0 {
		vx.Reach("s-upstream-skipped")
	}
	wantResp := vxC09CopyMap(before.upResp)
	wantResp["up1"] += wantUp[0]
	if wantUp[1] > 0 {
		wantResp["up2"] += wantUp[1]
	}
	vx.Assert(vxC09SameMap(u.upstreamsResponses, wantResp, "", 0), "upstream responses are not counted once per successful uncached exchange")
}

// vxC09Codec: what is written at an hour roll or at shutdown is what is read
// back: all counters the API reports survive serialize -> store -> load ->
// deserialize (the processing-time sum is stored as an average: excluded).
func vxC09Codec() {
	vxC09Reset()
	vxC09Env.clock = vxC09BaseHour
	u := vxC09ArbitraryUnit(vxC09BaseHour)
	before := vxC09Snapshot(u)
	s := vxC09BareCtx(u)
	s.filename = vxC09File0
	vx.Assert(s.openDB() == nil, "opening the database fails")

	db := s.db.Load()
	tx, err := db.Begin(true)
	vx.Assert(err == nil, "begin fails")
	err = s.flushUnitToDB(u.serialize(), tx, u.id)
	vx.Assert(err == nil, "flushing a unit fails")
	vx.Assert(finishTxn(tx, true) == nil, "commit fails")

	tx, err = db.Begin(true)
	vx.Assert(err == nil, "begin fails")
	vx.Assert(s.loadUnitFromDB(tx, u.id+1) == nil, "a unit is loaded from an hour that was never written")
	udb := s.loadUnitFromDB(tx, u.id)
	vx.Assert(finishTxn(tx, false) == nil, "rollback fails")
	vx.Assert(udb != nil, "the unit written is not found")
	if udb == nil {
		return
	}
	got := newUnit(u.id)
	got.deserialize(udb)
	vx.Reach("c-roundtrip")

	ok := vx.And(got.nTotal == before.nTotal, len(got.nResult) == int(resultLast))
	for i := range got.nResult {
		ok = vx.And(ok, got.nResult[i] == before.nResult[i])
	}
	vx.Assert(ok, "totals change in a store/load round trip")
	vx.Assert(vxC09SameMap(got.domains, before.domains, "", 0), "domain table changes in a store/load round trip")
	vx.Assert(vxC09SameMap(got.blockedDomains, before.blocked, "", 0), "blocked-domain table changes in a store/load round trip")
	vx.Assert(vxC09SameMap(got.clients, before.clients, "", 0), "client table changes in a store/load round trip")
	vx.Assert(vxC09SameMap(got.upstreamsResponses, before.upResp, "", 0), "upstream table changes in a store/load round trip")
	vx.Assert(vxC09SameMap(got.upstreamsTimeSum, before.upTime, "", 0), "upstream time table changes in a store/load round trip")
}

// ---------------------------------------------------------------------------
// Aggregation: dataFromUnits on symbolic units.
// ---------------------------------------------------------------------------

// vxC09SymUnit: a stored unit with symbolic counters below 2^40 (no 64-bit
// wrap in the sums).
func vxC09SymUnit() *unitDB {
	u := &unitDB{NResult: make([]uint64, resultLast)}
	u.NTotal = vx.Uint64("n")
	bound := u.NTotal
	for c := RNotFiltered; c < resultLast; c++ {
		u.NResult[c] = vx.Uint64("r")
		bound |= u.NResult[c]
	}
	vx.Assume(bound < 1<<40)
	return u
}

// vxC09Aggregate: hourly series add up to the totals; daily series never
// exceed them and contain the most recent hours.
func vxC09Aggregate() {
	vxC09Reset()
	s := vxC09BareCtx(newUnit(0))

	var limit, nsym int
	daily := vx.Choice("mode", 2) == 1
	if daily {
		limit = []int{192, 720}[vx.Choice("limit", 2)]
		nsym = 4
	} else {
		limit = []int{1, 24, 191}[vx.Choice("limit", 3)]
		nsym = 24
	}
	if vx.Thorough() {
		if daily {
			nsym = 6
		} else {
			nsym = 48
		}
	}
	curID := vx.Uint32("curID")
	vx.Assume(curID >= 10000)

	// symbolic units: the most recent hours, the oldest hours, and the hours
	// around the place where the daily series starts; the others are empty
	units := make([]*unitDB, limit)
	for i := range units {
		j := limit - 1 - i
		// the first day of the series ends after the unit 23 or earlier
		edge := daily && (i == 23 || i == 24) && vx.Thorough()
		if j < nsym/2 || i < nsym/2 || edge {
			units[i] = vxC09SymUnit()
		} else {
			units[i] = &unitDB{NResult: make([]uint64, resultLast)}
		}
	}

	resp := s.dataFromUnits(units, curID)

	var total, blk, sb, ss, par uint64
	for _, u := range units {
		total += u.NTotal
		blk += u.NResult[RFiltered]
		sb += u.NResult[RSafeBrowsing]
		ss += u.NResult[RSafeSearch]
		par += u.NResult[RParental]
	}
	ok := vx.And(resp.NumDNSQueries == total, resp.NumBlockedFiltering == blk)
	ok = vx.And(ok, vx.And(resp.NumReplacedSafebrowsing == sb, resp.NumReplacedSafesearch == ss))
	ok = vx.And(ok, resp.NumReplacedParental == par)
	vx.Assert(ok, "totals are not the sums over the units of the window")

	if !daily {
		vx.Reach("a-hourly")
		vx.Assert(resp.TimeUnits == timeUnitsHours && len(resp.DNSQueries) == limit, "hourly series has the wrong shape")
		cells := true
		for i, u := range units {
			cells = vx.And(cells, vx.And(resp.DNSQueries[i] == u.NTotal, resp.BlockedFiltering[i] == u.NResult[RFiltered]))
			cells = vx.And(cells, vx.And(resp.ReplacedSafebrowsing[i] == u.NResult[RSafeBrowsing], resp.ReplacedParental[i] == u.NResult[RParental]))
		}
		vx.Assert(cells, "an hourly cell is not the count of its hour")
		sums := vx.And(vxC09Sum(resp.DNSQueries) == resp.NumDNSQueries, vxC09Sum(resp.BlockedFiltering) == resp.NumBlockedFiltering)
		sums = vx.And(sums, vx.And(vxC09Sum(resp.ReplacedSafebrowsing) == resp.NumReplacedSafebrowsing, vxC09Sum(resp.ReplacedParental) == resp.NumReplacedParental))
		vx.Assert(sums, "hourly series do not add up to the totals")
		return
	}

	vx.Reach("a-daily")
	days := limit / 24
	vx.Assert(resp.TimeUnits == timeUnitsDays && len(resp.DNSQueries) == days, "daily series has the wrong shape")
	if len(resp.DNSQueries) != days {
		return
	}
	sumQ := vxC09Sum(resp.DNSQueries)
	le := vx.And(sumQ <= resp.NumDNSQueries, vxC09Sum(resp.BlockedFiltering) <= resp.NumBlockedFiltering)
	le = vx.And(le, vx.And(vxC09Sum(resp.ReplacedSafebrowsing) <= resp.NumReplacedSafebrowsing, vxC09Sum(resp.ReplacedParental) <= resp.NumReplacedParental))
	vx.Assert(le, "daily series exceed the totals")
	// the series covers at least the last (days-1)*24+1 hours and at most the
	// last days*24 hours
	var atLeast, atMost uint64
	for i, u := range units {
		if i >= limit-((days-1)*24+1) {
			atLeast += u.NTotal
		}
		if i >= limit-days*24 {
			atMost += u.NTotal
		}
	}
	vx.Assert(vx.And(atLeast <= sumQ, sumQ <= atMost), "daily series does not cover the most recent days")
	vx.Assert(resp.DNSQueries[days-1] >= units[limit-1].NTotal, "the last day does not contain the current hour")
	if sumQ < resp.NumDNSQueries {
		vx.Reach("a-daily-partial")
	}
}
