//go:build verif

package querylog

// C05 (restricted) — lock discipline of querylog.queryLog: buffer under
// bufferLock; conf under confMu.
//
//vx:overlay internal/querylog/zz_vx_c05.go
//vx:entry vxC05QueryLog reach=guarded-access
//vx:stub (*github.com/AdguardTeam/AdGuardHome/internal/aghnet.IgnoreEngine).Has vxC05QIgnoreHas
//vx:stub time.Now vxC05QNow
//vx:stub (*github.com/AdguardTeam/AdGuardHome/internal/querylog.queryLog).searchFiles vxC05QSearchFiles
//vx:opaque (net.IP).String
//vx:stub (*encoding/json.Decoder).Decode vxC05QJSONDecode
//vx:stub github.com/AdguardTeam/AdGuardHome/internal/aghhttp.WriteJSONResponse vxC05QWriteJSON
//vx:stub github.com/AdguardTeam/AdGuardHome/internal/aghnet.NewIgnoreEngine vxC05QNewIgnore
//vx:stub os.Remove vxC05QRemove

import (
	"context"
	"encoding/json"
	"log/slog"
	"net"
	"net/http"
	"sync"
	"time"

	"github.com/AdguardTeam/AdGuardHome/internal/aghalg"
	"github.com/AdguardTeam/AdGuardHome/internal/aghnet"
	"github.com/AdguardTeam/AdGuardHome/internal/filtering"
	"github.com/AdguardTeam/AdGuardHome/internal/vx"
	"github.com/AdguardTeam/golibs/container"
	"github.com/miekg/dns"
)

func vxC05QIgnoreHas(e *aghnet.IgnoreEngine, host string) bool { return false }
// vxC05QSearchFiles: the on-disk part of a search touches no shared in-memory state.
func vxC05QSearchFiles(l *queryLog, ctx context.Context, params *searchParams, cache clientCache) ([]*logEntry, time.Time, int) {
	return nil, time.Time{}, 0
}

func vxC05QNow() time.Time                                     { return time.Unix(1_700_000_000, 0) }

// vxC05QJSONDecode stands for the JSON decoder of the admin API: a fixed valid
// configuration request.
func vxC05QJSONDecode(dec *json.Decoder, v any) error {
	switch r := v.(type) {
	case *getConfigResp:
		r.Interval = 86_400_000
		r.Enabled = aghalg.NBTrue
		r.AnonymizeClientIP = aghalg.NBFalse
	case *configJSON:
		r.Interval = 1
		r.Enabled = aghalg.NBTrue
		r.AnonymizeClientIP = aghalg.NBTrue
	}
	return nil
}

func vxC05QWriteJSON(w http.ResponseWriter, r *http.Request, code int, resp any) {}
func vxC05QNewIgnore(ignored []string) (*aghnet.IgnoreEngine, error)        { return &aghnet.IgnoreEngine{}, nil }
func vxC05QRemove(name string) error                                        { return nil }

type vxC05QWriter struct{ h http.Header }

func (w *vxC05QWriter) Header() http.Header         { return w.h }
func (w *vxC05QWriter) Write(b []byte) (int, error) { return len(b), nil }
func (w *vxC05QWriter) WriteHeader(code int)        {}

func vxC05QueryLog() {
	l := &queryLog{
		logger: slog.Default(),
		confMu: &sync.RWMutex{},
		conf: &Config{
			Enabled: true, FileEnabled: false, MemSize: 4, RotationIvl: 24 * time.Hour,
			Ignored: &aghnet.IgnoreEngine{},
		},
		anonymizer: aghnet.NewIPMut(nil),
		findClient: func(ids []string) (*Client, error) { return nil, nil },
		buffer:     container.NewRingBuffer[*logEntry](4),
	}
	l.conf.ConfigModified = func() {
		saved := Config{}
		l.WriteDiskConfig(&saved)
	}
	vx.Guard(&l.buffer, &l.bufferLock, "querylog.queryLog.buffer")
	vx.Guard(&l.conf, l.confMu, "querylog.queryLog.conf")

	req := &dns.Msg{}
	req.Question = []dns.Question{{Name: "example.org.", Qtype: dns.TypeA, Qclass: dns.ClassINET}}
	w := &vxC05QWriter{h: http.Header{}}
	r := (&http.Request{Method: http.MethodPut, Header: http.Header{"Content-Type": {"application/json"}}, Body: http.NoBody}).WithContext(context.Background())
	switch vx.Choice("op", 9) {
	case 4: // admin: new configuration API
		l.handlePutQueryLogConfig(w, r)
	case 5: // admin: old configuration API
		l.handleQueryLogConfig(w, r)
	case 6: // admin: read the configuration
		l.handleGetQueryLogConfig(w, r)
	case 7:
		l.handleQueryLogInfo(w, r)
	case 8: // admin: clear the log
		l.handleQueryLogClear(w, r)
	case 0: // request path
		l.ShouldLog("example.org", dns.TypeA, dns.ClassINET, []string{"1.2.3.4"})
	case 1: // request path
		l.Add(&AddParams{Question: req, Answer: (&dns.Msg{}).SetReply(req), Result: &filtering.Result{}, ClientIP: net.IP{1, 2, 3, 4}})
	case 2: // API: search over memory (the handler holds confMu for reading)
		l.confMu.RLock()
		l.search(context.Background(), newSearchParams())
		l.confMu.RUnlock()
	default: // admin
		c := Config{}
		l.WriteDiskConfig(&c)
	}
	if vx.GuardHits() > 0 {
		vx.Reach("guarded-access")
	}
	vx.Assert(vx.Held(&l.bufferLock) == 0 && vx.Held(l.confMu) == 0, "locks are released on return")
}
