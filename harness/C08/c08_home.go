//go:build verif

package home

// C08 — a persistent client marked "ignore" is never recorded, whatever
// identifies it (address, CIDR, MAC, ClientID), with anonymisation on or off.
//
//vx:overlay internal/home/zz_vx_c08.go
//vx:entry vxC08Clients reach=by-ip,by-cidr,by-mac,by-clientid,stranger,ignored-log,ignored-stats,recorded,anonymised
//vx:entry vxC08ClientsAnonymised reach=by-ip,by-cidr,by-mac,recorded,anonymised
//vx:note ClientsAnonymised entry = the same with anonymisation on and the client identified by its full address, its lease's MAC or a CIDR narrower than the anonymisation mask (input class of known finding C08-anonymised-lookup-misses-client); Clients covers every other combination
//vx:note Clients entry: the real clients container callbacks (findMultiple, clientOrArtificial, shouldCountClient) over the real client.Storage / index holding one persistent client, wired into the real query log, statistics context and dnsforward log/statistics stage. Concrete representative client addresses (192.168.1.7, 2001:db8:1:2:3:4:5:6, ::ffff:192.168.1.7), client identified by that address / a covering CIDR (/24 resp. /64, or /16 resp. /48) / the MAC of its DHCP lease (v4 only) / a ClientID, or a stranger; ignore_querylog, ignore_statistics and anonymisation symbolic
//vx:note outside: DHCP lease table (MACByIP is a one-lease fake), runtime clients (none), access-list check of the client (fake: not blocked)

import (
	"context"
	"log/slog"
	"net"
	"net/netip"

	"github.com/AdguardTeam/AdGuardHome/internal/aghnet"
	"github.com/AdguardTeam/AdGuardHome/internal/client"
	"github.com/AdguardTeam/AdGuardHome/internal/dhcpsvc"
	"github.com/AdguardTeam/AdGuardHome/internal/dnsforward"
	"github.com/AdguardTeam/AdGuardHome/internal/filtering"
	"github.com/AdguardTeam/AdGuardHome/internal/querylog"
	"github.com/AdguardTeam/AdGuardHome/internal/stats"
	"github.com/AdguardTeam/AdGuardHome/internal/vx"
	"github.com/AdguardTeam/golibs/timeutil"
	"github.com/miekg/dns"
)

type vxC08DHCP struct {
	ip  netip.Addr
	mac net.HardwareAddr
}

func (d vxC08DHCP) Leases() []*dhcpsvc.Lease        { return nil }
func (d vxC08DHCP) HostByIP(ip netip.Addr) string   { return "" }
func (d vxC08DHCP) MACByIP(ip netip.Addr) net.HardwareAddr {
	if d.mac != nil && ip == d.ip {
		return d.mac
	}
	return nil
}

type vxC08Checker struct{}

func (vxC08Checker) IsBlockedClient(ip netip.Addr, clientID string) (bool, string) { return false, "" }

func vxC08Clients() { vxC08ClientsRun(false) }

func vxC08ClientsAnonymised() { vxC08ClientsRun(true) }

func vxC08ClientsRun(knownClass bool) {
	aghnet.VxC08Reset()
	ctx := context.Background()

	addrs := []netip.Addr{
		netip.AddrFrom4([4]byte{192, 168, 1, 7}),
		netip.AddrFrom16([16]byte{0x20, 0x01, 0x0d, 0xb8, 0, 1, 0, 2, 0, 3, 0, 4, 0, 5, 0, 6}),
		netip.AddrFrom16([16]byte{10: 0xff, 11: 0xff, 12: 192, 13: 168, 14: 1, 15: 7}),
	}
	form := vx.Choice("addrForm", 3)
	addr := addrs[form]
	plain := addr.Unmap() // how the administrator writes the address
	clientID := ""
	if vx.Bool("hasClientID") {
		clientID = "kid-phone"
	}
	anon := vx.Bool("anonymize")
	ignoreQ := vx.Bool("ignoreQueryLog")
	ignoreS := vx.Bool("ignoreStatistics")

	p := &client.Persistent{
		Name:             "kid",
		UID:              client.UID{1},
		BlockedServices:  &filtering.BlockedServices{},
		IgnoreQueryLog:   ignoreQ,
		IgnoreStatistics: ignoreS,
	}
	dhcp := vxC08DHCP{}
	kind := vx.Choice("identifiedBy", 6)
	// identifiers derived from the full address: the address itself, a CIDR
	// narrower than the anonymisation mask, the MAC of its DHCP lease
	narrow := kind == 1 || kind == 2 || kind == 4
	vx.Assume(knownClass == (anon && narrow))
	wide := false
	switch kind {
	case 0:
		// a stranger: the only persistent client is somebody else
		p.IPs = []netip.Addr{netip.AddrFrom4([4]byte{10, 9, 8, 7})}
		vx.Reach("stranger")
	case 1:
		p.IPs = []netip.Addr{plain}
		vx.Reach("by-ip")
	case 2, 3:
		wide = kind == 3
		bits := 24
		if plain.Is6() {
			bits = 64
		}
		if wide {
			bits = 16
			if plain.Is6() {
				bits = 48
			}
		}
		p.Subnets = []netip.Prefix{netip.PrefixFrom(plain, bits).Masked()}
		vx.Reach("by-cidr")
	case 4:
		vx.Assume(plain.Is4())
		mac := net.HardwareAddr{0xaa, 0xbb, 0xcc, 0x01, 0x02, 0x03}
		p.MACs = []net.HardwareAddr{mac}
		dhcp = vxC08DHCP{ip: plain, mac: mac}
		vx.Reach("by-mac")
	default:
		vx.Assume(clientID != "")
		p.ClientIDs = []string{clientID}
		vx.Reach("by-clientid")
	}

	storage, err := client.NewStorage(ctx, &client.StorageConfig{
		Logger:         slog.Default(),
		Clock:          timeutil.SystemClock{},
		DHCP:           dhcp,
		InitialClients: []*client.Persistent{p},
	})
	vx.Assert(err == nil, "client storage accepts the persistent client")
	if err != nil {
		return
	}
	clients := &clientsContainer{baseLogger: slog.Default(), storage: storage, clientChecker: vxC08Checker{}, testing: true}

	// the anonymiser as the real configuration builds it
	cfg := &configuration{}
	cfg.DNS.AnonymizeClientIP = anon
	anonymizer := cfg.anonymizer()
	ql := querylog.VxC08New(clients.findMultiple, nil, anonymizer)
	st := stats.VxC08New(nil, clients.shouldCountClient)

	dnsforward.VxC08Process(ql, st, anonymizer, false, addr, clientID, "example.org.", dns.TypeA)

	stored := querylog.VxC08Stored(ql)
	total, names, _ := stats.VxC08Counted(st)

	// the administrator's view: these identifiers denote the querying client
	identified := kind != 0
	// Known deviation: with anonymisation on the client is looked up by its
	// anonymised address, so identifiers derived from the full address (the
	// address itself, its DHCP lease's MAC, a CIDR narrower than the
	// anonymisation mask) no longer find it.
	vx.Known("C08-anonymised-lookup-misses-client", vx.And(anon, narrow))
	vx.Assert(vx.Implies(vx.And(identified, ignoreQ), len(stored) == 0), "a query of a persistent client with ignore_querylog is not logged")
	vx.Assert(vx.Implies(vx.And(identified, ignoreS), total == 0 && len(names) == 0), "a query of a persistent client with ignore_statistics is not counted")
	if identified {
		if len(stored) == 0 && ignoreQ {
			vx.Reach("ignored-log")
		}
		if total == 0 && ignoreS {
			vx.Reach("ignored-stats")
		}
	}
	if len(stored) == 1 && total == 1 {
		vx.Reach("recorded")
		if anon {
			vx.Reach("anonymised")
			vx.Assert(querylog.VxC08Masked(stored[0].IP), "anonymisation on: the stored log address has its last 16 / 80 bits zeroed")
			if len(names) == 1 && names[0] != clientID {
				ip, perr := netip.ParseAddr(names[0])
				vx.Assert(perr == nil, "the statistics client is the ClientID or the text of an address")
				if perr == nil {
					b := ip.AsSlice()
					vx.Assert(querylog.VxC08Masked(b), "anonymisation on: the address kept by the statistics has its last 16 / 80 bits zeroed")
				}
			}
		}
	}
}
