//go:build verif

package filtering

// C14 — a downloaded filter list replaces its file atomically.
//
//vx:overlay internal/filtering/zz_vx_c14.go
//vx:entry vxC14Filter reach=crashed,saved,save-failed
//vx:stub (*github.com/AdguardTeam/AdGuardHome/internal/filtering.DNSFilter).reader vxC14Reader
//vx:stub time.Now vxC14Now
//vx:stub hash/crc32.Update vxC14CRC

import (
	"hash/crc32"
	"io"
	"sync"
	"time"

	"github.com/AdguardTeam/AdGuardHome/internal/aghrenameio"
	"github.com/AdguardTeam/AdGuardHome/internal/filtering/rulelist"
	"github.com/AdguardTeam/AdGuardHome/internal/vx"
	"github.com/AdguardTeam/golibs/syncutil"
)

// vxC14CRC: the checksum is an arbitrary value (it only decides whether the
// list counts as changed; both outcomes are explored).
func vxC14CRC(crc uint32, tab *crc32.Table, p []byte) uint32 { return vx.Uint32("crc") }

func vxC14Now() time.Time { return time.Unix(1_700_000_000, 0) }

// vxC14Body serves the list body in two chunks; the transfer may break after
// the first chunk.
type vxC14Body struct {
	chunks [][]byte
	fail   bool
	i      int
}

func (b *vxC14Body) Read(p []byte) (int, error) {
	if b.i >= len(b.chunks) {
		return 0, io.EOF
	}
	if b.i == 1 && b.fail {
		return 0, io.ErrUnexpectedEOF
	}
	n := copy(p, b.chunks[b.i])
	b.i++
	return n, nil
}

func (b *vxC14Body) Close() error { return nil }

var vxC14TheBody *vxC14Body

func vxC14Reader(d *DNSFilter, url string) (io.ReadCloser, error) { return vxC14TheBody, nil }

func vxC14Filter() {
	const dataDir = "/data"
	flt := &FilterYAML{URL: "https://lists.example/1.txt", Filter: Filter{ID: 7}}
	flt.Enabled = true
	dest := flt.Path(dataDir)
	hasOld := vx.Bool("hasOldVersion")
	old := []byte("||old^\n")
	// the list served now: two rules whose first bytes are symbolic
	r1 := append(vx.Bytes("rule1", 1), []byte("a^\n")...)
	r2 := append(vx.Bytes("rule2", 1), []byte("b^\n")...)
	for _, c := range []byte{r1[0], r2[0]} {
		// a rule character (not a comment, blank or control byte)
		vx.Assume(c >= 'a' && c <= 'z')
	}
	vxC14TheBody = &vxC14Body{chunks: [][]byte{r1, r2}, fail: vx.Bool("transferBreaks")}
	complete := append(append([]byte(nil), r1...), r2...)
	aghrenameio.VxC14Init(dest, old, hasOld, func() [][]byte { return [][]byte{complete} })

	d := &DNSFilter{confMu: &sync.RWMutex{}, conf: &Config{DataDir: dataDir}, bufPool: syncutil.NewSlicePool[byte](rulelist.DefaultRuleBufSize)}
	var err error
	updated := false
	func() {
		defer func() {
			if r := recover(); r != nil {
				if _, ok := r.(aghrenameio.VxC14Crash); !ok {
					panic(r)
				}
				vx.Assume(false)
			}
		}()
		updated, err = d.update(flt)
	}()
	// content with an unchanged checksum is not rewritten
	aghrenameio.VxC14Finish(err, "filter list file", updated)
}
