//go:build verif

package dnsforward

// C08 — ignored names/clients and un-anonymised addresses never reach the query
// log or the statistics.
//
//vx:native
//vx:overlay internal/dnsforward/zz_vx_c08.go
//vx:entry vxC08Record reach=logged,counted,log-only,stats-only,neither,any-refused,name-ignored-log,name-ignored-stats,client-ignored-log,client-ignored-stats,masked-v4,plain,clientid-counted,address-counted
//vx:entry vxC08Anonymise reach=logged,counted,masked-v4,masked-v6,masked-4in6,plain,clientid-counted,address-counted
//vx:entry vxC08NameCase reach=spelling-ignored,spelling-recorded,root-ignored
//vx:note Record entry: the real (*Server).processQueryLogsAndStats with the real query log (ShouldLog, Add, memory buffer, API search + JSON conversion) and the real statistics context (ShouldCount, Update, unit.add). Client address v4 / v6 / 4-in-6 with all bytes symbolic; ClientID present/absent; anonymisation on/off (the real AnonymizeIP through the real IPMut); question type symbolic x RefuseAny; separate symbolic ignore verdicts of the two engines; one persistent client record none / identified by ClientID / identified by a CIDR covering the /16 (v4) resp. /48 (v6) of the address, with symbolic ignore_querylog and ignore_statistics
//vx:note NameCase entry: ignore verdict holds for the canonical lower-case dot-less spelling only (as the case-sensitive rule engine); the query arrives with each of 5 letters independently upper/lower case and with or without the trailing dot; also the root name "."
//vx:note outside: ignore-list syntax -> verdict; querylog.json / stats.db encoders; clients identified by an exact address or MAC are exercised in the home entry with the real client storage

import (
	"net/netip"
	"time"

	"github.com/AdguardTeam/AdGuardHome/internal/aghnet"
	"github.com/AdguardTeam/AdGuardHome/internal/filtering"
	"github.com/AdguardTeam/AdGuardHome/internal/querylog"
	"github.com/AdguardTeam/AdGuardHome/internal/stats"
	"github.com/AdguardTeam/AdGuardHome/internal/vx"
	"github.com/AdguardTeam/dnsproxy/proxy"
	"github.com/miekg/dns"
)

// VxC08Process runs the real log/statistics stage for one answered query.
func VxC08Process(ql querylog.QueryLog, st stats.Interface, anonymizer *aghnet.IPMut, refuseAny bool, addr netip.Addr, clientID, name string, qtype uint16) {
	req := &dns.Msg{}
	req.Id = 1
	req.Question = []dns.Question{{Name: name, Qtype: qtype, Qclass: dns.ClassINET}}
	pctx := &proxy.DNSContext{Proto: proxy.ProtoUDP, Req: req, Addr: netip.AddrPortFrom(addr, 5353), RequestID: 9}
	if clientID != "" {
		pctx.Proto = proxy.ProtoTLS
	}
	s := &Server{anonymizer: anonymizer, queryLog: ql, stats: st}
	s.conf.RefuseAny = refuseAny
	dctx := &dnsContext{
		proxyCtx:  pctx,
		result:    &filtering.Result{},
		clientID:  clientID,
		startTime: time.Unix(aghnet.VxC08Clock-1, 0).UTC(),
	}
	rc := s.processQueryLogsAndStats(dctx)
	vx.Assert(rc == resultCodeSuccess, "the stage succeeds")
	vx.Assert(vx.Held(&s.serverLock) == 0, "server lock released")
}

// vxC08ClientAddr: form 0 = v4, 1 = v6 (not 4-in-6), 2 = 4-in-6.
func vxC08ClientAddr(form int) (netip.Addr, []byte) {
	switch form {
	case 0:
		var b [4]byte
		copy(b[:], vx.Bytes("client4", 4))
		return netip.AddrFrom4(b), b[:]
	case 1:
		var b [16]byte
		copy(b[:], vx.Bytes("client6", 16))
		vx.Assume(!(b[10] == 0xff && b[11] == 0xff && b[0]|b[1]|b[2]|b[3]|b[4]|b[5]|b[6]|b[7]|b[8]|b[9] == 0))
		return netip.AddrFrom16(b), b[:]
	default:
		var b [16]byte
		b[10], b[11] = 0xff, 0xff
		copy(b[12:], vx.Bytes("client4in6", 4))
		return netip.AddrFrom16(b), b[:]
	}
}

// vxC08SameNet: the presented address text denotes an address in the same /16
// (v4, 4-in-6) resp. /48 (v6) as the raw client address.
func vxC08SameNet(id string, raw []byte, form int) bool {
	b := aghnet.VxC08TokenBytes(id)
	if b == nil || len(b) != len(raw) {
		return false
	}
	n := []int{2, 6, 14}[form]
	same := true
	for i := 0; i < n; i++ {
		same = vx.And(same, b[i] == raw[i])
	}
	return same
}

const vxC08CID = "cli-1"

// vxC08Record: every ignore decision; the client address is v4 in the quick
// tier, any of the three forms in the thorough tier.
func vxC08Record() { vxC08Run(true) }

// vxC08Anonymise: nothing is ignored; the three address forms.
func vxC08Anonymise() { vxC08Run(false) }

func vxC08Run(decisions bool) {
	aghnet.VxC08Reset()
	form := 0
	if !decisions || vx.Thorough() {
		form = vx.Choice("addrForm", 3)
	}
	addr, raw := vxC08ClientAddr(form)
	clientID := ""
	if vx.Bool("hasClientID") {
		clientID = vxC08CID
	}
	anon := vx.Bool("anonymize")
	refuseAny, qtype := false, dns.TypeA
	logNameIgnored, statsNameIgnored := false, false
	kind, ignoreQ, ignoreS := 0, false, false
	if decisions {
		refuseAny = vx.Bool("refuseAny")
		qtype = vx.Uint16("qtype")
		logNameIgnored = vx.Bool("nameOnLogIgnoreList")
		statsNameIgnored = vx.Bool("nameOnStatsIgnoreList")
		// the persistent client record
		kind = vx.Choice("clientRecord", 3) // 0 none, 1 by ClientID, 2 by covering CIDR
		ignoreQ = vx.Bool("ignoreQueryLog")
		ignoreS = vx.Bool("ignoreStatistics")
	}
	if kind == 1 {
		vx.Assume(clientID != "")
	}

	match := func(ids []string) bool {
		for _, id := range ids {
			switch kind {
			case 1:
				if id == vxC08CID {
					return true
				}
			case 2:
				if vxC08SameNet(id, raw, form) {
					return true
				}
			}
		}
		return false
	}
	findClient := func(ids []string) (*querylog.Client, error) {
		if match(ids) {
			return &querylog.Client{Name: "kid", IgnoreQueryLog: ignoreQ}, nil
		}
		// an artificial record, as the clients container returns for strangers
		return &querylog.Client{}, nil
	}
	shouldCountClient := func(ids []string) bool {
		if match(ids) {
			return !ignoreS
		}
		return true
	}

	logEngine, statsEngine := &aghnet.IgnoreEngine{}, &aghnet.IgnoreEngine{}
	const canon = "ignored.example.org"
	aghnet.VxC08Verdict = func(e *aghnet.IgnoreEngine, host string) bool {
		if host != canon {
			return false
		}
		if e == logEngine {
			return logNameIgnored
		}
		return statsNameIgnored
	}
	anonymizer := aghnet.NewIPMut(nil)
	if anon {
		anonymizer.Store(querylog.AnonymizeIP)
	}
	ql := querylog.VxC08New(findClient, logEngine, anonymizer)
	st := stats.VxC08New(statsEngine, shouldCountClient)

	VxC08Process(ql, st, anonymizer, refuseAny, addr, clientID, "Ignored.Example.ORG.", qtype)

	// ---- reference ----
	clientKnown := kind != 0
	anyRefused := vx.And(qtype == dns.TypeANY, refuseAny)

	stored := querylog.VxC08Stored(ql)
	total, clients, domains := stats.VxC08Counted(st)

	notLogged := len(stored) == 0
	notCounted := total == 0 && len(clients) == 0 && len(domains) == 0
	vx.Assert(vx.Implies(logNameIgnored, notLogged), "a name on the query-log ignore list is not logged")
	vx.Assert(vx.Implies(vx.And(clientKnown, ignoreQ), notLogged), "a query of a client with ignore_querylog is not logged")
	vx.Assert(vx.Implies(anyRefused, notLogged), "a refused ANY query is not logged")
	vx.Assert(vx.Implies(statsNameIgnored, notCounted), "a name on the statistics ignore list is not counted")
	vx.Assert(vx.Implies(vx.And(clientKnown, ignoreS), notCounted), "a query of a client with ignore_statistics is not counted")
	if notLogged {
		if logNameIgnored {
			vx.Reach("name-ignored-log")
		}
		if vx.And(clientKnown, ignoreQ) {
			vx.Reach("client-ignored-log")
		}
		if anyRefused {
			vx.Reach("any-refused")
		}
	}
	if notCounted {
		if statsNameIgnored {
			vx.Reach("name-ignored-stats")
		}
		if vx.And(clientKnown, ignoreS) {
			vx.Reach("client-ignored-stats")
		}
	}
	vx.Assert(len(stored) <= 1 && total <= 1, "at most one record per query")
	if len(stored) == 1 {
		vx.Reach("logged")
		if total == 0 {
			vx.Reach("log-only")
		}
		ip := stored[0].IP
		vx.Assert(len(ip) == len(raw), "stored address has the family of the client address")
		if anon {
			vx.Assert(querylog.VxC08Masked(ip), "anonymisation on: the stored log address has its last 16 / 80 bits zeroed")
			switch form {
			case 0:
				vx.Reach("masked-v4")
			case 1:
				vx.Reach("masked-v6")
			default:
				vx.Reach("masked-4in6")
			}
		} else {
			vx.Reach("plain")
		}
		// what the API reports for it
		for _, r := range querylog.VxC08Report(ql) {
			if anon {
				vx.Assert(querylog.VxC08Masked(r.IP), "anonymisation on: the reported log address has its last 16 / 80 bits zeroed")
			}
		}
	}
	if total == 1 {
		vx.Reach("counted")
		if len(stored) == 0 {
			vx.Reach("stats-only")
		}
		vx.Assert(len(clients) == 1, "one client name per counted query")
		if len(clients) == 1 {
			if clients[0] == clientID {
				vx.Reach("clientid-counted")
			} else {
				vx.Reach("address-counted")
				b := aghnet.VxC08TokenBytes(clients[0])
				vx.Assert(b != nil, "the statistics client is the ClientID or the text of an address")
				if b != nil && anon {
					vx.Assert(querylog.VxC08Masked(b), "anonymisation on: the address kept by the statistics has its last 16 / 80 bits zeroed")
				}
			}
		}
	}
	if len(stored) == 0 && total == 0 {
		vx.Reach("neither")
	}
}

func vxC08NameCase() {
	aghnet.VxC08Reset()
	const canon = "ad.example.org"
	root := vx.Bool("rootName")
	ignored := vx.Bool("onBothIgnoreLists")
	want := canon
	name := []byte("ad.example.org")
	if root {
		want = "."
		name = []byte(".")
	} else {
		for _, i := range []int{0, 1, 3, 9, 13} {
			if vx.Bool("upper") {
				name[i] -= 'a' - 'A'
			}
		}
		if vx.Bool("trailingDot") {
			name = append(name, '.')
		}
	}
	aghnet.VxC08Verdict = func(e *aghnet.IgnoreEngine, host string) bool {
		return host == want && ignored
	}
	anonymizer := aghnet.NewIPMut(nil)
	ql := querylog.VxC08New(nil, &aghnet.IgnoreEngine{}, anonymizer)
	st := stats.VxC08New(&aghnet.IgnoreEngine{}, func([]string) bool { return true })
	VxC08Process(ql, st, anonymizer, false, netip.AddrFrom4([4]byte{192, 168, 1, 7}), "", string(name), dns.TypeA)
	stored := querylog.VxC08Stored(ql)
	total, _, domains := stats.VxC08Counted(st)
	if ignored {
		vx.Reach("spelling-ignored")
		if root {
			vx.Reach("root-ignored")
		}
		vx.Assert(len(stored) == 0, "an ignored name is not logged in any letter case, with or without trailing dot")
		vx.Assert(total == 0 && len(domains) == 0, "an ignored name is not counted in any letter case, with or without trailing dot")
	} else if len(stored) == 1 && total == 1 {
		vx.Reach("spelling-recorded")
	}
}
