//go:build verif

package querylog

// C20 — query-log files are read backwards completely; timestamp seeks land
// on the entry.
//
// The real qLogFile / qLogReader code runs against an in-memory file model
// (stubs of the five *os.File methods it uses).  The two size constants are
// scaled down (every other line of the package is the real code): with
// maxEntrySize = 4 and bufferSize = 2*maxEntrySize a file of a few lines
// already needs several buffer re-initialisations and probe windows that
// start inside the file, and lines end at every position relative to them.
//
//vx:overlay internal/querylog/zz_vx_c20.go
//vx:const internal/querylog/qlogfile.go maxEntrySize 4
//vx:const internal/querylog/qlogfile.go bufferSize 2*maxEntrySize
//vx:stub (*os.File).Stat vxC20Stat
//vx:stub (*os.File).Seek vxC20Seek
//vx:stub (*os.File).Read vxC20Read
//vx:stub (*os.File).Close vxC20Close
//vx:stub (*os.File).Name vxC20Name
//vx:stub github.com/AdguardTeam/AdGuardHome/internal/querylog.readQLogTimestamp vxC20Timestamp
//vx:native
//vx:entry vxC20ReadAll reach=one-file,two-files,empty-file,rebuffered,eof
//vx:entry vxC20FileSeek reach=found,not-found,too-early,too-late,probe-window-inside,rebuffered-after-seek
//vx:entry vxC20ReaderSeek reach=found-new,found-old,not-found-new,not-found-old,before-all,after-all,between-files
//vx:entry vxC20SeekRecord reach=older-than,from-start,none-older
//vx:entry vxC20Reuse reach=first-seekstart,first-seekts,first-rebuffered,second-seekstart,second-seekts,found-new,found-old,after-all
//vx:entry vxC20EmptyFile reach=seek-error,seek-ok
//vx:note SCALED CONSTANTS: maxEntrySize=4, bufferSize=8 (real: 16384 and 1638400); the code uses them only in comparisons, offsets and make(); real-magnitude arithmetic (int64 positions) is argued, not executed
//vx:note files: every layout of lines with content length 1..maxEntrySize-1, every line ends with a newline; first byte of a line is its timestamp (symbolic, strictly increasing over all files, arbitrary gaps), the other bytes are arbitrary symbolic bytes >= 0x20; seek targets: any int64
//vx:note line counts quick|thorough: ReadAll one file 0..6|0..8, two files (0..3)+(0..3)|(0..4)+(0..4); FileSeek 1..6|1..7; ReaderSeek one file 1..4|1..6, rotated+current (1..3)+(1..2)|(1..4)+(1..3); SeekRecord 1..3|1..5, (1..2)+(1..2)|(1..3)+(1..3); Reuse 1..4|1..5, (1..2)+(1..2)|(1..3)+(1..2)
//vx:note one constant configuration per run (the engine rewrites constants per property, not per entry): other ratios bufferSize/maxEntrySize (1, 3, 100) and maxEntrySize=3 are not run; counterexamples are not re-built at real scale by this harness
//vx:note timestamp parsing (readQLogTimestamp: JSON field + time.Parse) is replaced by "first byte of the line, 0 for an empty line": a mis-framed probe line therefore yields an arbitrary or zero timestamp
//vx:note os.File model: Read returns everything available up to len(buf) (no short reads), io.EOF only at/after the end, Seek to a negative offset fails
//vx:note reader level, absent target between the rotated and the current file: accepted outcomes are not-found, or nil with the reader at the newest entry (what the code comments document) or at the newest entry of the rotated file
//vx:note outside: lines >= maxEntrySize, files without final newline, empty lines, appends during a read, empty files for the seek assertions (vxC20EmptyFile only checks termination and well-positioned reads)

import (
	"context"
	"io"
	"io/fs"
	"log/slog"
	"os"
	"time"

	"github.com/AdguardTeam/AdGuardHome/internal/vx"
	"github.com/AdguardTeam/golibs/errors"
)

// ---- in-memory file model ----

type vxC20File struct {
	h      *os.File
	data   []byte
	off    int64
	reads  int
	closed bool
}

var vxC20Files []*vxC20File

const vxC20ErrInvalid errors.Error = "seek: invalid argument"

// vxC20Init resets the file model.  It also calls a function of package io
// before anything reads io.EOF: the engine runs the initialiser of a
// dependency package only if that package's SSA has been built, which happens
// on the first call into it (otherwise io.EOF reads as nil).
func vxC20Init() {
	vxC20Files = nil
	_ = io.MultiReader()
	if io.EOF == nil {
		vx.Fail("harness: io.EOF is nil (package io not initialised by the engine)")
	}
}

func vxC20Model(f *os.File) *vxC20File {
	for _, m := range vxC20Files {
		if m.h == f {
			return m
		}
	}
	vx.Fail("harness: unknown *os.File")
	return nil
}

type vxC20Info struct{ size int64 }

func (i vxC20Info) Name() string       { return "querylog.json" }
func (i vxC20Info) Size() int64        { return i.size }
func (i vxC20Info) Mode() fs.FileMode  { return 0o644 }
func (i vxC20Info) ModTime() time.Time { return time.Time{} }
func (i vxC20Info) IsDir() bool        { return false }
func (i vxC20Info) Sys() any           { return nil }

func vxC20Stat(f *os.File) (os.FileInfo, error) {
	return vxC20Info{size: int64(len(vxC20Model(f).data))}, nil
}

func vxC20Seek(f *os.File, offset int64, whence int) (int64, error) {
	m := vxC20Model(f)
	switch whence {
	case io.SeekCurrent:
		offset += m.off
	case io.SeekEnd:
		offset += int64(len(m.data))
	}
	if offset < 0 {
		return 0, vxC20ErrInvalid
	}
	m.off = offset
	return offset, nil
}

func vxC20Read(f *os.File, b []byte) (int, error) {
	m := vxC20Model(f)
	if len(b) == 0 {
		return 0, nil
	}
	if m.off >= int64(len(m.data)) {
		return 0, io.EOF
	}
	n := copy(b, m.data[m.off:])
	m.off += int64(n)
	m.reads++
	return n, nil
}

func vxC20Close(f *os.File) error {
	vxC20Model(f).closed = true
	return nil
}

func vxC20Name(f *os.File) string { return "querylog.json" }

// vxC20Timestamp replaces readQLogTimestamp: the timestamp is the first byte.
func vxC20Timestamp(_ context.Context, _ *slog.Logger, str string) int64 {
	if len(str) == 0 {
		return 0
	}
	return int64(str[0])
}

// ---- file layouts ----

type vxC20Layout struct {
	data  []byte
	start []int    // index of the first byte of line i
	end   []int    // index of the newline that ends line i
	line  []string // expected content of line i
	ts    []byte   // timestamp of line i
}

var vxC20Names = [2]string{"old", "new"}

// vxC20Build forks over every layout of minLines..maxLines lines.  prev is the
// largest timestamp so far (timestamps increase strictly over all files).
func vxC20Build(name string, minLines, maxLines int, prev *byte) *vxC20Layout {
	const e = maxEntrySize
	if e > 8 {
		vx.Fail("harness: needs the scaled constants")
	}
	l := &vxC20Layout{}
	k := minLines + vx.Choice(name+".lines", maxLines-minLines+1)
	for i := 0; i < k; i++ {
		n := 1 + vx.Choice(name+".len", e-1)
		t := vx.Byte(name + ".ts")
		vx.Assume(t >= 0x20)
		vx.Assume(t > *prev)
		*prev = t
		l.start = append(l.start, len(l.data))
		l.data = append(l.data, t)
		for j := 1; j < n; j++ {
			c := vx.Byte(name + ".c")
			vx.Assume(c >= 0x20)
			l.data = append(l.data, c)
		}
		l.end = append(l.end, len(l.data))
		l.line = append(l.line, string(l.data[l.start[i]:]))
		l.ts = append(l.ts, t)
		l.data = append(l.data, '\n')
	}
	return l
}

func vxC20Open(l *vxC20Layout) *qLogFile {
	h := new(os.File)
	vxC20Files = append(vxC20Files, &vxC20File{h: h, data: l.data})
	return &qLogFile{file: h}
}

func vxC20Reads(q *qLogFile) int { return vxC20Model(q.file).reads }

// vxC20ReadRest asserts that the following reads of one file return lines
// j, j-1, ..., 0 and then io.EOF.
func vxC20ReadRestFile(q *qLogFile, l *vxC20Layout, j int) {
	for i := j; i >= 0; i-- {
		line, err := q.ReadNext()
		vx.Note(line)
		vx.Note(err != nil)
		vx.Assert(err == nil, "a stored line is readable")
		vx.Assert(line == l.line[i], "reads return the stored lines, complete, in reverse order, each once")
	}
	_, err := q.ReadNext()
	vx.Assert(err == io.EOF, "io.EOF after the oldest line")
}

type vxC20Set struct {
	r    *qLogReader
	lay  []*vxC20Layout
	nf   int
	last byte
}

// vxC20Reader builds a reader over nf files (oldest first).
func vxC20Reader(nf int, minLines int, maxLines []int) *vxC20Set {
	vxC20Init()
	s := &vxC20Set{nf: nf}
	s.r = &qLogReader{}
	for i := 0; i < nf; i++ {
		name := vxC20Names[2-nf+i]
		l := vxC20Build(name, minLines, maxLines[2-nf+i], &s.last)
		s.lay = append(s.lay, l)
		s.r.qFiles = append(s.r.qFiles, vxC20Open(l))
	}
	s.r.currentFile = nf - 1
	return s
}

// readRest asserts that the following reads return line j of file fi, then
// everything older across the files, then io.EOF (twice).
func (s *vxC20Set) readRest(fi, j int) {
	for f := fi; f >= 0; f-- {
		l := s.lay[f]
		if f != fi {
			j = len(l.line) - 1
		}
		for i := j; i >= 0; i-- {
			line, err := s.r.ReadNext()
			vx.Assert(err == nil, "a stored line is readable")
			vx.Assert(line == l.line[i], "reads return the stored lines, complete, in reverse order, each once")
		}
	}
	_, err := s.r.ReadNext()
	vx.Assert(err == io.EOF, "io.EOF after the oldest line")
	_, err = s.r.ReadNext()
	vx.Assert(err == io.EOF, "io.EOF is sticky")
}

// locate returns the line whose terminating newline is at pos in file fi.
func (s *vxC20Set) locate(fi int, pos int64) int {
	for i, e := range s.lay[fi].end {
		if int64(e) == pos {
			return i
		}
	}
	return -1
}

func vxC20Bounds(quick, thorough int) int {
	if vx.Thorough() {
		return thorough
	}
	return quick
}

// ---- entries ----

// vxC20ReadAll: SeekStart + ReadNext until EOF returns every line once, in
// reverse order, over one or two files.
func vxC20ReadAll() {
	nf := 1 + vx.Choice("files", 2)
	var s *vxC20Set
	if nf == 1 {
		vx.Reach("one-file")
		k := vxC20Bounds(6, 8)
		s = vxC20Reader(1, 0, []int{0, k})
	} else {
		vx.Reach("two-files")
		k := vxC20Bounds(3, 4)
		s = vxC20Reader(2, 0, []int{k, k})
	}
	vx.MaxSteps(2_000_000, "reading a file backwards terminates")
	err := s.r.SeekStart()
	vx.Assert(err == nil, "SeekStart succeeds")
	s.readRest(nf-1, len(s.lay[nf-1].line)-1)
	vx.Reach("eof")
	for i, l := range s.lay {
		if len(l.data) == 0 {
			vx.Reach("empty-file")
		}
		if vxC20Reads(s.r.qFiles[i]) > 1 {
			vx.Reach("rebuffered")
		}
	}
}

// vxC20FileSeek: (*qLogFile).seekTS over one non-empty file, any target.
func vxC20FileSeek() {
	vxC20Init()
	var prev byte
	l := vxC20Build("new", 1, vxC20Bounds(6, 7), &prev)
	q := vxC20Open(l)
	k := len(l.line)
	size := int64(len(l.data))
	target := vx.Int64("target")

	vx.MaxSteps(2_000_000, "the timestamp search terminates")
	pos, depth, err := q.seekTS(context.Background(), nil, target)
	vx.Note(pos)
	vx.Note(depth)
	vx.Note(err != nil)

	// ceil(log2(size)) + 3 probes at most ("never loops").
	lg := 0
	for (int64(1) << lg) < size {
		lg++
	}
	vx.Assert(depth <= lg+3, "the search ends within ceil(log2(size))+3 narrowing steps")

	first, last := int64(l.ts[0]), int64(l.ts[k-1])
	absent := true
	for i := 0; i < k; i++ {
		absent = vx.And(absent, int64(l.ts[i]) != target)
	}
	switch {
	case err == nil:
		vx.Reach("found")
		j := -1
		for i, e := range l.end {
			if int64(e) == pos {
				j = i
			}
		}
		vx.Assert(j >= 0, "a successful seek returns the end of a stored line")
		if j < 0 {
			return
		}
		vx.Assert(int64(l.ts[j]) == target, "a successful seek lands on the entry with the target timestamp")
		vx.Assert(q.position == pos, "the returned position is the reader position")
		before := vxC20Reads(q)
		vxC20ReadRestFile(q, l, j)
		if vxC20Reads(q) > before+1 {
			vx.Reach("rebuffered-after-seek")
		}
	case errors.Is(err, errTSTooEarly):
		vx.Reach("too-early")
		vx.Assert(target < first, "too-early only for targets before the first entry")
	case errors.Is(err, errTSTooLate):
		vx.Reach("too-late")
		vx.Assert(target > last, "too-late only for targets after the last entry")
	case errors.Is(err, errTSNotFound):
		vx.Reach("not-found")
		vx.Assert(absent, "not-found only for absent timestamps")
		vx.Assert(vx.And(first < target, target < last), "not-found only for targets between stored entries")
	default:
		vx.Fail("seeking in a non-empty file reports found, not-found, too-early or too-late")
	}
	if size > maxEntrySize+1 {
		vx.Reach("probe-window-inside")
	}
}

// vxC20ReaderSeek: (*qLogReader).seekTS over one or two non-empty files.
func vxC20ReaderSeek() {
	nf := 1 + vx.Choice("files", 2)
	var s *vxC20Set
	if nf == 1 {
		s = vxC20Reader(1, 1, []int{0, vxC20Bounds(4, 6)})
	} else {
		s = vxC20Reader(2, 1, []int{vxC20Bounds(3, 4), vxC20Bounds(2, 3)})
	}
	target := vx.Int64("target")

	vx.MaxSteps(4_000_000, "the timestamp search terminates")
	err := s.r.seekTS(context.Background(), target)
	vx.Note(err != nil)
	s.afterSeek(target, err)
}

// afterSeek checks the result of (*qLogReader).seekTS(target) over non-empty
// files against the position of target among the stored timestamps, and then
// the reads that follow.
func (s *vxC20Set) afterSeek(target int64, err error) {
	nf := s.nf
	newest := s.lay[nf-1]
	oldest := s.lay[0]
	first := int64(oldest.ts[0])
	last := int64(newest.ts[len(newest.ts)-1])
	// betweenFiles: after everything in the rotated file, before everything
	// in the current one.
	betweenFiles := false
	if nf == 2 {
		betweenFiles = vx.And(int64(oldest.ts[len(oldest.ts)-1]) < target, target < int64(newest.ts[0]))
	}
	absent := true
	for _, l := range s.lay {
		for _, t := range l.ts {
			absent = vx.And(absent, int64(t) != target)
		}
	}

	if err != nil {
		vx.Assert(errors.Is(err, errTSNotFound), "a failed seek over non-empty files reports not-found")
		vx.Assert(absent, "the timestamp of a stored entry is found")
		vx.Assert(target < last, "a target after the newest entry is not an error (reading starts at the newest entry)")
		if target < first {
			vx.Reach("before-all")
		} else if betweenFiles {
			vx.Reach("between-files")
		} else if target > int64(newest.ts[0]) {
			vx.Reach("not-found-new")
		} else {
			vx.Reach("not-found-old")
		}
		return
	}

	fi := s.r.currentFile
	vx.Assert(fi >= 0 && fi < nf, "current file index in range")
	if fi < 0 || fi >= nf {
		return
	}
	j := s.locate(fi, s.r.qFiles[fi].position)
	vx.Assert(j >= 0, "after a successful seek the reader stands at the end of a stored line")
	if j < 0 {
		return
	}
	atNewest := fi == nf-1 && j == len(newest.line)-1
	atOldFileEnd := nf == 2 && fi == 0 && j == len(oldest.line)-1
	hit := int64(s.lay[fi].ts[j]) == target
	ok := hit
	if atNewest {
		ok = vx.Or(ok, vx.Or(target > last, betweenFiles))
	}
	if atOldFileEnd {
		ok = vx.Or(ok, betweenFiles)
	}
	vx.Assert(ok, "nil result: on the entry with the target timestamp, or at the newest entry for a target after it")
	if hit {
		if fi == nf-1 {
			vx.Reach("found-new")
		} else {
			vx.Reach("found-old")
		}
	} else if target > last {
		vx.Reach("after-all")
	} else {
		vx.Reach("between-files")
	}
	s.readRest(fi, j)
}

// vxC20Reuse: the reader is stateful; a second SeekStart / seekTS on a reader
// that has already been positioned and partly read (buffers filled, older
// file left at some position) behaves like on a fresh one.
func vxC20Reuse() {
	nf := 1 + vx.Choice("files", 2)
	var s *vxC20Set
	if nf == 1 {
		s = vxC20Reader(1, 1, []int{0, vxC20Bounds(4, 5)})
	} else {
		s = vxC20Reader(2, 1, []int{vxC20Bounds(2, 3), 2})
	}
	ctx := context.Background()
	vx.MaxSteps(6_000_000, "seeking and reading terminate")

	// first use: SeekStart (one file), or SeekStart / a seek to any stored
	// entry (two files), then some reads
	fi := nf - 1
	if nf == 2 {
		fi = vx.Choice("first.file", nf)
	}
	k := len(s.lay[fi].line)
	j := k
	if nf == 2 {
		j = vx.Choice("first.line", k+1)
	}
	if j == k {
		vx.Assume(fi == nf-1)
		vx.Reach("first-seekstart")
		err := s.r.SeekStart()
		vx.Assert(err == nil, "SeekStart succeeds")
		j = k - 1
	} else {
		vx.Reach("first-seekts")
		err := s.r.seekTS(ctx, int64(s.lay[fi].ts[j]))
		vx.Assert(err == nil, "the timestamp of a stored entry is found")
	}
	m := 0
	switch {
	case nf == 2:
		m = 2 * vx.Choice("first.reads", 2+vxC20Bounds(0, 1))
	case vx.Thorough():
		m = vx.Choice("first.reads", k+1)
	default:
		m = vx.Choice("first.reads", min(k, 3)+1)
	}
	for ; m > 0; m-- {
		line, err := s.r.ReadNext()
		if j < 0 && fi > 0 {
			fi--
			j = len(s.lay[fi].line) - 1
		}
		if j < 0 {
			vx.Assert(err == io.EOF, "io.EOF after the oldest line")
			break
		}
		vx.Assert(err == nil, "a stored line is readable")
		vx.Assert(line == s.lay[fi].line[j], "reads return the stored lines, complete, in reverse order, each once")
		j--
	}
	if vxC20Reads(s.r.qFiles[nf-1]) > 1 {
		vx.Reach("first-rebuffered")
	}

	// second use
	if vx.Choice("second", 2) == 0 {
		vx.Reach("second-seekstart")
		err := s.r.SeekStart()
		vx.Assert(err == nil, "SeekStart succeeds")
		s.readRest(nf-1, len(s.lay[nf-1].line)-1)
		return
	}
	vx.Reach("second-seekts")
	target := vx.Int64("target")
	err := s.r.seekTS(ctx, target)
	s.afterSeek(target, err)
}

// vxC20SeekRecord: seekRecord(olderThan) positions the reader on the first
// record older than olderThan when that instant is a stored timestamp; the
// zero time means "from the newest record".
func vxC20SeekRecord() {
	nf := 1 + vx.Choice("files", 2)
	var s *vxC20Set
	if nf == 1 {
		s = vxC20Reader(1, 1, []int{0, vxC20Bounds(3, 5)})
	} else {
		s = vxC20Reader(2, 1, []int{vxC20Bounds(2, 3), vxC20Bounds(2, 3)})
	}
	fi := vx.Choice("pick.file", nf)
	j := vx.Choice("pick.line", len(s.lay[fi].line))
	vx.MaxSteps(4_000_000, "seekRecord terminates")
	if vx.Choice("zero", 2) == 1 {
		vx.Reach("from-start")
		err := s.r.seekRecord(context.Background(), time.Time{})
		vx.Assert(err == nil, "seekRecord(zero time) succeeds")
		s.readRest(nf-1, len(s.lay[nf-1].line)-1)
		return
	}
	older := time.Unix(0, int64(s.lay[fi].ts[j]))
	err := s.r.seekRecord(context.Background(), older)
	// the record just older than line j of file fi
	switch {
	case j > 0:
		j--
	case fi > 0:
		fi--
		j = len(s.lay[fi].line) - 1
	default:
		vx.Reach("none-older")
		vx.Assert(err == nil, "seekRecord(timestamp of a stored entry) succeeds")
		_, err = s.r.ReadNext()
		vx.Assert(err == io.EOF, "no record older than the oldest one: io.EOF")
		return
	}
	vx.Reach("older-than")
	vx.Assert(err == nil, "seekRecord(timestamp of a stored entry) succeeds")
	s.readRest(fi, j)
}

// vxC20EmptyFile: files of zero lines.  An empty file makes the search fail
// with the read error (io.EOF) instead of one of the three verdicts; only
// termination and the position after a nil result are checked here.
func vxC20EmptyFile() {
	var s *vxC20Set
	switch vx.Choice("shape", 3) {
	case 0:
		s = vxC20Reader(1, 0, []int{0, 0})
	case 1: // empty rotated file, non-empty current file
		s = vxC20Reader(2, 0, []int{0, 3})
		vx.Assume(len(s.lay[1].line) > 0)
	default: // non-empty rotated file, empty current file
		s = vxC20Reader(2, 0, []int{3, 0})
		vx.Assume(len(s.lay[0].line) > 0)
	}
	target := vx.Int64("target")
	vx.MaxSteps(2_000_000, "the timestamp search terminates")
	err := s.r.seekTS(context.Background(), target)
	if err != nil {
		vx.Reach("seek-error")
		return
	}
	vx.Reach("seek-ok")
	fi := s.r.currentFile
	vx.Assert(fi >= 0 && fi < s.nf, "current file index in range")
	j := s.locate(fi, s.r.qFiles[fi].position)
	vx.Assert(j >= 0, "after a successful seek the reader stands at the end of a stored line")
	if j < 0 {
		return
	}
	l := s.lay[fi]
	vx.Assert(vx.Or(int64(l.ts[j]) == target, vx.And(j == len(l.line)-1, target > int64(l.ts[j]))),
		"nil result: on the entry with the target timestamp, or at the newest entry for a later target")
	s.readRest(fi, j)
}

