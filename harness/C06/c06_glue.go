//go:build verif

package dnsforward

// C06 (server side) — what the client sees for a name covered by the custom
// rewrite table: response assembly, upstream use, question restoration.
//
// Real code: processFilteringBeforeRequest -> filterDNSRequest ->
// filtering.CheckHost -> processRewrites; getCNAMEWithIPs and the genAnswer*
// helpers; processUpstream; processFilteringAfterResponse.
//
//vx:overlay internal/dnsforward/zz_vx_c06.go
//vx:entry vxC06Glue reach=g-local-ips,g-local-cname-ips,g-empty,g-cname-upstream,g-pass,g-unmatched,g-open
//vx:stub (*github.com/AdguardTeam/dnsproxy/proxy.Proxy).Resolve vxC06Upstream
//vx:note server entry: table of 2 symbolic entries (patterns "xyz" or "*.z" with symbolic bytes; quick 3-byte names, thorough 3 and 5), queried name of wire-safe lower-case bytes, any query type; upstream (dnsproxy Resolve) is a stub that logs the question it is asked and answers it with one A record and echoes the question
//vx:note outside: EDNS/DNSSEC flags, per-client upstreams, query log and statistics stages, answers taken from the DNS cache

import (
	"net/netip"

	"github.com/AdguardTeam/AdGuardHome/internal/filtering"
	"github.com/AdguardTeam/AdGuardHome/internal/vx"
	"github.com/AdguardTeam/dnsproxy/proxy"
	"github.com/miekg/dns"
)

var (
	vxC06UpCalls int
	vxC06UpName  string
	vxC06UpType  uint16
)

var vxC06UpAddr = []byte{192, 0, 2, 7}

// vxC06Upstream stands for the forwarding proxy: it records what it is asked
// and answers exactly that question.
func vxC06Upstream(p *proxy.Proxy, pctx *proxy.DNSContext) error {
	vxC06UpCalls++
	q := pctx.Req.Question[0]
	vxC06UpName, vxC06UpType = q.Name, q.Qtype
	resp := (&dns.Msg{}).SetReply(pctx.Req)
	resp.Answer = []dns.RR{&dns.A{
		Hdr: dns.RR_Header{Name: q.Name, Rrtype: dns.TypeA, Class: dns.ClassINET, Ttl: 60},
		A:   vxC06UpAddr,
	}}
	pctx.Res = resp

	return nil
}

func vxC06IsUpstreamRR(rr dns.RR, name string) bool {
	a, ok := rr.(*dns.A)
	if !ok {
		return false
	}

	return a.Hdr.Name == name && len(a.A) == 4 && a.A[0] == 192 && a.A[3] == 7
}

func vxC06Glue() {
	d, table, host := filtering.VxC06GlueCase()
	qt := vx.Uint16("qtype")
	s := &Server{dnsFilter: d, dnsProxy: &proxy.Proxy{}}
	fq := host + "."
	req := &dns.Msg{}
	req.Id = 11
	req.RecursionDesired = true
	req.Question = []dns.Question{{Name: fq, Qtype: qt, Qclass: dns.ClassINET}}
	pctx := &proxy.DNSContext{Req: req, Proto: proxy.ProtoUDP, Addr: netip.MustParseAddrPort("192.0.2.1:5353")}
	dctx := &dnsContext{
		proxyCtx:          pctx,
		result:            &filtering.Result{},
		setts:             &filtering.Settings{FilteringEnabled: true, ProtectionEnabled: true},
		protectionEnabled: true,
	}
	vxC06UpCalls, vxC06UpName, vxC06UpType = 0, "", 0

	for _, stage := range []func(*dnsContext) resultCode{
		s.processFilteringBeforeRequest,
		s.processUpstream,
		s.processFilteringAfterResponse,
	} {
		rc := stage(dctx)
		vx.Assert(rc == resultCodeSuccess, "every stage succeeds")
	}
	res := pctx.Res
	vx.Assert(res != nil, "a response is produced")
	if res == nil {
		return
	}

	// What every client must see, whatever the table says.
	vx.Assert(len(res.Question) == 1 && res.Question[0].Name == fq && res.Question[0].Qtype == qt,
		"the response carries the client's original question")
	vx.Assert(req.Question[0].Name == fq && req.Question[0].Qtype == qt, "the request is left with its original question")
	vx.Assert(vxC06UpCalls <= 1, "at most one upstream exchange")

	kind, canon, ips := filtering.VxC06Expect(table, host, qt)
	switch kind {
	case 0, 1:
		if kind == 0 {
			vx.Reach("g-unmatched")
		} else {
			vx.Reach("g-pass")
		}
		vx.Assert(vxC06UpCalls == 1 && vxC06UpName == fq && vxC06UpType == qt, "not covered / exception: upstream is asked the original question")
		vx.Assert(len(res.Answer) == 1 && vxC06IsUpstreamRR(res.Answer[0], fq), "not covered / exception: the upstream's answer is returned unchanged")
	case 2:
		vx.Assert(res.Rcode == dns.RcodeSuccess, "rewritten: successful answer")
		if canon != "" && len(ips) == 0 {
			vx.Reach("g-cname-upstream")
			cfq := canon + "."
			vx.Assert(vxC06UpCalls == 1 && vxC06UpName == cfq && vxC06UpType == qt, "CNAME without local address: upstream is asked for the canonical name")
			ok := len(res.Answer) == 2
			if ok {
				cn, isCN := res.Answer[0].(*dns.CNAME)
				ok = isCN && cn.Hdr.Name == fq && cn.Target == cfq && cn.Hdr.Rrtype == dns.TypeCNAME && vxC06IsUpstreamRR(res.Answer[1], cfq)
			}
			vx.Assert(ok, "CNAME without local address: CNAME record for the original name, then the upstream's records")

			return
		}
		vx.Assert(vxC06UpCalls == 0, "answered from the table: upstream is not asked")
		want := len(ips)
		owner := fq
		if canon != "" {
			vx.Reach("g-local-cname-ips")
			want++
			owner = canon + "."
		} else if len(ips) > 0 {
			vx.Reach("g-local-ips")
		} else {
			vx.Reach("g-empty")
		}
		vx.Assert(len(res.Answer) == want, "answered from the table: exactly the CNAME (if any) and one record per table address; nothing when there is no value for the type")
		if len(res.Answer) != want {
			return
		}
		rrs := res.Answer
		if canon != "" {
			cn, isCN := rrs[0].(*dns.CNAME)
			vx.Assert(isCN && cn.Hdr.Name == fq && cn.Target == owner, "CNAME record: original name -> canonical name")
			rrs = rrs[1:]
		}
		used := make([]bool, len(ips))
		for _, rr := range rrs {
			var got netip.Addr
			okT := false
			switch rr := rr.(type) {
			case *dns.A:
				got, _ = netip.AddrFromSlice(rr.A)
				okT = qt == dns.TypeA && rr.Hdr.Name == owner && rr.Hdr.Rrtype == dns.TypeA
			case *dns.AAAA:
				got, _ = netip.AddrFromSlice(rr.AAAA)
				okT = qt == dns.TypeAAAA && rr.Hdr.Name == owner && rr.Hdr.Rrtype == dns.TypeAAAA
			}
			vx.Assert(okT, "address record of the requested type owned by the resolved name")
			hit := false
			for j, ip := range ips {
				if !used[j] && !hit && ip == got {
					used[j], hit = true, true
				}
			}
			vx.Assert(hit, "address record carries a table address of the resolved name")
		}
	default:
		vx.Reach("g-open")
	}
}
