//go:build verif

package stats

// C05 (restricted) — lock discipline of stats.StatsCtx: curr under currMu;
// ignored, limit, enabled under confMu.
//
//vx:overlay internal/stats/zz_vx_c05.go
//vx:entry vxC05Stats reach=guarded-access
//vx:stub (*github.com/AdguardTeam/AdGuardHome/internal/aghnet.IgnoreEngine).Has vxC05IgnoreHas
//vx:stub (*encoding/json.Decoder).Decode vxC05SJSONDecode
//vx:stub github.com/AdguardTeam/AdGuardHome/internal/aghhttp.WriteJSONResponse vxC05SWriteJSON
//vx:stub github.com/AdguardTeam/AdGuardHome/internal/aghnet.NewIgnoreEngine vxC05SNewIgnore
//vx:stub os.Remove vxC05SRemove
//vx:stub (*github.com/AdguardTeam/AdGuardHome/internal/stats.StatsCtx).openDB vxC05SOpenDB

import (
	"context"
	"encoding/json"
	"log/slog"
	"net/http"
	"net/netip"
	"sync"
	"time"

	"github.com/AdguardTeam/AdGuardHome/internal/aghalg"
	"github.com/AdguardTeam/AdGuardHome/internal/aghnet"
	"github.com/AdguardTeam/AdGuardHome/internal/vx"
	"github.com/miekg/dns"
)

func vxC05IgnoreHas(e *aghnet.IgnoreEngine, host string) bool { return false }

// vxC05SJSONDecode stands for the JSON decoder of the admin API: a fixed valid
// configuration request (the old API switches statistics off, which also
// clears them).
func vxC05SJSONDecode(dec *json.Decoder, v any) error {
	switch r := v.(type) {
	case *getConfigResp:
		r.Interval = 86_400_000
		r.Enabled = aghalg.NBTrue
	case *configResp:
		r.IntervalDays = 0
	}
	return nil
}

func vxC05SWriteJSON(w http.ResponseWriter, r *http.Request, code int, resp any) {}
func vxC05SNewIgnore(ignored []string) (*aghnet.IgnoreEngine, error)        { return &aghnet.IgnoreEngine{}, nil }
func vxC05SRemove(name string) error                                        { return nil }
func vxC05SOpenDB(s *StatsCtx) error                                        { return nil }

type vxC05SWriter struct{ h http.Header }

func (w *vxC05SWriter) Header() http.Header         { return w.h }
func (w *vxC05SWriter) Write(b []byte) (int, error) { return len(b), nil }
func (w *vxC05SWriter) WriteHeader(code int)        {}

func vxC05Stats() {
	s := &StatsCtx{
		logger:            slog.Default(),
		currMu:            &sync.RWMutex{},
		confMu:            &sync.RWMutex{},
		ignored:           &aghnet.IgnoreEngine{},
		shouldCountClient: func([]string) bool { return true },
		limit:             24 * time.Hour,
		enabled:           true,
		curr:              newUnit(1),
		unitIDGen:         func() uint32 { return 1 },
	}
	s.configModified = func() {
		saved := Config{}
		s.WriteDiskConfig(&saved)
	}
	vx.Guard(&s.curr, s.currMu, "stats.StatsCtx.curr")
	vx.Guard(&s.ignored, s.confMu, "stats.StatsCtx.ignored")
	vx.Guard(&s.limit, s.confMu, "stats.StatsCtx.limit")
	vx.Guard(&s.enabled, s.confMu, "stats.StatsCtx.enabled")

	w := &vxC05SWriter{h: http.Header{}}
	r := (&http.Request{Method: http.MethodPut, Header: http.Header{"Content-Type": {"application/json"}}, Body: http.NoBody}).WithContext(context.Background())
	switch vx.Choice("op", 11) {
	case 5: // admin: new configuration API
		s.handlePutStatsConfig(w, r)
	case 6: // admin: old configuration API, switching statistics off
		s.handleStatsConfig(w, r)
	case 7: // admin: read the configuration
		s.handleGetStatsConfig(w, r)
	case 8:
		s.handleStatsInfo(w, r)
	case 9: // admin: reset
		s.handleStatsReset(w, r)
	case 10: // API: the statistics themselves
		s.handleStats(w, r)
	case 0: // request path
		s.ShouldCount("example.org", dns.TypeA, dns.ClassINET, []string{"1.2.3.4"})
	case 1: // request path
		s.Update(&Entry{Domain: "example.org", Client: "1.2.3.4", Result: RNotFiltered, ProcessingTime: time.Millisecond})
	case 2: // admin / API
		c := Config{}
		s.WriteDiskConfig(&c)
	case 3:
		s.TopClientsIP(1)
	default: // hourly worker without a database
		s.flush()
	}
	if vx.GuardHits() > 0 {
		vx.Reach("guarded-access")
	}
	vx.Assert(vx.Held(s.currMu) == 0 && vx.Held(s.confMu) == 0, "locks are released on return")
	_ = netip.Addr{}
}
